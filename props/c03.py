"""C03 A Deferred delivers one result; cancellation follows its protocol.

A *history* is a tuple of op codes applied to a chain of real Deferreds: the outer `d` (canceller
kind `ck`), `inner` (kind `ik`) and, in harness `chain3`, a second-level `inner2` (kind `ik2`):
  0 d.callback(v+i)   1 d.errback(Boom(i))   2 d.cancel()
  3 d.addCallback(lambda _: inner); d.addBoth(probe)        4 inner.callback(v+100+i)
  5 inner.addCallback(lambda _: inner2); inner.addBoth(probe)   6 inner2.callback(v+200+i)   (chain3 only)
canceller kinds: 0 none, 1 does nothing, 2 fires callback(77), 3 fires errback(Boom(300)), 4 raises.
The oracle `_M` is an explicit small-state model per level (fired?, swallow-one-late-result?,
waiting-on-next-level?, canceller call count, pending callbacks) that predicts for every step whether
the call raises AlreadyCalledError (or lets a canceller's exception through) and everything observable
afterwards; cancel() on a fired Deferred goes down the whole chain of Deferreds waiting for each other.
"""
import traceback
from typing import Tuple

from twisted.internet import defer as _defer
from twisted.internet.defer import AlreadyCalledError, CancelledError, Deferred
from twisted.python.failure import Failure

from vlib.api import H, cover

PROPERTY = "C03"
LEVEL = "model_checking"
ENCODED = ["twisted.internet.defer:Deferred.cancel", "twisted.internet.defer:Deferred._startRunCallbacks",
           "twisted.internet.defer:Deferred.callback", "twisted.internet.defer:Deferred.errback",
           "twisted.internet.defer:Deferred._runCallbacks"]
BOUNDS = {"quick": {"n": 5, "n0": 5, "k": 3, "kd": 3, "nd": 4}, "thorough": {"n": 6, "n0": 7, "k": 5, "kd": 4, "nd": 5}}
B = {}
BOUNDS_TEXT = ("every history of <= n ops (<= n0 ops for the outer Deferred without canceller, thorough tier) over {callback, errback, cancel, add callback returning the unfired-or-"
               "fired inner Deferred (+ probe), fire inner}, outer canceller kind in {none, no-op, fires callback, "
               "fires errback, raises}, inner canceller kind likewise, fired values v+i for every int v; chain3: "
               "three levels (d -> inner -> inner2), 3 prefixes (both returning callbacks added / d already "
               "waiting / d waits for inner waits for inner2) followed by every k ops of all 7, inner and "
               "inner2 canceller kinds free, d's canceller the no-op one; model and real state are compared "
               "after every op, so shorter histories are covered as prefixes; history_debug: histories of <= nd "
               "ops (4 quick, 5 thorough) with defer.setDebugging(True); chain3 runs with debugging off (k ops) and on (kd ops: 3 quick, 4 thorough)")
OUTSIDE = ["histories longer than n (the property's own bound is 8)",
           "chains deeper than three levels; more than one Deferred per level; three-level histories that do not "
           "start with one of the three prefixes",
           "cancellers that re-enter cancel(), add callbacks or fire a different Deferred",
           "the text of the AlreadyCalledError raised in debug mode (creation/invocation stacks are stubbed "
           "out), DeferredList / inlineCallbacks cancellation (C04, C05)"]
ASSUMPTIONS = ["the explicit state model _M is the specification of the documented one-result / cancellation rules",
               "op and kind codes outside their range denote the nearest valid code (clamping)"]
EXPLANATION = ("symbolic histories on a real outer/inner Deferred pair with every canceller kind, compared step by step "
               "with an explicit state model: raised exception, canceller call counts, delivered results, state")


class _Boom(Exception):
    pass


class _CErr(Exception):
    pass


def _c(x, lo, hi):
    """concretise a symbolic int (clamped to range(lo, hi)): one path per value, binary search"""
    while hi - lo > 1:
        mid = (lo + hi) // 2
        if x < mid:
            hi = mid
        else:
            lo = mid
    return lo


CANC = ("F", -1)            # Failure(CancelledError)
NONE = ("N", 0)


NL = 3                      # outer d = level 0, inner = level 1, inner2 = level 2


class _Side:
    """model of one Deferred as far as this property needs it"""

    def __init__(self):
        self.called = False
        self.suppress = False       # swallow exactly one late callback/errback
        self.ncanc = 0              # canceller calls
        self.res = None
        self.kind = None            # canceller kind, None until known
        self.waiting = False        # fired and waiting for the Deferred one level down
        self.cbs = []               # pending: ('P', id) probe, ('R', id) returns the next level, ('C',)
                                    # continuation: hand my result to the level above, which waits for me


class _M:
    """explicit state model of a chain d -> inner -> inner2 (each level may wait for the next one)"""

    def __init__(self, kindf):
        self.s = [_Side() for _ in range(NL)]
        self.s[0].cbs.append(("P", -1))
        self.kindf = kindf          # decodes a canceller kind when it is first needed
        self.trace = []

    # -- firing ---------------------------------------------------------------------------------
    def fire(self, j, res):
        """callback()/errback() on level j: 'ACE' if it must raise AlreadyCalledError"""
        s = self.s[j]
        if s.called:
            if s.suppress:
                s.suppress = False
                return None
            return "ACE"
        s.called = True
        s.res = res
        self.run(j)
        return None

    def add(self, j, rid, pid):
        s = self.s[j]
        s.cbs.append(("R", rid))
        s.cbs.append(("P", pid))
        if s.called:
            self.run(j)

    def run(self, j):
        s = self.s[j]
        while s.cbs and not s.waiting:
            e = s.cbs.pop(0)
            if e[0] == "C":
                # the level above returned me from a callback: it takes my result and resumes
                up = self.s[j - 1]
                up.res = s.res
                s.res = NONE
                up.waiting = False
                self.run(j - 1)
            elif e[0] == "P":
                self.trace.append((e[1], s.res))
            elif s.res[0] != "F":
                self.trace.append((e[1], s.res))
                nxt = self.s[j + 1]
                if nxt.called and not nxt.waiting:
                    s.res = nxt.res
                    nxt.res = NONE
                else:
                    s.res = ("D", j + 1)
                    s.waiting = True
                    nxt.cbs.append(("C",))

    # -- cancelling -----------------------------------------------------------------------------
    def cancel(self, j):
        """cancel() on level j: None, or 'CERR' when a canceller's exception comes through"""
        s = self.s[j]
        if not s.called:
            if s.kind is None:
                s.kind = self.kindf(j)
            if s.kind == 0:
                s.suppress = True
            else:
                s.ncanc += 1
                if s.kind == 2:
                    self.fire(j, ("I", 77))
                elif s.kind == 3:
                    self.fire(j, ("F", 300))
                elif s.kind == 4:
                    return "CERR"
            if not s.called:
                self.fire(j, CANC)
            return None
        if s.waiting:
            # fired and waiting for the next level: the cancellation goes down the whole chain
            return self.cancel(j + 1)
        return None


class _World:
    def __init__(self, v, kinds):
        self.v = v
        self.kinds = list(kinds)            # canceller kind codes of the three levels (symbolic or concrete)
        self.kc = [None] * NL               # decoded kinds
        self.ncanc = [0] * NL
        self.trace = []
        self.checked = 0
        self.ds = [None] * NL               # built when first used
        self.m = _M(self.kindf)
        self.get(0).addBoth(self.probe(-1))

    def kindf(self, j):
        if self.kc[j] is None:
            self.kc[j] = _c(self.kinds[j], 0, 5)
        return self.kc[j]

    def canceller(self, j):
        def canc(d):
            self.ncanc[j] += 1
            k = self.kindf(j)
            if k == 2:
                d.callback(77)
            elif k == 3:
                d.errback(_Boom(300))
            elif k == 4:
                raise _CErr()
        return canc

    def get(self, j):
        # a Deferred is built when first used; only then 'has a canceller at all?' is decided, and
        # which canceller it is only when that canceller is called
        if self.ds[j] is None:
            has = not (self.kinds[j] <= 0) if self.kc[j] is None else self.kc[j] != 0
            if not has:
                self.kc[j] = 0
            self.ds[j] = Deferred(self.canceller(j) if has else None)
        return self.ds[j]

    def abs(self, x):
        if isinstance(x, Failure):
            if isinstance(x.value, CancelledError):
                return CANC
            return ("F", x.value.args[0])
        if x is None:
            return NONE
        if isinstance(x, Deferred):
            for j in range(NL):
                if x is self.ds[j]:
                    return ("D", j)
            return ("D", -1)
        return ("I", x)

    def probe(self, k):
        def p(arg):
            self.trace.append((k, self.abs(arg)))
            return arg
        return p

    def ret_next(self, k, j):
        def r(arg):
            self.trace.append((k, self.abs(arg)))
            return self.get(j + 1)
        return r

    def step(self, i, op):
        m = self.m
        # ---- model
        if op == 0:
            exp = m.fire(0, ("I", self.v + i))
        elif op == 1:
            exp = m.fire(0, ("F", i))
        elif op == 2:
            exp = m.cancel(0)
        elif op == 3:
            exp = m.add(0, i, 100 + i)
        elif op == 4:
            exp = m.fire(1, ("I", self.v + 100 + i))
        elif op == 5:
            exp = m.add(1, 200 + i, 300 + i)
        else:
            exp = m.fire(2, ("I", self.v + 200 + i))
        # ---- real
        got = None
        try:
            if op == 0:
                self.get(0).callback(self.v + i)
            elif op == 1:
                self.get(0).errback(_Boom(i))
            elif op == 2:
                self.get(0).cancel()
            elif op == 3:
                self.get(0).addCallback(self.ret_next(i, 0))
                self.get(0).addBoth(self.probe(100 + i))
            elif op == 4:
                self.get(1).callback(self.v + 100 + i)
            elif op == 5:
                self.get(1).addCallback(self.ret_next(200 + i, 1))
                self.get(1).addBoth(self.probe(300 + i))
            else:
                self.get(2).callback(self.v + 200 + i)
        except AlreadyCalledError:
            got = "ACE"
        except _CErr:
            got = "CERR"
        if got != exp:
            return False
        return self.same()

    def same(self, final=False):
        m = self.m
        if len(self.trace) != len(m.trace):
            return False
        for n in range(self.checked, len(self.trace)):
            x, y = self.trace[n], m.trace[n]
            if x[0] != y[0] or x[1][0] != y[1][0] or x[1][1] != y[1][1]:
                return False
        self.checked = len(self.trace)
        # one result, delivered exactly once: the first callback runs once iff d has fired
        n0 = 0
        ids = []
        for x in self.trace:
            if x[0] == -1:
                n0 += 1
            if x[0] in ids:
                return False
            ids.append(x[0])
        if n0 != (1 if self.ds[0].called else 0):
            return False
        for j in range(NL):
            d, s = self.ds[j], m.s[j]
            if self.ncanc[j] != s.ncanc:
                return False
            if d is None:
                if s.called or s.cbs:
                    return False
                continue
            if d.called != s.called or d._suppressAlreadyCalled != s.suppress:
                return False
            if d.paused != (1 if s.waiting else 0) or len(d.callbacks) != len(s.cbs):
                return False
            if d.called:
                a = self.abs(d.result)
                if a[0] != s.res[0]:
                    return False
                if (final or a[0] != "I") and a[1] != s.res[1]:
                    return False
            elif hasattr(d, "result"):
                return False
        return True

    def finish(self):
        for d in self.ds:
            if d is not None:
                d.callbacks[:] = []
                d.addErrback(lambda f: None)
                if d._debugInfo is not None:
                    d._debugInfo.failResult = None


T8 = Tuple[int, int, int, int, int, int, int, int]


class _NoStackText:
    """stands in for the `traceback` module inside defer.py while Deferred debugging is on: the
    creation/invocation stack *text* recorded by debug mode is irrelevant here and formatting the
    solver's own stack on every Deferred operation is slow"""

    @staticmethod
    def format_stack(*a, **k):
        return []

    def __getattr__(self, name):
        return getattr(traceback, name)


def _hist(n, kinds, v, ops, nops=5, prefix=(), debug=False):
    """prefix: concrete ops run first; then n symbolic ops (code clamped to range(nops)).
    debug: run with defer.setDebugging(True) (restored afterwards): the protocol must not change"""
    dbg = True if debug else False
    old = (_defer.getDebugging(), _defer.traceback)
    _defer.setDebugging(dbg)
    if dbg:
        _defer.traceback = _NoStackText()
    try:
        w = _World(v, kinds)
        try:
            for i in range(len(prefix) + n):
                op = prefix[i] if i < len(prefix) else _c(ops[i - len(prefix)], 0, nops)
                if not w.step(i, op):
                    return False
            cover()
            return w.same(True)
        finally:
            w.finish()
    finally:
        _defer.setDebugging(old[0])
        _defer.traceback = old[1]


def history(ck: int, ik: int, v: int, ops: T8) -> bool:
    """
    pre: 0 <= ck <= 4
    post: _
    """
    return _hist(B['n'], (_c(ck, 0, 5), ik, 0), v, ops)


def history_nocanc(ik: int, v: int, ops: T8) -> bool:
    """
    pre: True
    post: _
    """
    # longer histories for the canceller-less outer Deferred (the 'swallow one late result' rule)
    return _hist(B['n0'], (0, ik, 0), v, ops)


# three levels: d's callback returns inner, inner's callback returns inner2.  Prefixes (both callbacks
# are in place / d already waits for inner when inner gets its callback), then every k ops of all 7.
PRE3 = [(3, 5), (3, 0, 5), (3, 5, 0, 4)]     # the last one: d waits for inner waits for inner2


def history_debug(ck: int, ik: int, v: int, ops: T8) -> bool:
    """
    pre: True
    post: _
    """
    # the same histories under defer.setDebugging(True); both canceller kinds are decoded when needed
    return _hist(B['nd'], (ck, ik, 0), v, ops, debug=True)


def chain3(debug: bool, sc: int, ik: int, ik2: int, v: int, ops: T8) -> bool:
    """
    pre: 0 <= sc < len(PRE3)
    post: _
    """
    # d's own canceller is the counting no-op one here (all its kinds are covered by `history`)
    return _hist(B['kd'] if debug else B['k'], (1, ik, ik2), v, ops, 7, PRE3[_c(sc, 0, len(PRE3))], debug)


def _bucket(k, c, nops=5):
    if c == 0:
        return "ops[%d] < 1" % k
    if c == nops - 1:
        return "ops[%d] >= %d" % (k, c)
    return "ops[%d] == %d" % (k, c)


def _split(sh, depth, nops=5):
    for k in range(depth):
        sh = [x + (_bucket(k, c, nops),) for x in sh for c in range(nops)]
    return sh


HARNESSES = [
    H(history, shards=lambda tier: _split([("ck == %d" % ck,) for ck in range(5)], 1 if tier == "quick" else 2),
      timeout={"quick": 150, "thorough": 1200}),
    H(history_nocanc, shards=lambda tier: _split([()], 3), tiers=("thorough",), timeout={"thorough": 1200}),
    H(history_debug, shards=lambda tier: _split([()], 1 if tier == "quick" else 2),
      timeout={"quick": 150, "thorough": 1200}),
    # thorough: the debugging-on half is one op shallower (kd) and split one level less: the first full
    # thorough run with nd=6 / k=5 under debugging did not finish in 45 minutes
    H(chain3, shards=lambda tier: _split([("sc == %d" % k, "debug == False") for k in range(len(PRE3))],
                                         0 if tier == "quick" else 2, 7) +
      _split([("sc == %d" % k, "debug == True") for k in range(len(PRE3))], 0 if tier == "quick" else 1, 7),
      timeout={"quick": 150, "thorough": 1200}),
]

VECTORS = {"history": [
    # no canceller: cancel, then exactly one late callback is swallowed, the next one raises
    (0, 0, 5, (2, 0, 0, 1, 2, 0, 0, 0)),
    # canceller fires the callback itself
    (2, 0, 5, (2, 0, 3, 4, 2, 0, 0, 0)),
    # waiting on inner: cancel is forwarded, inner (no canceller) errbacks CancelledError, late fire swallowed
    (1, 0, 5, (3, 0, 2, 4, 4, 0, 0, 0)),
    (1, 3, -2, (0, 3, 2, 2, 4, 0, 0, 0)),
    (4, 4, 0, (2, 2, 0, 3, 2, 0, 0, 0)),
], "chain3": [
    # d waits for inner, inner (fired) waits for inner2: cancel on d must reach inner2's canceller;
    # the late result for inner2 (no canceller) is swallowed
    (False, 0, 1, 0, 5, (0, 4, 2, 6, 0, 0, 0, 0)),
    (False, 0, 1, 2, 5, (0, 4, 2, 6, 0, 0, 0, 0)),
    (False, 0, 3, 4, 5, (4, 0, 2, 2, 0, 0, 0, 0)),
    (False, 1, 0, 1, -1, (4, 6, 2, 3, 0, 0, 0, 0)),
    (False, 2, 1, 0, 7, (2, 6, 6, 0, 0, 0, 0, 0)),
    (False, 2, 4, 1, 7, (2, 2, 4, 0, 0, 0, 0, 0)),
    # debugging on: the late result for the cancelled canceller-less inner is still swallowed
    (True, 0, 0, 0, 5, (0, 2, 4, 4, 0, 0, 0, 0)),
    (True, 2, 1, 0, 7, (2, 6, 6, 0, 0, 0, 0, 0)),
], "history_debug": [
    (0, 0, 5, (2, 0, 0, 1, 0, 0, 0, 0)),
    (1, 0, 5, (3, 0, 2, 4, 0, 0, 0, 0)),
]}
