"""C03 A Deferred delivers one result; cancellation follows its protocol.

A *history* is a tuple of op codes applied to one real outer Deferred `d` (canceller kind `ck`) and
one real inner Deferred `inner` (canceller kind `ik`):
  0 d.callback(v+i)   1 d.errback(Boom(i))   2 d.cancel()
  3 d.addCallback(lambda _: inner); d.addBoth(probe_i)      4 inner.callback(v+100+i)
canceller kinds: 0 none, 1 does nothing, 2 fires callback(77), 3 fires errback(Boom(300)), 4 raises.
The oracle `_M` is an explicit small-state model (fired?, swallow-one-late-result?, waiting-on-inner?,
canceller call counts, pending callbacks) that predicts for every step whether the call raises
AlreadyCalledError (or lets the canceller's exception through) and everything observable afterwards.
"""
from typing import Tuple

from twisted.internet.defer import AlreadyCalledError, CancelledError, Deferred
from twisted.python.failure import Failure

from vlib.api import H, cover

PROPERTY = "C03"
LEVEL = "model_checking"
ENCODED = ["twisted.internet.defer:Deferred.cancel", "twisted.internet.defer:Deferred._startRunCallbacks",
           "twisted.internet.defer:Deferred.callback", "twisted.internet.defer:Deferred.errback",
           "twisted.internet.defer:Deferred._runCallbacks"]
BOUNDS = {"quick": {"n": 5, "n0": 5}, "thorough": {"n": 6, "n0": 7}}
B = {}
BOUNDS_TEXT = ("every history of <= n ops (<= n0 ops for the outer Deferred without canceller, thorough tier) over {callback, errback, cancel, add callback returning the unfired-or-"
               "fired inner Deferred (+ probe), fire inner}, outer canceller kind in {none, no-op, fires callback, "
               "fires errback, raises}, inner canceller kind likewise, fired values v+i for every int v; model "
               "and real state are compared after every op, so shorter histories are covered as prefixes")
OUTSIDE = ["histories longer than n (the property's own bound is 8)",
           "more than one inner Deferred; inner Deferreds that themselves wait for a third one",
           "cancellers that re-enter cancel(), add callbacks or fire a different Deferred",
           "Deferred.debug mode (AlreadyCalledError text), DeferredList / inlineCallbacks cancellation (C04, C05)"]
ASSUMPTIONS = ["the explicit state model _M is the specification of the documented one-result / cancellation rules",
               "op and kind codes outside their range denote the nearest valid code (clamping)"]
EXPLANATION = ("symbolic histories on a real outer/inner Deferred pair with every canceller kind, compared step by step "
               "with an explicit state model: raised exception, canceller call counts, delivered results, state")


class _Boom(Exception):
    pass


class _CErr(Exception):
    pass


def _c(x, lo, hi):
    """concretise a symbolic int (clamped to range(lo, hi)): one path per value, binary search"""
    while hi - lo > 1:
        mid = (lo + hi) // 2
        if x < mid:
            hi = mid
        else:
            lo = mid
    return lo


CANC = ("F", -1)            # Failure(CancelledError)
NONE = ("N", 0)


class _Side:
    """model of one Deferred as far as this property needs it"""

    def __init__(self):
        self.called = False
        self.suppress = False       # swallow exactly one late callback/errback
        self.ncanc = 0              # canceller calls
        self.res = None
        self.kind = None            # canceller kind, None until known


class _M:
    def __init__(self, ck, ikf):
        self.o = _Side()
        self.o.kind = ck
        self.i = _Side()
        self.ikf = ikf              # decodes the inner canceller kind when it is first needed
        self.waiting = False        # outer waits for inner (inner holds the continuation)
        self.cbs = [("P", -1)]      # outer's pending callbacks: ('P', id) probe, ('R', id) returns inner
        self.trace = []

    # -- firing ---------------------------------------------------------------------------------
    def fire(self, s, res):
        """callback()/errback() on side s: 'ACE' if it must raise AlreadyCalledError"""
        if s.called:
            if s.suppress:
                s.suppress = False
                return None
            return "ACE"
        s.called = True
        s.res = res
        if s is self.o:
            self.run_outer()
        elif self.waiting:
            # hand the result to the waiting outer Deferred, which resumes
            self.o.res = s.res
            s.res = NONE
            self.waiting = False
            self.run_outer()
        return None

    def run_outer(self):
        o = self.o
        while self.cbs and not self.waiting:
            e = self.cbs.pop(0)
            if e[0] == "P":
                self.trace.append((e[1], o.res))
            elif o.res[0] != "F":
                self.trace.append((e[1], o.res))
                if self.i.called:
                    o.res = self.i.res
                    self.i.res = NONE
                else:
                    o.res = ("D", 0)
                    self.waiting = True

    # -- cancelling -----------------------------------------------------------------------------
    def cancel(self, s):
        """cancel() on side s: None, or 'CERR' when the canceller's exception comes through"""
        if not s.called:
            if s.kind is None:
                s.kind = self.ikf()
            if s.kind == 0:
                s.suppress = True
            else:
                s.ncanc += 1
                if s.kind == 2:
                    self.fire(s, ("I", 77))
                elif s.kind == 3:
                    self.fire(s, ("F", 300))
                elif s.kind == 4:
                    return "CERR"
            if not s.called:
                self.fire(s, CANC)
            return None
        if s is self.o and self.waiting:
            return self.cancel(self.i)
        return None


class _World:
    def __init__(self, v, ck, ik):
        self.v = v
        self.ik = ik
        self.ikc = None
        self.ncanc = [0, 0]
        self.trace = []
        self.checked = 0
        self.d = Deferred(self.canceller(0, lambda: ck) if ck else None)
        self.d.addBoth(self.probe(-1))
        self.inner = None
        self.m = _M(ck, self.ikf)

    def ikf(self):
        if self.ikc is None:
            self.ikc = _c(self.ik, 0, 5)
        return self.ikc

    def canceller(self, which, kindf):
        def canc(d):
            self.ncanc[which] += 1
            k = kindf()
            if k == 2:
                d.callback(77)
            elif k == 3:
                d.errback(_Boom(300))
            elif k == 4:
                raise _CErr()
        return canc

    def get_inner(self):
        # the inner Deferred is built when first used; only then 'has a canceller at all?' is decided,
        # and which canceller it is only when that canceller is called
        if self.inner is None:
            has = not (self.ik <= 0) if self.ikc is None else self.ikc != 0
            if not has:
                self.ikc = 0
            self.inner = Deferred(self.canceller(1, self.ikf) if has else None)
        return self.inner

    def abs(self, x):
        if isinstance(x, Failure):
            if isinstance(x.value, CancelledError):
                return CANC
            return ("F", x.value.args[0])
        if x is None:
            return NONE
        if isinstance(x, Deferred):
            return ("D", 0 if x is self.inner else -1)
        return ("I", x)

    def probe(self, k):
        def p(arg):
            self.trace.append((k, self.abs(arg)))
            return arg
        return p

    def ret_inner(self, k):
        def r(arg):
            self.trace.append((k, self.abs(arg)))
            return self.get_inner()
        return r

    def step(self, i, op):
        m = self.m
        d = self.d
        # ---- model
        if op == 0:
            exp = m.fire(m.o, ("I", self.v + i))
        elif op == 1:
            exp = m.fire(m.o, ("F", i))
        elif op == 2:
            exp = m.cancel(m.o)
        elif op == 3:
            m.cbs.append(("R", i))
            m.cbs.append(("P", 100 + i))
            if m.o.called:
                m.run_outer()
            exp = None
        else:
            exp = m.fire(m.i, ("I", self.v + 100 + i))
        # ---- real
        got = None
        try:
            if op == 0:
                d.callback(self.v + i)
            elif op == 1:
                d.errback(_Boom(i))
            elif op == 2:
                d.cancel()
            elif op == 3:
                d.addCallback(self.ret_inner(i))
                d.addBoth(self.probe(100 + i))
            else:
                self.get_inner().callback(self.v + 100 + i)
        except AlreadyCalledError:
            got = "ACE"
        except _CErr:
            got = "CERR"
        if got != exp:
            return False
        return self.same()

    def same_side(self, d, s, final):
        if d.called != s.called or d._suppressAlreadyCalled != s.suppress:
            return False
        if d.called:
            a = self.abs(d.result)
            if a[0] != s.res[0]:
                return False
            if (final or a[0] != "I") and a[1] != s.res[1]:
                return False
        elif hasattr(d, "result"):
            return False
        return True

    def same(self, final=False):
        m = self.m
        if len(self.trace) != len(m.trace):
            return False
        for n in range(self.checked, len(self.trace)):
            x, y = self.trace[n], m.trace[n]
            if x[0] != y[0] or x[1][0] != y[1][0] or x[1][1] != y[1][1]:
                return False
        self.checked = len(self.trace)
        # one result, delivered exactly once: the first callback runs once iff d has fired
        n0 = 0
        ids = []
        for x in self.trace:
            if x[0] == -1:
                n0 += 1
            if x[0] in ids:
                return False
            ids.append(x[0])
        if n0 != (1 if self.d.called else 0):
            return False
        if not self.same_side(self.d, m.o, final):
            return False
        if self.d.paused != (1 if m.waiting else 0) or len(self.d.callbacks) != len(m.cbs):
            return False
        if self.ncanc[0] != m.o.ncanc or self.ncanc[1] != m.i.ncanc:
            return False
        if self.inner is not None:
            if not self.same_side(self.inner, m.i, final):
                return False
            if len(self.inner.callbacks) != (1 if m.waiting else 0) or self.inner.paused:
                return False
        elif m.i.called:
            return False
        return True

    def finish(self):
        for d in (self.d, self.inner):
            if d is not None:
                d.callbacks[:] = []
                d.addErrback(lambda f: None)
                if d._debugInfo is not None:
                    d._debugInfo.failResult = None


T8 = Tuple[int, int, int, int, int, int, int, int]


def _hist(n, ck, ik, v, ops):
    w = _World(v, ck, ik)
    try:
        for i in range(n):
            op = _c(ops[i], 0, 5)
            if not w.step(i, op):
                return False
        cover()
        return w.same(True)
    finally:
        w.finish()


def history(ck: int, ik: int, v: int, ops: T8) -> bool:
    """
    pre: 0 <= ck <= 4
    post: _
    """
    return _hist(B['n'], _c(ck, 0, 5), ik, v, ops)


def history_nocanc(ik: int, v: int, ops: T8) -> bool:
    """
    pre: True
    post: _
    """
    # longer histories for the canceller-less outer Deferred (the 'swallow one late result' rule)
    return _hist(B['n0'], 0, ik, v, ops)


def _bucket(k, c):
    if c == 0:
        return "ops[%d] < 1" % k
    if c == 4:
        return "ops[%d] >= 4" % k
    return "ops[%d] == %d" % (k, c)


def _split(sh, depth):
    for k in range(depth):
        sh = [x + (_bucket(k, c),) for x in sh for c in range(5)]
    return sh


HARNESSES = [
    H(history, shards=lambda tier: _split([("ck == %d" % ck,) for ck in range(5)], 1 if tier == "quick" else 2),
      timeout={"quick": 150, "thorough": 1200}),
    H(history_nocanc, shards=lambda tier: _split([()], 3), tiers=("thorough",), timeout={"thorough": 1200}),
]

VECTORS = {"history": [
    # no canceller: cancel, then exactly one late callback is swallowed, the next one raises
    (0, 0, 5, (2, 0, 0, 1, 2, 0, 0, 0)),
    # canceller fires the callback itself
    (2, 0, 5, (2, 0, 3, 4, 2, 0, 0, 0)),
    # waiting on inner: cancel is forwarded, inner (no canceller) errbacks CancelledError, late fire swallowed
    (1, 0, 5, (3, 0, 2, 4, 4, 0, 0, 0)),
    (1, 3, -2, (0, 3, 2, 2, 4, 0, 0, 0)),
    (4, 4, 0, (2, 2, 0, 3, 2, 0, 0, 0)),
]}
