"""C41 mail text codecs: SMTP xtext and IMAP4 modified UTF-7 round trips in RFC form.

Engine E2.  xtext_encode / xtext_decode (smtp.py) and encoder / decoder / modified_base64 /
modified_unbase64 (imap4.py) are recompiled from /repo's source onto LBytes.  The C helpers they
call realise symbolic text, so they are replaced, for the lifted world only, by pure-Python ports:
  f"+{o:02X}"                 -> lbytes.l_fval (fixed-radix digits, lift option fstrings=True)
  int(bytes, 16)              -> _l_int (two hex digits without a fork; else lbytes.l_int)
  str.encode('utf-16-be')     -> _utf16be_encode        binascii.b2a_base64 -> _b2a_base64_text
  bytes.decode('utf-7')       -> _utf7_decode (port of CPython's PyUnicode_DecodeUTF7Stateful)
  str.encode('utf-7')         -> _utf7_encode (port of _PyUnicode_EncodeUTF7; only the pre-fix
                                 modified_base64 calls it - kept so that the old code is refuted)
  memoryview(s).cast('c')     -> _cview;   set(...) of characters -> _CharSet (range tests)
Digit <-> character tables are single if-then-else terms (lbytes.pw_map), not forks.  Every port is
compared with the C original in selftest() on every run (all code points < 0x300, a BMP/astral
sample, all base64 digits, hex pairs, malformed utf-7 sequences).  In replay the real functions and
the real C codecs run.
"""
from vlib import api, lbytes, lift
from vlib.api import H, cover
from vlib.lift import b, t

if api.MODE == "sym":
    # z3's default arithmetic core (arith.solver=6) needs > 10 s for the final round-trip equality of an
    # astral character inside CrossHair's incremental solver; the classic simplex core decides the same
    # query in 10 ms (measured on the dumped query).  Performance setting only.
    import z3 as _z3
    _z3.set_param("smt.arith.solver", 2)

PROPERTY = "C41"
LEVEL = "model_checking"
ENCODED = ["twisted.mail.smtp:xtext_encode", "twisted.mail.smtp:xtext_decode",
           "twisted.mail.imap4:encoder", "twisted.mail.imap4:decoder",
           "twisted.mail.imap4:modified_base64", "twisted.mail.imap4:modified_unbase64"]
BOUNDS = {"quick": {"x": 3, "u": 2}, "thorough": {"x": 4, "u": 3}}
B = {}
BOUNDS_TEXT = ("utf7_run: runs of 29/30/57/58 non-ASCII characters (15 astral ones) in which the first, the 57-byte-"
               "boundary or the last character is symbolic (any character of that width class) and the others a "
               "concrete filler, optionally followed by one symbolic printable character (quick: runs of 29, 58 and "
               "15 astral with the symbolic character at the boundary).  corpus (concrete, real code, outside the exhaustive "
               "claim): runs of 1..300 characters.  "
               "xtext: every string of <= x code points < 256 (x=3 quick, 4 thorough).  IMAP modified UTF-7: "
               "every string of <= u code points (u=2 quick, 3 thorough) over all of Unicode except surrogates, "
               "case-split by character class (printable ASCII, '&', control/DEL, Latin-1, BMP, astral)")
OUTSIDE = ["longer strings (both codecs work character by character; the only cross-character state is the "
           "IMAP encoder's pending base64 run, whose bit alignment cycles with period 3 code units: runs of "
           "1, 2 and 3 BMP characters and of an astral pair are inside the bound)",
           "lone surrogates (not encodable to UTF-16)",
           "xtext_encode called directly with bytes (the registered codec interface passes str)",
           "decoding of byte strings that are not encoder output (only the round trip is claimed)"]
ASSUMPTIONS = ["the pure-Python ports of utf-16-be encoding, binascii.b2a_base64, the utf-7 codec and "
               "memoryview.cast('c') agree with CPython (differentially tested in selftest on every run, the "
               "count is in the evidence); LBytes/LBuf reproduce bytes/bytearray (lbytes.selftest)",
               "inside the decoder port the value of a base64 digit produced by the encoder port is taken from the "
               "term structure (B64VAL(B64CHAR(v)) = v if 0 <= v <= 63 else -1, also through the '/' <-> ',' "
               "substitutions): proved by z3 for all integers in selftest on every run",
               "z3 runs with smt.arith.solver=2 for this property (performance setting only)"]
EXPLANATION = ("lifted real codecs on symbolic text; C helpers replaced by validated arithmetic ports; "
               "character classes case-split into shards")


# ---- ports of the C helpers -----------------------------------------------------------------

_B64CHAR = [(0, 25, 1, 65), (26, 51, 1, 71), (52, 61, 1, -4), (62, 62, 0, 43), (63, 63, 0, 47)]
_B64VAL = [(65, 90, 1, -65), (97, 122, 1, -71), (48, 57, 1, 4), (43, 43, 0, 62), (47, 47, 0, 63)]
_MB64OK = [(65, 90, 0, 1), (97, 122, 0, 1), (48, 57, 0, 1), (43, 44, 0, 1)]
_HEXUOK = [(48, 57, 0, 1), (65, 70, 0, 1)]


def _b64char(v):
    """ASCII code of base64 digit v (0..63)"""
    return lbytes.pw_map(v, _B64CHAR, (0, 0))


# Structural inverse.  Every base64 digit character the encoder port produces is the term
# B64CHAR(v) of a digit value v.  The decoder port gets it back either unchanged or after the
# '/' -> ',' -> '/' substitutions of modified_base64 / modified_unbase64, and has to compute
# B64VAL(...) of it.  z3 needs ~40 s to see through six such nested case splits inside one query
# (astral round trip), so _b64val recognises these two term shapes and returns
# "v if 0 <= v <= 63 else -1" directly.  The equality of B64VAL(shape) with that term is proved by
# z3 for ALL integers v in selftest() on every run (and evaluated on every value), so the rewrite
# cannot change any result; it only removes redundant case splits.
_SLASH2COMMA = [(47, 47, 0, 44)]
_COMMA2SLASH = [(44, 44, 0, 47)]
_INV = {}


def _b64_shapes(zv):
    """the z3 terms (over digit value term zv) whose B64VAL is known"""
    zo = lbytes.pw_z3(zv, _B64CHAR, (0, 0))
    return [zo, lbytes.pw_z3(lbytes.pw_z3(zo, _SLASH2COMMA, (1, 0)), _COMMA2SLASH, (1, 0))]


def _b64_known(zv):
    import z3
    return z3.If(z3.And(zv >= 0, zv <= 63), zv, z3.IntVal(-1))


def _b64digit(v):
    """character of base64 digit v"""
    o = _b64char(v)
    if not lbytes._is_conc(o):
        from crosshair.tracers import NoTracing
        with NoTracing():
            for term in _b64_shapes(v.var):
                _INV[term.get_id()] = (term, v.var)
    return chr(o)


def _b64val(o):
    """value of the base64 digit with character code o, -1 when o is not a base64 digit"""
    if not lbytes._is_conc(o):
        from crosshair.libimpl.builtinslib import SymbolicInt
        from crosshair.tracers import NoTracing
        with NoTracing():
            ent = _INV.get(o.var.get_id()) if isinstance(o, SymbolicInt) else None
            if ent is not None and ent[0].eq(o.var):
                return SymbolicInt(_b64_known(ent[1]))
    return lbytes.pw_map(o, _B64VAL, (0, -1))


def _utf16be_units(text):
    """UTF-16 code units of text; surrogate code points raise as the C codec does"""
    units = []
    for i, ch in enumerate(text):
        cp = ord(ch)
        if cp >= 0x10000:
            cp -= 0x10000
            units.append(0xD800 + cp // 1024)
            units.append(0xDC00 + cp % 1024)
        elif 0xD800 <= cp <= 0xDFFF:
            raise UnicodeEncodeError("utf-16-be", "?", i, i + 1, "surrogates not allowed")
        else:
            units.append(cp)
    return units


def _utf16be_encode(text, errors="strict"):
    out = []
    for u in _utf16be_units(text):
        out.append(chr(u // 256))
        out.append(chr(u % 256))
    return "".join(out)


def _b2a_base64_text(data):
    """binascii.b2a_base64 over latin-1 text (returns text incl. padding and the trailing newline)"""
    out = []
    n = len(data)
    i = 0
    while i + 3 <= n:
        x, y, z = ord(data[i]), ord(data[i + 1]), ord(data[i + 2])
        out.append(_b64digit((x // 4)))
        out.append(_b64digit(((x % 4) * 16 + y // 16)))
        out.append(_b64digit(((y % 16) * 4 + z // 64)))
        out.append(_b64digit((z % 64)))
        i += 3
    if n - i == 1:
        x = ord(data[i])
        out.append(_b64digit((x // 4)))
        out.append(_b64digit(((x % 4) * 16)))
        out.append("==")
    elif n - i == 2:
        x, y = ord(data[i]), ord(data[i + 1])
        out.append(_b64digit((x // 4)))
        out.append(_b64digit(((x % 4) * 16 + y // 16)))
        out.append(_b64digit(((y % 16) * 4)))
        out.append("=")
    out.append("\n")
    return "".join(out)


def _encodebytes(data):
    """base64.encodebytes (MIME: one b2a_base64 line per 57 input bytes) over LBytes"""
    text = lbytes._s(data)
    return lbytes.LBytes("".join([_b2a_base64_text(text[i:i + 57]) for i in range(0, len(text), 57)]))


class _binascii:
    """stands for the module `binascii` inside the lifted imap4 functions"""
    @staticmethod
    def b2a_base64(data):
        return lbytes.LBytes(_b2a_base64_text(lbytes._s(data)))


# character classes of CPython's utf-7 encoder (Objects/unicodeobject.c utf7_category):
# 0 direct, 1 set O, 2 whitespace, 3 special ('+' and everything else incl. '\\', '~', controls)
_U7_DIRECT = "ABCDEFGHIJKLMNOPQRSTUVWXYZabcdefghijklmnopqrstuvwxyz0123456789'(),-./:?"
_U7_SETO = "!\"#$%&*;<=>@[]^_`{|}"
_U7_WS = " \t\r\n"
_U7_NOSHIFT = _U7_DIRECT + _U7_SETO + _U7_WS      # encoded as themselves (optional set is direct, as in CPython)
_B64 = "ABCDEFGHIJKLMNOPQRSTUVWXYZabcdefghijklmnopqrstuvwxyz0123456789+/"


def _utf7_encode(text, errors="strict"):
    """port of _PyUnicode_EncodeUTF7(base64SetO=0, base64WhiteSpace=0)"""
    out = []
    inshift = False
    bits = 0          # number of pending bits
    buf = 0           # their value
    for i, ch in enumerate(text):
        cp = ord(ch)
        if inshift:
            if cp < 128 and lbytes._char_in(ch, _U7_NOSHIFT):
                # shifting out
                if bits:
                    out.append(_b64digit((buf * (2 ** (6 - bits)))))
                    buf = 0
                    bits = 0
                inshift = False
                # characters that are base64 digits or '-' need an explicit '-'
                if lbytes._char_in(ch, _B64) or ch == "-":
                    out.append("-")
                out.append(ch)
                continue
        else:
            if ch == "+":
                out.append("+-")
                continue
            if cp < 128 and lbytes._char_in(ch, _U7_NOSHIFT):
                out.append(ch)
                continue
            out.append("+")
            inshift = True
        if 0xD800 <= cp <= 0xDFFF:
            units = [cp]       # CPython's utf-7 encoder passes lone surrogates through
        elif cp >= 0x10000:
            units = [0xD800 + (cp - 0x10000) // 1024, 0xDC00 + (cp - 0x10000) % 1024]
        else:
            units = [cp]
        for u in units:
            buf = buf * 65536 + u
            bits += 16
            while bits >= 6:
                bits -= 6
                out.append(_b64digit((buf // (2 ** bits))))
                buf = buf % (2 ** bits)
    if bits:
        out.append(_b64digit((buf * (2 ** (6 - bits)))))
    if inshift:
        out.append("-")
    return "".join(out)


def _u7err(a, z, msg):
    return UnicodeDecodeError("utf-7", b"?", a, z, msg)


def _utf7_decode(data, errors="strict"):
    """port of PyUnicode_DecodeUTF7Stateful(final, errors='strict') over latin-1 text"""
    out = []
    inshift = False
    bits = 0
    buf = 0
    surrogate = 0
    start = 0
    n = len(data)
    i = 0
    while i < n:
        ch = data[i]
        o = ord(ch)
        if inshift:
            v = _b64val(o)
            if v >= 0:
                buf = buf * 64 + v
                bits += 6
                i += 1
                if bits >= 16:
                    bits -= 16
                    unit = buf // (2 ** bits)
                    buf = buf % (2 ** bits)
                    if surrogate:
                        if 0xDC00 <= unit <= 0xDFFF:
                            out.append(chr(0x10000 + (surrogate - 0xD800) * 1024 + (unit - 0xDC00)))
                            surrogate = 0
                            continue
                        out.append(chr(surrogate))
                        surrogate = 0
                    if 0xD800 <= unit <= 0xDBFF:
                        surrogate = unit
                    else:
                        out.append(chr(unit))
            else:
                inshift = False
                if bits > 0:
                    if bits >= 6:
                        raise _u7err(start, i + 1, "partial character in shift sequence")
                    if buf != 0:
                        raise _u7err(start, i + 1, "non-zero padding bits in shift sequence")
                if surrogate and o <= 127 and ch != "+":
                    out.append(chr(surrogate))
                surrogate = 0
                if ch == "-":
                    i += 1      # '-' is absorbed, any other terminator is processed again
        elif ch == "+":
            start = i
            i += 1
            if i < n and data[i] == "-":
                i += 1
                out.append("+")
            elif i < n and _b64val(ord(data[i])) < 0:
                raise _u7err(start, i + 1, "ill-formed sequence")
            else:
                inshift = True
                surrogate = 0
                bits = 0
                buf = 0
        elif o <= 127:
            out.append(ch)
            i += 1
        else:
            raise _u7err(i, i + 1, "unexpected special character")
    if inshift:
        if surrogate or bits >= 6 or (bits > 0 and buf != 0):
            raise _u7err(start, n, "unterminated shift sequence")
    return "".join(out)


class _CharSet:
    """stands for `set` inside the lifted encoder: a set of single characters whose membership test
    is a few range comparisons (hashing a symbolic character would realise it)"""

    def __init__(self, items=()):
        self.text = "".join(sorted(items))

    def __sub__(self, other):
        return _CharSet([c for c in self.text if c not in other])

    def __contains__(self, c):
        return lbytes._char_in(c, self.text)

    def __len__(self):
        return len(self.text)


def _cview(mv, fmt):
    """memoryview(s).cast('c'): a sequence of length-1 bytes objects"""
    return [lbytes.LBytes(ch) for ch in lbytes._s(mv)]


lbytes.CODECS["utf-7"] = (_utf7_encode, _utf7_decode)
lbytes.CODECS["utf-16-be"] = (_utf16be_encode, None)

_HEXVAL = [(48, 57, 1, -48), (65, 70, 1, -55), (97, 102, 1, -87)]


def _l_int(x=0, base=None):
    """the call int(...) inside the lifted xtext_decode: two hexadecimal digits are converted by one
    if-then-else term per digit (lbytes.l_int forks three ways per digit); everything else, including
    every malformed input, goes to lbytes.l_int"""
    if base == 16 and isinstance(x, lbytes._LBase) and not lbytes._is_conc(x.s) and lbytes._len_conc(x.s) \
            and len(x.s) == 2:
        hi = lbytes.pw_map(ord(x.s[0]), _HEXVAL, (0, -1))
        lo = lbytes.pw_map(ord(x.s[1]), _HEXVAL, (0, -1))
        if hi >= 0 and lo >= 0:
            return hi * 16 + lo
    return lbytes.l_int(x, base)


_C = lift.lift("twisted.python.compat", names=["networkString"], encode_calls=True)
S = lift.lift("twisted.mail.smtp", names=["xtext_encode", "xtext_decode"], fstrings=True,
              overrides={"networkString": _C.networkString}, extra_shims={"_vl_int": _l_int})
I = lift.lift("twisted.mail.imap4", names=["modified_base64", "modified_unbase64", "encoder", "decoder"],
              encode_calls=True, overrides={"binascii": _binascii, "memory_cast": _cview,
                                            "encodebytes": _encodebytes},
              extra_shims={"set": _CharSet})
from twisted.mail import imap4 as _RI, smtp as _RS  # noqa: E402  (the real modules, for the degraded mode)

# ---- degraded mode ---------------------------------------------------------------------------------
# The lifted functions can only run helpers that have a port above.  If the code under test calls
# anything else on its data (a C function given an LBytes raises TypeError / AttributeError), the
# harness does not give up with a harness error: it makes the input concrete (CrossHair realises it;
# other values are tried on later paths) and evaluates the SAME property on the REAL functions.  The
# verdict for that input then comes from the real code; exhaustiveness is lost and reported
# (DEGRADED is copied into the evidence assumptions, the affected shards end inconclusive).
_FOREIGN = (TypeError, AttributeError, NotImplementedError)
DEGRADED = []


def _concrete(x):
    import sys
    if "crosshair" in sys.modules:
        from crosshair.core import deep_realize
        from crosshair.tracers import NoTracing
        with NoTracing():
            return deep_realize(x)
    return x


def _untraced(fn, *args):
    """run fn on concrete arguments outside CrossHair's tracing (the real C helpers must see the
    real builtins)"""
    import sys
    if "crosshair" in sys.modules:
        from crosshair.tracers import NoTracing
        with NoTracing():
            return fn(*args)
    return fn(*args)


def _note_degraded(what, exc):
    msg = "DEGRADED: lifted %s raised %s: %s - evaluated on the real code with concrete inputs" % (
        what, type(exc).__name__, str(exc)[:120])
    if msg not in DEGRADED:
        DEGRADED.append(msg)
        ASSUMPTIONS.append(msg)


def _probe():
    """run the lifted functions once on concrete samples (short, long, astral) at import"""
    if I.__real__:
        return
    for sample in ("a&b", "\xe9\n", "\u4e2d" * 30, "\U0001f600" * 15 + "x"):
        try:
            I.decoder(I.encoder(sample)[0])
        except _FOREIGN as e:
            _note_degraded("imap4 codec", e)
            break
        except Exception:
            pass
    try:
        S.xtext_decode(S.xtext_encode("a+=\xff\x00")[0])
    except _FOREIGN as e:
        _note_degraded("xtext codec", e)
    except Exception:
        pass

_HEXU = "0123456789ABCDEF"
_MB64 = "ABCDEFGHIJKLMNOPQRSTUVWXYZabcdefghijklmnopqrstuvwxyz0123456789+,"


# ---- xtext -------------------------------------------------------------------------------------

def _xtext_form(enc):
    """RFC 3461 section 4: xtext = *( xchar / hexchar ); xchar = %d33-42 / %d44-60 / %d62-126;
    hexchar = "+" 2(%d48-57 / %d65-70)"""
    n = len(enc)
    i = 0
    while i < n:
        c = enc[i]
        if c == "+":
            if i + 2 >= n:
                return False
            if lbytes.pw_map(ord(enc[i + 1]), _HEXUOK, (0, 0)) + lbytes.pw_map(ord(enc[i + 2]), _HEXUOK, (0, 0)) != 2:
                return False
            i += 3
        else:
            o = ord(c)
            if not (33 <= o <= 126) or c == "=":
                return False
            i += 1
    return True


def _xtext_prop(encode, decode, s):
    enc, used = encode(s)
    e = t(enc)
    dec, used2 = decode(enc)
    api.obs((e, used, dec, used2))
    cover()
    if not _xtext_form(e):
        return False
    if used != len(s) or used2 != len(e):
        return False
    return dec == s


def xtext(s: str) -> bool:
    """
    pre: len(s) <= B['x']
    pre: all(ord(c) < 256 for c in s)
    post: _
    """
    if not any(d.startswith("DEGRADED: lifted xtext") for d in DEGRADED):
        try:
            return _xtext_prop(S.xtext_encode, S.xtext_decode, s)
        except _FOREIGN as e:
            if S.__real__:
                raise
            _note_degraded("xtext codec", e)
    return _untraced(_xtext_prop, _RS.xtext_encode, _RS.xtext_decode, _concrete(s))


# ---- IMAP4 modified UTF-7 ------------------------------------------------------------------------

def _mutf7_form(enc):
    """RFC 3501 5.1.3: printable US-ASCII only; '&' only as '&-' or opening a run of modified-base64
    digits (',' for '/', no '=') that is closed by '-'; no base64 run directly after another"""
    n = len(enc)
    for c in enc:
        if not (0x20 <= ord(c) <= 0x7E):
            return False
    i = 0
    after_run = False
    while i < n:
        if enc[i] != "&":
            i += 1
            after_run = False
            continue
        j = i + 1
        if j < n and enc[j] == "-":
            i = j + 1
            after_run = False
            continue
        if after_run:
            return False
        k = j
        while k < n and enc[k] != "-":
            if lbytes.pw_map(ord(enc[k]), _MB64OK, (0, 0)) != 1:
                return False
            k += 1
        if k >= n or k == j:
            return False
        if (k - j) % 4 == 1:
            return False      # not a whole number of octets
        i = k + 1
        after_run = True
    return True


def _utf7_prop(encoder, decoder, s):
    enc, used = encoder(s)
    e = t(enc)
    api.obs((e, used))
    cover()
    if not _mutf7_form(e):
        return False
    if used != len(s):
        return False
    dec, used2 = decoder(enc)
    api.obs((dec, used2))
    return dec == s and used2 == len(e)


def _utf7(s):
    if not any(d.startswith("DEGRADED: lifted imap4") for d in DEGRADED):
        try:
            return _utf7_prop(I.encoder, I.decoder, s)
        except _FOREIGN as e:
            if I.__real__:
                raise
            _note_degraded("imap4 codec", e)
    return _untraced(_utf7_prop, _RI.encoder, _RI.decoder, _concrete(s))


def utf7(s: str) -> bool:
    """
    pre: 1 <= len(s) <= B['u']
    pre: all(not (0xD800 <= ord(c) <= 0xDFFF) for c in s)
    post: _
    """
    return _utf7(s)


_RUNS = [29, 30, 57, 58]


def utf7_run(c: str, nsel: int, psel: int, tail: str) -> bool:
    """
    pre: len(c) == 1 and ord(c) >= 0x80 and not (0xD800 <= ord(c) <= 0xDFFF)
    pre: 0 <= nsel <= len(_RUNS) and 0 <= psel <= 2 and len(tail) <= 1
    pre: all(0x20 <= ord(x) <= 0x7e for x in tail)
    post: _
    """
    # long base64 runs (they cross the 57-byte / 76-character line length of MIME base64): 29 / 30 /
    # 57 / 58 non-ASCII characters, or 15 astral ones.  One character of the run - the first, the one
    # at the 57-byte boundary or the last - is symbolic (any character of its UTF-16 width class), the
    # others are a concrete filler of the same class; optionally one symbolic printable character
    # follows.  (A run of one symbolic character repeated 29 times was measured at 495 CPU s per
    # shard; the real-code corpus below covers uniform runs concretely.)
    k = 0
    for i in range(len(_RUNS) + 1):
        if nsel == i:
            k = i
    p = 0
    for i in range(3):
        if psel == i:
            p = i
    o = ord(c)
    if k == len(_RUNS):
        if o < 0x10000:
            return True
        n, filler, mid = 15, "\U0001f600", 14
    else:
        if o >= 0x10000:
            return True
        n, mid = _RUNS[k], 28
        filler = "\xe9" if o < 0x100 else "\u4e2d"
    pos = [0, mid, n - 1][p]
    s = filler * pos + "".join([c[0]]) + filler * (n - 1 - pos)
    if len(tail) == 1:
        s = s + "".join([tail[0]])
    return _utf7(s)


_CLASSES = {
    "P": "0x20 <= ord(s[%d]) <= 0x7e and s[%d] != '&'",
    "A": "s[%d] == '&'",
    "C": "ord(s[%d]) < 0x20 or ord(s[%d]) == 0x7f",
    "L": "0x80 <= ord(s[%d]) <= 0xff",
    "B": "0x100 <= ord(s[%d]) <= 0xffff",
    "S": "ord(s[%d]) >= 0x10000",
}


def _utf7_shards(tier):
    """case split: length x classes of all characters but the last, which ranges over all classes
    inside the shard"""
    out = []
    for n in range(1, BOUNDS[tier]["u"] + 1):
        fixed = n - 1
        prefixes = [""]
        for _ in range(fixed):
            prefixes = [p + c for p in prefixes for c in "PACLBS"]
        for pre in prefixes:
            out.append(tuple(["len(s) == %d" % n] +
                             [_CLASSES[c].replace("%d", str(i)) for i, c in enumerate(pre)]))
    return out


def _corpus():
    runs = []
    for ch in ("\xe9", "\u4e2d", "\u20ac", "\x01", "\n"):
        for n in (1, 14, 15, 19, 20, 28, 29, 30, 38, 39, 57, 58, 59, 100, 115, 300):
            runs.append(ch * n)
            runs.append("a" + ch * n + "&")
    for n in (1, 7, 14, 15, 16, 29, 30, 100):
        runs.append("\U0001f600" * n)
        runs.append("\U0010ffff" * n + "-")
    runs += ["\xe9a" * 40, "&" * 100, "x" * 1000, "~peter/mail/\u65e5\u672c\u8a9e/\u53f0\u5317" * 9,
             "".join(chr(0x100 + i) for i in range(200)), "".join(chr(i) for i in range(0x80)) * 2]
    xs = ["+" * 100, "=" * 77, "".join(chr(i) for i in range(256)), "a" * 1000, "\xff" * 58, " \t\r\n" * 30]
    return runs, xs


def corpus(tier):
    """long concrete inputs, evaluated on the REAL functions (real bytes, real C codecs): lengths far
    beyond the symbolic bound, chosen around the line lengths of MIME base64 (57 bytes / 76
    characters) and typical buffer sizes.  Not part of the bounded-exhaustive claim; a failure is
    handed to the replay path like any counterexample."""
    runs, xs = _corpus()
    n = 0
    for s in runs:
        n += 1
        try:
            ok = _utf7_prop(_RI.encoder, _RI.decoder, s)
        except Exception:
            ok = False
        if not ok:
            return {"status": "refuted", "obligations": len(runs) + len(xs), "discharged": n - 1, "queries": 0,
                    "solver_time_s": 0.0, "samples": [], "cex": {"s": s}, "replay_harness": "utf7"}
    for s in xs:
        n += 1
        try:
            ok = _xtext_prop(_RS.xtext_encode, _RS.xtext_decode, s)
        except Exception:
            ok = False
        if not ok:
            return {"status": "refuted", "obligations": len(runs) + len(xs), "discharged": n - 1, "queries": 0,
                    "solver_time_s": 0.0, "samples": [], "cex": {"s": s}, "replay_harness": "xtext"}
    return {"status": "confirmed", "obligations": n, "discharged": n, "queries": 0, "solver_time_s": 0.0,
            "samples": [{"len": len(runs[k]), "head": runs[k][:2]} for k in (5, 22, 170)]}


CUSTOM = [corpus]

HARNESSES = [
    H(utf7_run, shards=lambda tier: ([("nsel == %d" % i, "psel == 1") for i in (0, 3, 4)] if tier == "quick" else
                                     [("nsel == %d" % i, "psel == %d" % q) for i in range(len(_RUNS) + 1) for q in range(3)]),
      timeout={"quick": 100, "thorough": 600}),
    H(xtext, shards=lambda tier: [("len(s) == %d" % k,) for k in range(0, BOUNDS[tier]["x"] + 1)],
      timeout={"quick": 90, "thorough": 900}),
    H(utf7, shards=_utf7_shards, timeout={"quick": 90, "thorough": 900}),
]

VECTORS = {
    "utf7_run": [("\xe9", 0, 0, ""), ("\u4e2d", 1, 1, "a"), ("\u20ac", 2, 2, "-"), ("\xff", 3, 1, "&"),
                 ("\U0001f600", 4, 0, ""), ("\U0010ffff", 4, 2, "z"), ("\x80", 3, 2, "")],
    "xtext": [("",), ("abc",), ("a+b=c",), (" \x00\xff",), ("+",), ("~!",), ("\x7f\x80",)],
    "utf7": [("Hello",), ("&",), ("a&b",), ("\n",), ("\t\r",), ("\xe9\n",), ("日本語",),
             ("~peter/mail/日本語/台北",), ("\U0001f600",), ("\x00&\x00",), ("a€b",),
             ("\U0010ffff￿",), ("\x7f",), ("-&-",), ("Hello world",), ("\xe4\xf6\xfc",)],
}


def selftest():
    """ports vs. the C originals"""
    import binascii
    n = lbytes.selftest()
    # base64 digit arithmetic
    for v in range(64):
        assert chr(_b64char(v)) == _B64[v], v
        assert _b64val(ord(_B64[v])) == v, v
        n += 2
    import z3
    zv = z3.Int("v")
    zc, zo = lbytes.pw_z3(zv, _B64CHAR, (0, 0)), lbytes.pw_z3(zv, _B64VAL, (0, -1))
    for shape in _b64_shapes(zv):
        f = lbytes.pw_z3(shape, _B64VAL, (0, -1)) == _b64_known(zv)
        sol = z3.Solver()
        sol.add(z3.Not(f))
        assert sol.check() == z3.unsat, f
        for x in range(-3, 70):
            assert z3.is_true(z3.simplify(z3.substitute(f, (zv, z3.IntVal(x))))), x
        n += 74
    for o in range(-2, 300):
        want = _B64.index(chr(o)) if 0 <= o < 256 and chr(o) in _B64 else -1
        assert _b64val(o) == want, o
        assert z3.simplify(z3.substitute(zo, (zv, z3.IntVal(o)))).as_long() == want, o
        if 0 <= o < 64:
            assert z3.simplify(z3.substitute(zc, (zv, z3.IntVal(o)))).as_long() == ord(_B64[o]), o
        n += 2
    # utf-16-be, b2a_base64 and the utf-7 codec on every code point < 0x300 and a BMP/astral sample
    cps = list(range(0x300)) + list(range(0x300, 0xD800, 0x3B)) + [0xD7FF, 0xE000, 0xFFFD, 0xFFFE, 0xFFFF] + \
        list(range(0xE000, 0x10000, 0x1F3)) + [0x10000, 0x10001, 0x103FF, 0x10400, 0x1F600, 0xFFFFF, 0x100000,
                                               0x10FFFE, 0x10FFFF] + list(range(0x10000, 0x110000, 0x2F1B))
    texts = [chr(c) for c in cps]
    texts += [chr(c) + x for c in cps[::7] for x in ("a", "-", "\n", "\xe9", "€", "\U0001f600", "+", "&")]
    texts += [x + chr(c) for c in cps[::11] for x in ("a", "\x01", "€", "\U0001f600", "+")]
    texts += ["a€b€€c", "€€€€", "\x01\x02\x03\x04\x05", "+-+", "A+B-C", ""]
    for x in texts:
        w16 = x.encode("utf-16-be")
        assert _utf16be_encode(x).encode("latin-1") == w16, x
        assert _b2a_base64_text(w16.decode("latin-1")).encode("latin-1") == binascii.b2a_base64(w16), x
        w7 = x.encode("utf-7")
        assert _utf7_encode(x).encode("latin-1") == w7, (x, _utf7_encode(x), w7)
        assert _utf7_decode(w7.decode("latin-1")) == x, x
        n += 4
    for k in range(0, 7):
        for raw in (bytes(range(k)), b"\xff" * k, b"\xfb\xef\xbe"[:k]):
            assert _b2a_base64_text(raw.decode("latin-1")).encode("latin-1") == binascii.b2a_base64(raw)
            n += 1
    for c in (0xD800, 0xDBFF, 0xDC00, 0xDFFF):
        try:
            _utf16be_encode(chr(c))
            raise AssertionError("surrogate accepted")
        except UnicodeEncodeError:
            n += 1
        assert _utf7_encode("a" + chr(c)).encode("latin-1") == ("a" + chr(c)).encode("utf-7")
    # utf-7 decoding of arbitrary (also malformed) '+..-' sequences, as modified_unbase64 builds them
    alpha = ["A", "Q", "g", "w", "/", "+", "-", "a", "\n", "~", "\\", "=", "\xe9", "8", "2", "D", "Y", "\x00"]
    cases = [a + c for a in alpha for c in alpha] + [a + c + d for a in alpha[:8] for c in alpha for d in alpha[:8]]
    cases += ["AAE", "AOk", "2D3eAA", "2D3e", "2D0", "3gA", "2D3eAQ", "IKw", "IKwA", "IKwgrA", "AGEAYgBj", "AGE-b",
              "", "A", "AA", "AAA", "AAAA", "AAB", "AAEA"]
    for body in cases:
        raw = ("+" + body + "-").encode("latin-1")
        try:
            want = raw.decode("utf-7")
        except UnicodeDecodeError:
            want = "ERR"
        try:
            got = _utf7_decode(raw.decode("latin-1"))
        except UnicodeDecodeError:
            got = "ERR"
        assert want == got, (raw, want, got)
        n += 1
    for a in "09afAFgG/:@`+- _\x00\xff":
        for c in "09afAFgG/:@`+- _\x00\xff":
            try:
                want = int((a + c).encode("latin-1"), 16)
            except ValueError:
                want = "ValueError"
            try:
                got = _l_int(lbytes.LBytes(a + c), 16)
                hi, lo = lbytes.pw_map(ord(a), _HEXVAL, (0, -1)), lbytes.pw_map(ord(c), _HEXVAL, (0, -1))
                if hi >= 0 and lo >= 0:
                    assert hi * 16 + lo == want, (a, c)
            except ValueError:
                got = "ValueError"
            if "_" not in a + c:
                assert want == got, (a, c, want, got)
            n += 1
    import base64
    for k in (0, 1, 56, 57, 58, 59, 113, 114, 115, 200):
        raw = bytes((i * 7 + k) % 256 for i in range(k))
        assert bytes(_encodebytes(lbytes.LBytes(raw))) == base64.encodebytes(raw), k
        n += 1
    assert [bytes(x) for x in _cview(b"a&-", "c")] == list(memoryview(b"a&-").cast("c"))
    cs = _CharSet(map(chr, range(0x20, 0x7F))) - {"&"}
    real = set(map(chr, range(0x20, 0x7F))) - {"&"}
    for o in range(0x300):
        assert (chr(o) in cs) == (chr(o) in real)
        n += 1
    return n


_probe()
