"""C46 endpoint description quoting: quoteStringArgument(text) placed as a positional argument or a
keyword value of a strports description is parsed back by _parse to exactly that text there.

Engine E1 (native symbolic `str`) on the real quoteStringArgument / _tokenize / _parse, plus the
bytes form of the description through the E2 lift of _tokenize / _parse.
"""
from vlib import api, lbytes, lift
from vlib.api import H, cover
from vlib.lift import b, t

from twisted.internet import endpoints as _ep
from twisted.python.compat import nativeString as _real_native

PROPERTY = "C46"
LEVEL = "model_checking"
ENCODED = ["twisted.internet.endpoints:quoteStringArgument", "twisted.internet.endpoints:_tokenize",
           "twisted.internet.endpoints:_parse"]
BOUNDS = {"quick": {"n": 4, "m": 3, "nb": 3}, "thorough": {"n": 6, "m": 5, "nb": 5}}
B = {}
BOUNDS_TEXT = ("text of <= n arbitrary code points (str descriptions) / <= nb bytes 0..255 (bytes descriptions); "
               "positions: 2nd positional argument; keyword value; positional + keyword + positional in one "
               "description with two texts of total length <= m")
OUTSIDE = ["texts longer than n characters",
           "the endpoint constructors behind the parsed arguments (serverFromString/clientFromString plugins, "
           "int()/bool coercions of specific arguments)",
           "quoting of keyword *names* (quoteStringArgument is documented for argument values)"]
ASSUMPTIONS = ["bytes descriptions: LBytes reproduces bytes semantics for the operations used by _tokenize/_parse "
               "(vlib.lbytes.selftest + the vectors below run through both worlds)"]
EXPLANATION = ("real quoteStringArgument + _parse on symbolic text in each argument position; result compared "
               "with the text itself")


def _native(s):
    # twisted.python.compat.nativeString for the lifted world (isinstance(x, bytes) there means LBytes)
    if isinstance(s, lbytes.LBytes):
        return s.decode("ascii")
    return _real_native(s)


L = lift.lift("twisted.internet.endpoints", names=["_tokenize", "_parse"], overrides={"nativeString": _native})


def positional(text: str) -> bool:
    """
    pre: len(text) <= B['n']
    post: _
    """
    desc = "tcp:" + _ep.quoteStringArgument(text)
    args, kw = _ep._parse(desc)
    cover()
    return len(args) == 2 and args[0] == "tcp" and args[1] == text and len(kw) == 0


def keyword(text: str) -> bool:
    """
    pre: len(text) <= B['n']
    post: _
    """
    desc = "tcp:k=" + _ep.quoteStringArgument(text)
    args, kw = _ep._parse(desc)
    cover()
    return len(args) == 1 and args[0] == "tcp" and len(kw) == 1 and kw["k"] == text


def both(text: str, text2: str) -> bool:
    """
    pre: len(text) + len(text2) <= B['m']
    post: _
    """
    # positional, keyword, then another positional: the tokenizer's operator state must be back to
    # "':' or '='" after the keyword value
    q = _ep.quoteStringArgument
    desc = "tcp:" + q(text) + ":k=" + q(text2) + ":" + q(text)
    args, kw = _ep._parse(desc)
    cover()
    return (len(args) == 3 and args[0] == "tcp" and args[1] == text and args[2] == text and len(kw) == 1
            and kw["k"] == text2)


def bytes_desc(text: str, kwpos: bool) -> bool:
    """
    pre: len(text) <= B['nb'] and all(ord(c) < 256 for c in text)
    post: _
    """
    # a bytes description (serverFromString accepts them): the quoting is the same character-wise
    # map; the real quoteStringArgument is applied to the latin-1 text view of the bytes
    q = _ep.quoteStringArgument(text)
    if kwpos:
        args, kw = L._parse(b("tcp:k=" + q))
        cover()
        api.obs((lift.tl(args), [(k, t(v)) for k, v in kw.items()]))
        return len(args) == 1 and t(args[0]) == "tcp" and len(kw) == 1 and t(kw["k"]) == text
    args, kw = L._parse(b("tcp:" + q))
    cover()
    api.obs((lift.tl(args), [(k, t(v)) for k, v in kw.items()]))
    return len(args) == 2 and t(args[0]) == "tcp" and t(args[1]) == text and len(kw) == 0


def _len_shards(name, key):
    return lambda tier: [("len(%s) == %d" % (name, i),) for i in range(0, BOUNDS[tier][key] + 1)]


HARNESSES = [
    H(positional, shards=_len_shards("text", "n"), timeout={"quick": 60, "thorough": 900}),
    H(keyword, shards=_len_shards("text", "n"), timeout={"quick": 60, "thorough": 900}),
    H(both, shards=lambda tier: [("len(text) == %d" % i, "len(text2) == %d" % j)
                                 for i in range(0, BOUNDS[tier]["m"] + 1)
                                 for j in range(0, BOUNDS[tier]["m"] + 1 - i)],
      timeout={"quick": 60, "thorough": 900}),
    H(bytes_desc, shards=lambda tier: [("len(text) == %d" % i, "kwpos == %s" % k)
                                       for i in range(0, BOUNDS[tier]["nb"] + 1) for k in (True, False)],
      timeout={"quick": 60, "thorough": 900}),
]

VECTORS = {
    "positional": [("",), ("a",), (":",), ("=",), ("\\",), ("\\:=",), ("a=b",), ("C:\\x",), ("\u00e9:\u20ac",)],
    "keyword": [("",), ("=",), (":",), ("\\",), ("/tmp/a:b=c",)],
    "both": [("=", ":"), ("\\", "="), ("a", "")],
    "bytes_desc": [("a:b", True), ("=", False), ("\\\xff", False), ("\x00=", True), ("", False)],
}


def selftest():
    return lbytes.selftest()
