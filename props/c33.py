"""C33 decoding arbitrary bytes as a DNS message is total and terminates (twisted.names.dns).

Engine E2 (same whole-module lift as C32, see props/c32.py): Message.fromStr runs on symbolic bytes.
Termination is decided with a step budget on readPrecisely (every iteration of every decoding loop,
including the compression-pointer loop of Name.decode, calls it): exceeding the budget is a violation.
`visited` in Name.decode is a comparing set (SymSet) and seek/read turn symbolic offsets / counts into one
path per position, so a pointer cycle is found by z3, not by luck.
The set of tolerated exceptions is read from the handlers around `m.fromStr(data)` in
DNSDatagramProtocol.datagramReceived in /repo's current source (everything before the catch-all).
"""
import ast
import builtins
import inspect
import textwrap

from vlib import api, lbytes
from vlib.api import H, cover
from vlib.lift import b, t

from props import c32

PROPERTY = "C33"
LEVEL = "model_checking"
ENCODED = ["twisted.names.dns:" + n for n in (
    "Message.fromStr", "Message.decode", "Message.parseRecords", "Message.lookupRecordType", "Name.decode",
    "Query.decode", "RRHeader.decode", "readPrecisely", "Charstr.decode", "SimpleRecord.decode", "Record_A.decode",
    "Record_SOA.decode", "Record_NULL.decode", "Record_WKS.decode", "Record_AAAA.decode", "Record_A6.decode",
    "Record_SRV.decode", "Record_NAPTR.decode", "Record_AFSDB.decode", "Record_RP.decode", "Record_HINFO.decode",
    "Record_MINFO.decode", "Record_MX.decode", "Record_SSHFP.decode", "Record_TXT.decode", "UnknownRecord.decode",
    "Record_TSIG.decode", "DNSDatagramProtocol.datagramReceived", "DNSProtocol.dataReceived")]
BOUNDS = {"quick": {"body": 4, "rd": 1, "lp": 9}, "thorough": {"body": 6, "rd": 3, "lp": 12}}
B = {}
BOUNDS_TEXT = ("every message of 0, 7, 11 bytes and of 12 + k bytes with the four section counts 0..2 and all k body "
               "bytes fully symbolic: k <= 1 (quick) / 2 (thorough) with id and flag bytes fully symbolic, k = 2 / 3 "
               "with the id bytes symbolic, k <= body with a fixed id/flags pattern; plus one "
               "answer record at the root name with fully symbolic type (0..255), rdlength low byte and <= rd "
               "symbolic rdata bytes (reaches every Record_*.decode); plus, for each of the 27 record classes, a valid "
               "message (query, answer, authority copy with compression) from the real encoder cut at every position")
OUTSIDE = ["more than `body` bytes after the header / section counts above 2 (the loops are the same; longer inputs "
           "only add iterations)", "record payloads longer than `rd` bytes and record types above 255",
           "what the protocols do with the decoded message (controller callbacks)",
           "the wall-clock cost of one step (the budget counts loop iterations, not seconds)"]
ASSUMPTIONS = c32.ASSUMPTIONS + ["every loop of the decoder calls readPrecisely at least once per iteration (true of "
                                 "Name.decode, Message.decode, parseRecords, Record_TXT.decode: checked by the mutant "
                                 "that removes the visited-offset test, which is refuted through the budget)"]
EXPLANATION = ("lifted Message.fromStr on symbolic bytes; step budget on readPrecisely; allowed exception set "
               "read from datagramReceived")


class StepBudgetExceeded(Exception):
    pass


_STEPS = [0, 0]     # [used, budget]


def _counting(orig):
    def readPrecisely(file, l):
        _STEPS[0] += 1
        if _STEPS[0] > _STEPS[1]:
            raise StepBudgetExceeded("more than %d calls of readPrecisely" % _STEPS[1])
        return orig(file, l)
    return readPrecisely


L = c32.lift_dns()
if L.__real__:
    from twisted.names import dns as _real_dns
    if not getattr(_real_dns.readPrecisely, "_c33", False):
        _w = _counting(_real_dns.readPrecisely)
        _w._c33 = True
        _real_dns.readPrecisely = _w
else:
    L.__ns__["readPrecisely"] = _counting(L.__ns__["readPrecisely"])


def _allowed_from_source():
    """exception classes the datagram protocol treats as 'malformed packet': the handlers of the try
    statement around m.fromStr(data), up to (not including) the catch-all"""
    from twisted.names import dns
    src = textwrap.dedent(inspect.getsource(dns.DNSDatagramProtocol.datagramReceived))
    fn = ast.parse(src).body[0]
    for node in ast.walk(fn):
        if isinstance(node, ast.Try) and "fromStr" in ast.dump(ast.Module(body=node.body, type_ignores=[])):
            out = []
            for h in node.handlers:
                types = [] if h.type is None else (h.type.elts if isinstance(h.type, ast.Tuple) else [h.type])
                names = [x.id for x in types if isinstance(x, ast.Name)]
                if h.type is None or "BaseException" in names or "Exception" in names:
                    break       # "Nothing should trigger this ... Anything that triggers this is itself buggy"
                out.extend(getattr(builtins, nm) for nm in names)
            return tuple(out)
    raise AssertionError("no try/fromStr in datagramReceived")


ALLOWED = _allowed_from_source()


def _decode(data):
    """Message.fromStr(data) -> 'ok' | 'allowed' ; anything else propagates (= violation)"""
    _STEPS[0] = 0
    _STEPS[1] = 16 * (3 * len(data) + 4)
    m = L.Message()
    try:
        m.fromStr(b(data))
    except ALLOWED:
        return "allowed", m
    return "ok", m


def short(data: str) -> bool:
    """
    pre: len(data) <= 11 and all(ord(c) < 256 for c in data)
    post: _
    """
    r, m = _decode(data)
    api.obs(r)
    cover()
    return r == "allowed"       # a message shorter than its header is always refused (EOFError)


HDR0 = "\x12\x34\x81\x80"


def total(mode: int, hd: str, c: str, body: str) -> bool:
    """
    pre: 0 <= mode <= 2 and len(hd) == 4 and len(c) == 4 and len(body) <= B['body']
    pre: all(ord(x) < 256 for x in hd + body) and all(ord(x) <= 2 for x in c)
    post: _
    """
    # mode 2: id and flag bytes fully symbolic; mode 1: id symbolic, flags fixed; mode 0: both fixed.
    # (a compression pointer may point into the header: every symbolic header byte is then a name byte)
    if mode == 0:
        hd = HDR0
    elif mode == 1:
        hd = hd[:2] + HDR0[2:]
    data = hd + "\0" + c[0] + "\0" + c[1] + "\0" + c[2] + "\0" + c[3] + body
    r, m = _decode(data)
    api.obs(r)
    cover()
    if r == "ok":
        # what was decoded is bounded by the counts in the header
        return (len(m.queries) <= ord(c[0]) and len(m.answers) <= ord(c[1])
                and len(m.authority) <= ord(c[2]) and len(m.additional) <= ord(c[3]))
    return True


def _total_shards(tier):
    nq = ["ord(c[0]) == %d" % k for k in range(3)]
    out = [("mode == 2", "len(body) == 0"), ("mode == 2", "len(body) == 1"),
           ("mode == 1", "len(body) == 2"), ("mode == 0", "len(body) == 3")]
    out += [("mode == 0", "len(body) == 4", q) for q in nq]
    if tier == "quick":
        return out
    first = ["ord(body[0]) < 64", "64 <= ord(body[0]) < 192", "192 <= ord(body[0]) and ord(body[1]) < 8",
             "192 <= ord(body[0]) and ord(body[1]) >= 8"]
    out += [("mode == 2", "len(body) == 2", f) for f in first]
    out += [("mode == 1", "len(body) == 3", f) for f in first]
    out += [("mode == 0", "len(body) == %d" % k, q, f) for k in range(5, BOUNDS[tier]["body"] + 1) for q in nq for f in first]
    return out


def rdata(typ: str, rdlen: str, body: str) -> bool:
    """
    pre: len(typ) == 1 and len(rdlen) == 1 and len(body) <= B['rd']
    pre: all(ord(c) < 256 for c in typ + rdlen + body)
    post: _
    """
    data = "\x12\x34\x84\x00" + "\0\0\0\1\0\0\0\0" + "\0" + "\0" + typ + "\0\1" + "\0\0\0\5" + "\0" + rdlen + body
    r, m = _decode(data)
    api.obs(r)
    cover()
    if r == "ok":
        return len(m.answers) <= 1 and m.queries == [] and m.authority == [] and m.additional == []
    return True


LP_TYPES = [16, 99, 13, 35, 10, 11, 44, 250, 38, 17, 200, 15, 6, 33, 18, 14]
LP_FILL1 = "ab"
LP_FILL2 = "cd\x00f"


def lenpref(ti: int, rdlen: str, s1: str, s2: str) -> bool:
    """
    pre: 0 <= ti < 16 and len(rdlen) == 1 and len(s1) == 1 and len(s2) == 1
    pre: ord(rdlen) <= B['lp'] and ord(s1) < 256 and ord(s2) < 256
    post: _
    """
    # RDLENGTH inconsistent with the lengths INSIDE the rdata, with packet bytes available behind it: one
    # answer at the root name, type from the menu of record types that read length-prefixed / rdlength-
    # sized data (TXT SPF HINFO NAPTR NULL WKS SSHFP TSIG A6 RP unknown MX SOA SRV AFSDB MINFO); rdata =
    # <symbolic octet> "ab" <symbolic octet> "cd\0f" followed by nothing else, RDLENGTH symbolic 0..lp
    typ = LP_TYPES[c32._bisect_value(ti, 0, len(LP_TYPES) - 1)]
    data = ("\x12\x34\x84\x00" + "\0\0\0\1\0\0\0\0" + "\0" + "\0" + chr(typ) + "\0\1" + "\0\0\0\5" + "\0" + rdlen
            + s1 + LP_FILL1 + s2 + LP_FILL2)
    r, m = _decode(data)
    api.obs(r)
    cover()
    if r == "ok":
        return len(m.answers) <= 1 and m.queries == [] and m.authority == [] and m.additional == []
    return True


def _wires():
    """one complete, valid message per record class, produced by the REAL encoder of the tree under test:
    a query, an answer and an authority record (the second copy is written with compression pointers)"""
    from twisted.names import dns
    n = b"ex.org"
    recs = [
        dns.Record_A("1.2.3.4"), dns.Record_NS(b"ns.ex.org"), dns.Record_MD(b"md.ex.org"), dns.Record_MF(b"mf.ex.org"),
        dns.Record_CNAME(b"c.ex.org"), dns.Record_SOA(b"ns.ex.org", b"root.ex.org", 2024010101, 7200, -1, 1209600, 3600),
        dns.Record_MB(b"mb.ex.org"), dns.Record_MG(b"mg.ex.org"), dns.Record_MR(b"mr.ex.org"), dns.Record_NULL(b"payload"),
        dns.Record_WKS("1.2.3.4", 6, b"\x01\x02\x03"), dns.Record_PTR(b"p.ex.org"), dns.Record_HINFO(b"cpu", b"os"),
        dns.Record_MINFO(b"r.ex.org", b"e.ex.org"), dns.Record_MX(10, b"mx.ex.org"), dns.Record_TXT(b"hello", b"", b"w"),
        dns.Record_RP(b"m.ex.org", b"t.ex.org"), dns.Record_AFSDB(1, b"h.ex.org"), dns.Record_AAAA("2001:db8::1"),
        dns.Record_SRV(1, 2, 443, b"t.ex.org"), dns.Record_NAPTR(100, 10, b"u", b"sip+E2U", b"!^.*$!sip:x@ex.org!", b"r.ex.org"),
        dns.Record_A6(64, "::1:2", b"pfx.ex.org"), dns.Record_DNAME(b"d.ex.org"), dns.Record_SSHFP(1, 1, b"\x01" * 20),
        dns.Record_SPF(b"v=spf1 -all"),
        dns.Record_TSIG(b"hmac-md5.sig-alg.reg.int", 1700000000, 300, b"\x07" * 16, 4660, 0, b"od"),
        dns.UnknownRecord(b"opaque"),
    ]
    out = []
    for r in recs:
        typ = r.TYPE if r.TYPE is not None else 65280
        m = dns.Message(id=0x1234, answer=1, recDes=1, maxSize=0)
        m.queries = [dns.Query(n, typ, dns.IN)]
        m.answers = [dns.RRHeader(n, typ, dns.IN, 300, r)]
        m.authority = [dns.RRHeader(b"www.ex.org", typ, dns.IN, 86400, r)]
        out.append((type(r).__name__, m.toStr().decode("latin-1")))
    return out


WIRES = _wires()
NW = len(WIRES)


def cutrec(ti: int, k: int) -> bool:
    """
    pre: 0 <= ti < NW and 0 <= k
    post: _
    """
    # a valid message cut at EVERY position (one path per record class and cut position)
    wire = WIRES[c32._bisect_value(ti, 0, NW - 1)][1]
    kk = len(wire) if k >= len(wire) else c32._bisect_value(k, 0, len(wire))
    r, m = _decode(wire[:kk])
    api.obs((kk, r, len(m.answers), len(m.authority)))
    cover()
    if kk == len(wire):
        return r == "ok" and len(m.queries) == 1 and len(m.answers) == 1 and len(m.authority) == 1
    if kk < 12:
        return r == "allowed"
    return len(m.queries) <= 1 and len(m.answers) <= 1 and len(m.authority) <= 1


_TGROUPS = ["ord(typ) < 12", "12 <= ord(typ) < 20", "20 <= ord(typ) < 40", "40 <= ord(typ)"]
HARNESSES = [
    H(short, shards=[("len(data) == 0",), ("len(data) == 7",), ("len(data) == 11",)]),
    H(total, shards=_total_shards, timeout={"quick": 120, "thorough": 1500}),
    H(cutrec, shards=[("%d <= ti < %d" % (g, min(g + 7, NW)),) for g in range(0, NW, 7)],
      timeout={"quick": 120, "thorough": 600}),
    H(lenpref, shards=lambda tier: [("ti < 2",), ("2 <= ti < 6",), ("6 <= ti < 8",), ("9 <= ti < 11",), ("11 <= ti",)]
      + ([] if tier == "quick" else [("ti == 8",)]),     # A6 (one path per prefix length): thorough only
      timeout={"quick": 120, "thorough": 900}),
    H(rdata, shards=lambda tier: [("len(body) == %d" % k, g) for k in range(0, BOUNDS[tier]["rd"] + 1) for g in _TGROUPS
                                  if k > 0 or g == _TGROUPS[0]] + [("len(body) == 0", "ord(typ) >= 12")],
      timeout={"quick": 120, "thorough": 1500}),
]

VECTORS = {
    "short": [("",), ("\x00" * 11,), ("abc",)],
    # test_dns.py: NameTests.test_rejectCompressionLoop / MessageTests.test_emptyMessage / test_emptyQuery ...
    "total": [(2, "\x01\x00\x00\x00", "\x01\x00\x00\x00", "\xc0\x0c"), (2, "\x01\x00\x00\x00", "\x00\x00\x00\x00", ""),
              (2, "\x01\x00\x09\x00", "\x01\x00\x00\x00", "\x00\x00\x01\x00"),
              (1, "\xc0\x0e\x00\x00", "\x02\x01\x01\x02", "\xc0\x00\xc0\x0c"),
              (0, "", "\x01\x00\x00\x00", "\x01a\x00\x00"), (2, "\xc0\x0c\x00\x00", "\x00\x01\x00\x00", "\xc0\x00\x00\x00"),
              (0, "abcd", "\x02\x02\x02\x02", "\xc0\x0d\xc0\x0c")],
    "cutrec": [(0, 0), (0, 11), (0, 30), (5, 60), (5, 75), (5, 10 ** 6), (15, 50), (20, 70), (25, 90), (26, 40), (21, 55),
               (10, 45), (23, 44)],
    "lenpref": [(0, "\x01", "\x05", "x"), (0, "\x03", "\x02", "\x03"), (1, "\x04", "\x05", "\x00"), (0, "\x08", "\x02", "\x04"),
                (2, "\x02", "\x02", "\x01"), (3, "\x06", "\x00", "\x01"), (7, "\x08", "\x00", "\x00"), (8, "\x01", "\xf0", "\x00"),
                (9, "\x05", "\xc0", "\x0c"), (4, "\x09", "a", "b"), (5, "\x02", "a", "b"), (6, "\x01", "a", "b"), (10, "\x03", "a", "b")],
    "rdata": [("\x01", "\x04", "\x01\x02\x03\x04"), ("\x10", "\x03", "\x02hi"), ("\x10", "\x05", "\x02hi"),
              ("\x0b", "\x00", ""), ("\x26", "\x01", "\xff"), ("\x2c", "\x01", "a"), ("\xfa", "\x02", "\x00\x00"),
              ("\x02", "\x02", "\xc0\x0c"), ("\x02", "\x02", "\xc0\x19"), ("\x63", "\x02", "\x05ab"), ("\xff", "\x03", "abc")],
}


def selftest():
    assert set(ALLOWED) == {EOFError, ValueError}, ALLOWED
    return c32.selftest() + 1
