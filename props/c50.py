"""C50 FilesystemLock: mutual exclusion under every interleaving of lock()/unlock() of 2-3 processes.

Engine E5: the source of the real FilesystemLock.lock and FilesystemLock.unlock is read from the tree
under test at run time and rewritten with `ast` so that every call of symlink / readlink / kill /
rmlink becomes `yield (name, args...)`; each process is then a generator that the harness resumes one
environment call at a time.  A symbolic schedule (List[int]) picks which enabled process performs
its next call against one shared world (vlib.fakefs: the lock symlink and the set of dead pids).
z3 decides every scheduling choice, so CrossHair enumerates exactly the distinct interleavings.
"""
import ast
import inspect
import textwrap
from typing import List

from twisted.python import lockfile as _lockfile

from vlib import api, fakefs
from vlib.api import H, cover
from vlib.fakefs import FakeFS

PROPERTY = "C50"
LEVEL = "model_checking"
ENCODED = ["twisted.python.lockfile:FilesystemLock.lock", "twisted.python.lockfile:FilesystemLock.unlock"]
BOUNDS = {"quick": {"procs": 2, "steps": 14, "sprocs": 2, "ssteps": 14},
          "thorough": {"procs": 3, "steps": 18, "sprocs": 2, "ssteps": 20}}
B = {}
BOUNDS_TEXT = ("each process runs lock() once and, if it returned True, later unlock(); every interleaving of "
               "their symlink/readlink/kill/rmlink calls up to `steps` calls in total.  Lock initially free or "
               "held by a live process that never releases it: `procs` processes, `steps` calls.  Lock initially "
               "left behind by a dead process (stale): `sprocs` processes, `ssteps` calls (three processes "
               "breaking a stale lock exceed 10^5 interleavings and are not explored)")
OUTSIDE = ["more processes than stated in the bounds (in particular three processes racing for a stale lock); a process that calls lock() again after a False result (equivalent to "
           "a further process)",
           "processes dying while holding the lock during the run (only an initial stale lock)",
           "pid reuse (a dead owner's pid being taken by a live process)",
           "the Windows emulation of symlink/readlink/rmlink (non-atomic) in lockfile.py",
           "OPEN known finding stale-lock-toctou: interleavings in which a process that read the dead owner's "
           "pid executes its rmlink after another process's successful symlink are excluded from mutex_stale "
           "while the finding is listed as open; its witness is replayed on every run"]
ASSUMPTIONS = ["symlink / readlink / kill / rmlink are atomic and are the only interaction between the "
               "processes (each is one scheduling step); symlink fails with EEXIST when the name exists, "
               "readlink/rmlink with ENOENT when it does not, kill(pid, 0) with ESRCH exactly for dead pids",
               "the generator rewrite preserves the sequential semantics of lock()/unlock(): the call's "
               "arguments are evaluated, the generator is suspended, and the result (or OSError) of the call "
               "is delivered at the same place; os.getpid() returns the pid of the process being resumed",
               "the schedule entry is read only when more than one process is enabled; value 0 picks the "
               "first enabled process, 1 the second, anything else the last"]
EXPLANATION = ("real lock()/unlock() source turned into generators at its four environment calls and "
               "interleaved by a symbolic schedule over a shared fake filesystem; holders counted after every step")

LOCK = "/L"
DEAD = 99        # owner of the initial stale lock
LIVE = 77        # owner of the initial live lock (never releases)
EFFECTS = ("symlink", "readlink", "kill", "rmlink")
_CUR = [0]       # pid of the process being resumed


class _Eff(ast.NodeTransformer):
    def __init__(self):
        self.count = 0

    def visit_Call(self, node):
        self.generic_visit(node)
        if isinstance(node.func, ast.Name) and node.func.id in EFFECTS and not node.keywords:
            self.count += 1
            return ast.copy_location(
                ast.Yield(ast.Tuple([ast.Constant(node.func.id)] + node.args, ast.Load())), node)
        return node


class _PidOS:
    path = _lockfile.os.path

    @staticmethod
    def getpid():
        return _CUR[0]


def _genify():
    """FilesystemLock.lock / unlock of the tree under test as generator functions"""
    ns = dict(_lockfile.__dict__)
    ns["os"] = _PidOS
    counts = {}
    for name in ("lock", "unlock"):
        src = textwrap.dedent(inspect.getsource(getattr(_lockfile.FilesystemLock, name)))
        tr = _Eff()
        tree = tr.visit(ast.parse(src))
        ast.fix_missing_locations(tree)
        exec(compile(tree, "<lockfile.%s as generator>" % name, "exec"), ns)
        counts[name] = tr.count
    return ns["lock"], ns["unlock"], counts


GEN_LOCK, GEN_UNLOCK, EFFECT_COUNTS = _genify()


def selftest():
    # the rewrite found environment calls to intercept, and a lone process behaves like the real code
    assert EFFECT_COUNTS["lock"] >= 1 and EFFECT_COUNTS["unlock"] >= 1, EFFECT_COUNTS
    n = 0
    for init in (0, 1, 2):
        w = _World(init, 1)
        p = w.procs[0]
        while not p.done:
            w.step(p)
        assert p.error is None
        assert p.acquired == (init != 1), (init, p.acquired)
        assert w.fs.links.get(LOCK) == (str(LIVE) if init == 1 else None)
        n += 1
    return n + fakefs.selftest()


class _Proc:
    def __init__(self, idx):
        self.idx = idx
        self.pid = idx + 1
        self.obj = _lockfile.FilesystemLock(LOCK)
        self.phase = "lock"
        self.gen = GEN_LOCK(self.obj)
        self.pending = None
        self.done = False
        self.acquired = False     # lock() returned True at some point
        self.held = False         # lock() returned True and unlock() has not finished
        self.error = None
        self.last_read = None     # value of this process's last readlink not yet followed by its rmlink
        self._resume(None, None)

    def _resume(self, val, exc):
        _CUR[0] = self.pid
        try:
            if exc is not None:
                self.pending = self.gen.throw(exc)
            else:
                self.pending = self.gen.send(val)
        except StopIteration as e:
            self.pending = None
            if self.phase == "lock":
                if e.value is True:
                    self.acquired = True
                    self.held = True
                    if self.obj.locked is not True:
                        self.error = "lock() returned True but .locked is not set"
                    self.phase = "unlock"
                    self.gen = GEN_UNLOCK(self.obj)
                    self._resume(None, None)
                else:
                    if e.value is not False:
                        self.error = "lock() returned %r" % (e.value,)
                    self.done = True
            else:
                self.held = False
                self.done = True
                if self.obj.locked is not False:
                    self.error = "unlock() left .locked set"
        except (OSError, ValueError) as e:
            self.pending = None
            self.done = True
            self.error = "%s() raised %s" % (self.phase, type(e).__name__)


class _World:
    def __init__(self, init, nprocs):
        self.fs = FakeFS()
        self.fs.dead = {DEAD}
        if init == 1:
            self.fs.links[LOCK] = str(LIVE)
        elif init == 2:
            self.fs.links[LOCK] = str(DEAD)
        self.external = 1 if init == 1 else 0
        self.procs = [_Proc(i) for i in range(nprocs)]
        self.trace = []            # (proc index, effect, "ok" / "err", value)
        self.toctou = False        # a stale-breaker removed a link created after it looked

    def do(self, eff):
        name = eff[0]
        if name == "symlink":
            return self.fs.symlink(eff[1], eff[2])
        if name == "readlink":
            return self.fs.readlink(eff[1])
        if name == "kill":
            return self.fs.kill(eff[1], eff[2])
        if name == "rmlink":
            return self.fs.remove(eff[1])
        raise AssertionError(eff)

    def step(self, p):
        eff = p.pending
        name = eff[0]
        try:
            v = self.do(eff)
        except OSError as e:
            self.trace.append((p.idx, name, "err", e.errno))
            if name == "rmlink":
                p.last_read = None
            p._resume(None, e)
            return
        self.trace.append((p.idx, name, "ok", v))
        if name == "readlink":
            p.last_read = [v, False]          # [value read, someone else's symlink succeeded since]
        elif name == "symlink":
            for q in self.procs:
                if q is not p and q.last_read is not None:
                    q.last_read[1] = True
        elif name == "rmlink":
            if p.phase == "lock" and p.last_read is not None and p.last_read[0] == str(DEAD) and p.last_read[1]:
                self.toctou = True
            p.last_read = None
        p._resume(v, None)

    def holders(self):
        n = self.external
        for p in self.procs:
            if p.held:
                n += 1
        return n


def _pick(enabled, s):
    if len(enabled) == 1:
        return enabled[0]
    for j in range(len(enabled) - 1):
        if s == j:
            return enabled[j]
    return enabled[-1]


def _run(schedule, init, nprocs):
    """returns (world, ok): ok is False as soon as two holders coexist or a lock()/unlock() misbehaves"""
    w = _World(init, nprocs)
    for i in range(len(schedule)):
        enabled = [p for p in w.procs if not p.done]
        if not enabled:
            break
        p = _pick(enabled, schedule[i]) if len(enabled) > 1 else enabled[0]
        w.step(p)
        if w.holders() > 1:
            return w, False
        if p.error is not None:
            return w, False
    return w, True


def _toctou(schedule):
    """the OPEN known finding's family, as a predicate over the schedule: started from a stale lock, some
    process X that read the dead owner's pid executes its rmlink successfully after another process's
    successful symlink that followed X's readlink (X removes a lock it never looked at)"""
    w, _ = _run(schedule, 2, B["sprocs"])
    return w.toctou


def mutex(schedule: List[int], init: int) -> bool:
    """
    pre: len(schedule) == B['steps'] and 0 <= init <= 1
    post: _
    """
    w, ok = _run(schedule, init, B["procs"])
    if not ok:
        return False
    if all(p.done for p in w.procs):
        cover()
        if init == 1:
            # the live owner keeps the lock: nobody acquires, the link is untouched
            return not any(p.acquired for p in w.procs) and w.fs.links.get(LOCK) == str(LIVE)
        # free lock, everybody finished: somebody got it, and it is free again
        return any(p.acquired for p in w.procs) and LOCK not in w.fs.links
    return True


def mutex_stale(schedule: List[int]) -> bool:
    """
    pre: len(schedule) == B['ssteps']
    post: _
    """
    w, ok = _run(schedule, 2, B["sprocs"])
    if any(p.acquired for p in w.procs):
        cover("stale_acquired")
    if not ok:
        return False
    if all(p.done for p in w.procs):
        cover()
        # the stale lock was broken: somebody acquired, and it is free again
        return any(p.acquired for p in w.procs) and LOCK not in w.fs.links
    return True


def stale_solo(which: int) -> bool:
    """
    pre: 0 <= which < B['sprocs']
    post: _
    """
    # liveness half: a process that runs alone (any fair schedule eventually lets it) breaks a stale lock
    w = _World(2, B["sprocs"])
    p = None
    for q in w.procs:
        if which == q.idx:
            p = q
    n = 0
    while not p.done and n < 20:
        w.step(p)
        n += 1
        if w.holders() > 1 or p.error is not None:
            return False
    cover()
    return p.done and p.acquired and not p.held and LOCK not in w.fs.links


EXCLUDE = {"stale-lock-toctou": {"mutex_stale": "not _toctou(schedule)"}}


def classify(harness_name, args):
    if harness_name == "mutex_stale" and _toctou(args["schedule"]):
        return "stale-lock-toctou"
    return None


def _sh(nprocs):
    # case split on the first two scheduling choices (they are read whenever >= 2 processes are enabled)
    if nprocs == 2:
        alts = ["schedule[%d] == 0", "schedule[%d] != 0"]
    else:
        alts = ["schedule[%d] == 0", "schedule[%d] == 1", "schedule[%d] != 0 and schedule[%d] != 1"]
    return [(a.replace("%d", "0"), c.replace("%d", "1")) for a in alts for c in alts]


HARNESSES = [
    H(mutex, shards=lambda tier: [("init == %d" % i,) + s for i in (0, 1) for s in _sh(BOUNDS[tier]["procs"])],
      timeout={"quick": 150, "thorough": 900}),
    H(mutex_stale, shards=lambda tier: _sh(BOUNDS[tier]["sprocs"]), labels=("end", "stale_acquired"), timeout={"quick": 150, "thorough": 1200}),
    H(stale_solo, timeout={"quick": 60, "thorough": 60}),
]

# P0 and P1 both find the stale link and read the dead pid; P0 removes it, acquires; P1's delayed rmlink
# removes P0's fresh lock and P1 acquires too.
WITNESS = {"harness": "mutex_stale", "args": {"schedule": [0, 1, 0, 1, 0, 1, 0, 0, 1, 1, 0, 0, 0, 0]}}

VECTORS = {
    "mutex": [([0] * 14, 0), ([1] * 14, 0), ([0, 1] * 7, 0), ([0, 1] * 7, 1), ([1, 1, 0, 0, 1, 0, 1, 0, 0, 0, 0, 0, 0, 0], 0)],
    "mutex_stale": [([0] * 14,), ([1] * 14,), ([0, 0, 0, 0, 0, 1, 1, 1, 1, 1, 1, 1, 0, 0],)],
    "stale_solo": [(0,), (1,)],
}
