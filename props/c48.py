"""C48 HTTP Digest credentials: decode + checkPassword accept exactly the right responses.

Engine E2: DigestCredentialFactory / DigestedCredentials (credentials.py) and calcHA1 / calcHA2 /
calcResponse (_digest.py) are recompiled from /repo's source onto LBytes.  The C helpers they call
are replaced in the lifted world (ASSUMPTIONS): md5/sha1 -> an injective rendering of the hashed
text (ideal hash: no collisions), hexlify -> identity, base64.b64encode/b64decode -> a reversible
bracket encoding whose decoder rejects malformed input with binascii.Error (as the real one does),
secureRandom -> fixed text, the compiled regex `_parseparts` -> a pure-Python scanner with the same
findall() result, nativeString -> LBytes.decode('ascii').  The clock is `factory._getTime`, the hook
twisted provides for that.  In replay the same harness runs on the real module with the real
md5/base64/re.
"""
import binascii
import sys

from vlib import api, lbytes, lift
from vlib.api import H, cover
from vlib.lift import b, t

lbytes.NORMALISE = True

PROPERTY = "C48"
LEVEL = "model_checking"
ENCODED = ["twisted.cred.credentials:DigestCredentialFactory.getChallenge",
           "twisted.cred.credentials:DigestCredentialFactory._generateOpaque",
           "twisted.cred.credentials:DigestCredentialFactory._verifyOpaque",
           "twisted.cred.credentials:DigestCredentialFactory.decode",
           "twisted.cred.credentials:DigestedCredentials.checkPassword",
           "twisted.cred._digest:calcHA1", "twisted.cred._digest:calcHA2", "twisted.cred._digest:calcResponse"]
BOUNDS = {"quick": {"x": 2}, "thorough": {"x": 3}}
B = {}
BOUNDS_TEXT = ("one challenge (md5, client 10.0.0.1) answered by a client response with the usual ten fields; "
               "`valid`: untouched fields, wrong password = any <= 3 bytes, other client address = any <= 3 bytes / "
               "empty / None, age any integer 0..2000 s around CHALLENGE_LIFETIME_SECS=900; `tamper`: ONE field of a "
               "correct client's response replaced by any <= x bytes or removed, with right / wrong password, same / "
               "other address, symbolic age; `legit`: the client itself sends another value (<= x bytes of '0'..'z' "
               "without '=') for one field, or omits it, and computes its response over what it sends; `forge`: a "
               "well-formed opaque whose signed key has its nonce / address / time part replaced by any <= x bytes "
               "(or a fourth part added), under the issued digest or under <= x attacker-chosen digest bytes "
               "(total symbolic bytes <= x)")
OUTSIDE = ["two or more fields changed at once; replacement values longer than x bytes (every genuine value is "
           "longer than x bytes, so a replaced hashed field never equals the original)",
           "sha / md5-sess algorithms offered by the factory; checkHash(); several challenges or factories; "
           "twisted.web._auth.digest and the HTTP header layer above decode()",
           "real MD5/SHA1 collisions and real base64 (ideal-hash and reversible-encoding stand-ins, below)",
           "reordering of fields, extra unknown fields, parameter NAMES containing symbolic bytes"]
ASSUMPTIONS = ["ideal hash: md5()/sha1() are a per-run memo table - equal (algorithm, text) give the same short hex "
               "token, different texts different tokens (no collisions), equality of hashed texts decided by the "
               "solver; hexlify is the identity on these tokens",
               "base64.b64encode/b64decode are replaced by a reversible bracket encoding; on input that is not an "
               "encoding the decoder behaves like the real one on short input (drops characters outside the "
               "alphabet, refuses what is left with binascii.Error, empty -> empty); reversibility of both and the "
               "short malformed cases are checked in selftest",
               "secureRandom returns fixed text (nonce) and privateKey is set to fixed text the attacker does not "
               "know; the clock is the factory's own _getTime hook set by the harness",
               "the compiled regex _parseparts is replaced by a pure-Python scanner with the same findall() result "
               "(selftest: 3000+ strings over the characters that matter, against the real regex); nativeString by "
               "LBytes.decode('ascii'); _digest.algorithms by a list-based mapping with the same keys",
               "LBytes reproduces bytes semantics (vlib.lbytes.selftest); lifted and real code agree on the vectors"]
EXPLANATION = ("lifted real decode/_verifyOpaque/checkPassword/calcResponse on a rendered response whose mutated "
               "field is symbolic bytes; acceptance compared with the specification, any escaping exception is a "
               "counterexample")

LIFETIME = 15 * 60
T0 = 1000000          # time of the challenge
IP = "10.0.0.1"
PASSWORD = "secret"
METHOD = "GET"
REALM = "rlm1"
NONCE_TEXT = "9f8e7d"
PRIVATE_KEY = "PRIVKEY"
OTHER_IP = "10.0.0.2"
WRONG_PW = "Secret"


# ---- lifted-world stand-ins for the C helpers -------------------------------------------------

_TABLE = []     # the texts hashed so far on this path (reset by _issue)


class _FakeHash:
    """ideal hash as a memo table (random-oracle style): the digest of a text is a short token naming
    the first position at which that (algorithm, text) was hashed on this path - equal inputs give equal
    digests, different inputs different ones; whether two hashed texts are equal is decided by the solver"""

    def __init__(self, tag, data=None):
        self.tag = tag
        self.text = ""
        if data is not None:
            self.update(data)

    def update(self, x):
        self.text = self.text + lbytes._s(x)      # TypeError for None, like the real one

    def digest(self):
        idx = -1
        for i in range(len(_TABLE)):
            tag, text = _TABLE[i]
            if tag == self.tag and self.text == text:
                idx = i
                break
        if idx < 0:
            idx = len(_TABLE)
            _TABLE.append((self.tag, self.text))
        return lbytes.LBytes(("1" if self.tag == "md5" else "2") + "%07x" % idx)


def _md5(data=None):
    return _FakeHash("md5", data)


def _sha1(data=None):
    return _FakeHash("sha", data)


def _hexlify(x):
    return lbytes.LBytes(lbytes._s(x))


_B64_ALPHABET = "ABCDEFGHIJKLMNOPQRSTUVWXYZabcdefghijklmnopqrstuvwxyz0123456789+/"


class _B64:
    """reversible stand-in: encode(x) = '{' + x + '}'; decode rejects anything else"""

    @staticmethod
    def b64encode(x):
        return lbytes.LBytes("{" + lbytes._s(x) + "}")

    @staticmethod
    def b64decode(x):
        s = lbytes._s(x)
        if len(s) < 2 or s[0] != "{" or s[len(s) - 1] != "}":
            # like the real decoder on short input: characters outside the alphabet are dropped, what
            # is left (unpadded, not a multiple of 4) is refused; nothing left decodes to nothing
            for c in s:
                if lbytes._char_in(c, _B64_ALPHABET):
                    raise binascii.Error("Incorrect padding")
            return lbytes.LBytes("")
        return lbytes.LBytes(s[1:len(s) - 1])


def _secure_random(n):
    return lbytes.LBytes(NONCE_TEXT)


def _native_string(x):
    if isinstance(x, str):
        x.encode("ascii")
        return x
    return x.decode("ascii")


class _ParseParts:
    """findall() of  ([^= ]+)=(?:"([^"]*)"|([^,]+)),?  as a left-to-right scanner (validated against
    the compiled regex on a corpus in selftest)"""

    @staticmethod
    def findall(x):
        return [tuple(lbytes.LBytes(g) for g in m) for m in _findall_text(lbytes._s(x))]


def _cps(s):
    """code points of a text as a list: plain ints where the character is concrete"""
    tr = sys.modules.get("crosshair.tracers")
    if tr is not None:
        with tr.NoTracing():
            if type(s) is not str and type(s).__name__ == "LazyIntSymbolicStr":
                try:
                    return list(s._codepoints)
                except Exception:  # noqa
                    pass
    return [ord(c) for c in s]


def _findall_text(text):
    out = []
    s = _cps(text)
    n = len(s)
    EQ, SP, QUOTE, COMMA = 61, 32, 34, 44
    p = 0
    while p < n:
        # group 1: the maximal run of characters other than '=' and ' ', then '='
        q = p
        while q < n and s[q] != EQ and s[q] != SP:
            q += 1
        if q == p or q >= n or s[q] != EQ:
            # no match starting here; a later start inside the same run fails the same way
            p = q + 1 if q > p else p + 1
            continue
        v = q + 1
        end = None
        quoted = bare = ""
        if v < n and s[v] == QUOTE:
            c = v + 1
            while c < n and s[c] != QUOTE:
                c += 1
            if c < n:
                quoted = text[v + 1:c]
                end = c + 1
        if end is None:
            c = v
            while c < n and s[c] != COMMA:
                c += 1
            if c > v:
                bare = text[v:c]
                end = c
        if end is None:
            # '=' directly followed by ',' or by the end: the regex retries at every later start of the
            # run, each of which needs this very '=' and fails again
            p = q + 1
            continue
        if end < n and s[end] == COMMA:
            end += 1
        out.append((text[p:q], quoted, bare))
        p = end
    return out


_D = lift.lift("twisted.cred._digest", names=["algorithms", "calcHA1", "calcHA2", "calcResponse"],
               overrides={"md5": _md5, "sha1": _sha1, "hexlify": _hexlify})
if not _D.__real__:
    # dict lookups hash (realise) a symbolic algorithm name: compare instead
    _D.algorithms = lbytes.SymDict(_D.algorithms)
    _D.__ns__["algorithms"] = _D.algorithms
L = lift.lift("twisted.cred.credentials", names=["DigestedCredentials", "DigestCredentialFactory"], use_re=True,
              overrides={"md5": _md5, "hexlify": _hexlify, "base64": _B64, "secureRandom": _secure_random,
                         "nativeString": _native_string, "algorithms": _D.algorithms, "calcHA1": _D.calcHA1,
                         "calcHA2": _D.calcHA2, "calcResponse": _D.calcResponse})
if not L.__real__:
    L.DigestCredentialFactory._parseparts = _ParseParts
from twisted.cred import error as _error  # noqa: E402
LoginFailed = _error.LoginFailed

# the last field is a quoted one: a bare value ending the text is cut by splitlines()
FIELDS = ["username", "realm", "nonce", "uri", "response", "opaque", "qop", "nc", "algorithm", "cnonce"]
UNQUOTED = ("qop", "nc", "algorithm")


def _b64e(text):
    if L.__real__:
        import base64
        return base64.b64encode(text.encode("latin-1")).decode("latin-1")
    return t(_B64.b64encode(b(text)))


def _issue():
    del _TABLE[:]
    f = L.DigestCredentialFactory(b("md5"), b(REALM))
    f.privateKey = b(PRIVATE_KEY)
    clock = [T0]
    f._getTime = lambda: clock[0]
    ch = f.getChallenge(b(IP))
    return f, clock, ch


def _client_fields(ch):
    return {"username": "usr1", "realm": REALM, "nonce": t(ch["nonce"]), "uri": "/d/i",
            "opaque": t(ch["opaque"]), "qop": "auth", "nc": "0001", "cnonce": "0a4f",
            "algorithm": "md5"}


def _client_response(fields, password):
    """what a client computes (RFC 2617) over `fields` with `password`, by the module's own functions"""
    def g(k):
        v = fields.get(k)
        return None if v is None else b(v)
    algo = b(fields.get("algorithm", "md5")).lower()
    qop = b(fields.get("qop", "auth"))
    ha1 = _D.calcHA1(algo, g("username"), b(REALM), b(password), g("nonce"), g("cnonce"))
    ha2 = _D.calcHA2(algo, b(METHOD), g("uri"), qop, None)
    return t(_D.calcResponse(ha1, ha2, algo, g("nonce"), g("nc"), g("cnonce"), qop))


def _render(fields):
    parts = []
    for k in FIELDS:
        if k in fields:
            if k in UNQUOTED:
                parts.append(k + "=" + fields[k])
            else:
                parts.append(k + '="' + fields[k] + '"')
    return ", ".join(parts)


def _attempt(f, text, host):
    """decode + checkPassword; 'ok' / 'login-failed' / 'bad-password'; anything else propagates"""
    try:
        creds = f.decode(b(text), b(METHOD), None if host is None else b(host))
    except LoginFailed:
        return "login-failed"
    if creds is None:
        return "none"
    if creds.checkPassword(b(PASSWORD)):
        return "ok"
    return "bad-password"


def _pick(n, k):
    for i in range(n):
        if k == i:
            return i
    return n - 1


def tamper(field: int, delete: bool, sym: str, wrongpw: bool, otherip: bool, elapsed: int) -> bool:
    """
    pre: 0 <= field <= 9 and len(sym) <= B['x'] and all(ord(c) < 256 for c in sym)
    pre: 0 <= elapsed <= 2000
    post: _
    """
    # a correct client answers the challenge; then ONE field of its response is replaced by up to x
    # arbitrary bytes or removed on the way to the server
    name = FIELDS[_pick(10, field)]
    f, clock, ch = _issue()
    fields = _client_fields(ch)
    fields["response"] = _client_response(fields, WRONG_PW if wrongpw else PASSWORD)
    if delete:
        del fields[name]
    else:
        fields[name] = sym
    clock[0] = T0 + elapsed
    res = _attempt(f, _render(fields), OTHER_IP if otherip else IP)
    api.obs(res)
    cover()
    # every value a client sends is longer than x bytes, so a replaced field never equals the original;
    # the realm field is not used by the server (it hashes its own realm); qop / algorithm default to
    # the values the client used
    harmless = name == "realm"
    dontcare = False
    if name == "realm" and not delete:
        for c in sym:
            if c == '"':
                # a quote inside the quoted realm value ends it early and re-frames what follows: the
                # response as a whole is malformed and may be refused (thorough tier: sym = '"\x0c=')
                dontcare = True
    if name == "qop" or name == "algorithm":
        # unquoted: an empty value or one starting with ',' does not parse as a pair at all = absent
        if delete or len(sym) == 0:
            harmless = True
        elif sym[0] == ",":
            harmless = True
            for c in sym[1:]:
                if c == '"':
                    # ... unless a stray quote follows: it opens a quoted string that swallows the
                    # FOLLOWING fields, i.e. the response as a whole is malformed and may be refused
                    # (thorough tier, x = 3: sym = ',="').  The property only demands "ok or an
                    # ordinary login failure" here.  (False alarm of the first oracle, see DESIGN 6.)
                    dontcare = True
        elif name == "algorithm" and _is_md5(sym):
            harmless = True
    if dontcare and not wrongpw and not otherip and elapsed <= LIFETIME:
        return res == "ok" or res == "login-failed" or res == "bad-password"
    good = harmless and not wrongpw and not otherip and elapsed <= LIFETIME
    if good:
        return res == "ok"
    return res == "login-failed" or res == "bad-password"


def _is_md5(s):
    if len(s) != 3:
        return False
    return (s[0] == "m" or s[0] == "M") and (s[1] == "d" or s[1] == "D") and s[2] == "5"


def _clean(s):
    # '0'..'z' without '=': digits, letters and some punctuation; no quote, comma, blank or control byte
    for c in s:
        if not ("0" <= c <= "z") or c == "=":
            return False
    return True


def legit(field: int, delete: bool, sym: str, wrongpw: bool, otherip: bool, elapsed: int) -> bool:
    """
    pre: 0 <= field <= 9 and field != 4 and 1 <= len(sym) <= B['x'] and _clean(sym)
    pre: 0 <= elapsed <= 2000
    post: _
    """
    # the client itself uses another value for ONE field (or omits it) and computes its response over
    # what it sends: accepted iff password, address and age are right and nonce/opaque are the issued ones
    name = FIELDS[_pick(10, field)]
    f, clock, ch = _issue()
    fields = _client_fields(ch)
    if delete:
        del fields[name]
    else:
        fields[name] = sym
    if name == "algorithm" and not delete:
        return True     # an algorithm the client invents: covered by `tamper`
    if delete and name in ("username", "nonce", "uri"):
        return True     # the client cannot compute a response without them: covered by `tamper`
    fields["response"] = _client_response(fields, WRONG_PW if wrongpw else PASSWORD)
    clock[0] = T0 + elapsed
    res = _attempt(f, _render(fields), OTHER_IP if otherip else IP)
    api.obs(res)
    cover()
    good = not wrongpw and not otherip and elapsed <= LIFETIME and name != "nonce" and name != "opaque"
    if good:
        return res == "ok"
    return res == "login-failed" or res == "bad-password"


def forge(part: int, sym: str, keepdigest: bool, dig: str, elapsed: int) -> bool:
    """
    pre: 0 <= part <= 3 and len(sym) <= B['x'] and all(ord(c) < 256 for c in sym)
    pre: len(dig) <= B['x'] and ((len(dig) == 0) if keepdigest else (len(sym) + len(dig) <= B['x']))
    pre: all(ord(c) < 256 for c in dig)
    pre: 0 <= elapsed <= 2000
    post: _
    """
    # a well-formed opaque whose signed key (nonce, client address, time) has one part replaced (or a
    # fourth part added), with the issued digest or an attacker-chosen one, presented by a client that
    # knows the password and answers consistently: never accepted (the digest binds all three)
    f, clock, ch = _issue()
    fields = _client_fields(ch)
    issued = t(ch["opaque"])
    cut = 0
    for i in range(len(issued)):
        if issued[i] == "-":
            cut = i
            break
    keyparts = [t(ch["nonce"]), IP, str(T0)]
    k = _pick(4, part)
    if k == 3:
        keyparts.append(sym)
    else:
        if sym == keyparts[k]:
            return True
        keyparts[k] = sym
    if k == 0:
        fields["nonce"] = sym       # keep opaque and nonce field consistent with each other
    fields["opaque"] = (issued[:cut] if keepdigest else dig) + "-" + _b64e(",".join(keyparts))
    fields["response"] = _client_response(fields, PASSWORD)
    clock[0] = T0 + elapsed
    res = _attempt(f, _render(fields), sym if k == 1 else IP)
    api.obs(res)
    cover()
    return res == "login-failed"


def valid(elapsed: int, wrongpw: bool, pw: str, otherip: bool, ip: str, noip: bool) -> bool:
    """
    pre: 0 <= elapsed <= 2000 and len(pw) <= 3 and all(ord(c) < 256 for c in pw)
    pre: len(ip) <= 3 and all(ord(c) < 256 for c in ip)
    post: _
    """
    # the untouched exchange: accepted iff the password is the account's, the request comes from the
    # address the challenge was issued to (any other: symbolic text, empty, or None) and the challenge
    # is at most CHALLENGE_LIFETIME_SECS old
    f, clock, ch = _issue()
    fields = _client_fields(ch)
    fields["response"] = _client_response(fields, pw if wrongpw else PASSWORD)
    clock[0] = T0 + elapsed
    res = _attempt(f, _render(fields), (None if noip else ip) if otherip else IP)
    api.obs(res)
    cover()
    if otherip or elapsed > LIFETIME:
        return res == "login-failed"
    if wrongpw:
        return res == "bad-password"
    return res == "ok"


def _tamper_shards(tier):
    out = [("field == %d" % i, "delete") for i in range(10)]
    for i in range(10):
        for n in range(BOUNDS[tier]["x"] + 1):
            pre = ("field == %d" % i, "not delete", "len(sym) == %d" % n)
            if n >= 2 and i in (6, 7, 8):
                # the unquoted fields see more of the parser: split by the class of the first byte
                out.append(pre + ("sym[0] < '0'",))
                out.append(pre + ("'0' <= sym[0] <= 'Z'",))
                out.append(pre + ("'Z' < sym[0] <= 'z'",))
                out.append(pre + ("sym[0] > 'z'",))
            else:
                out.append(pre)
    return out


HARNESSES = [
    H(valid, shards=[("len(pw) == %d" % a, "len(ip) == %d" % c) for a in range(4) for c in range(4)],
      timeout={"quick": 60, "thorough": 300}),
    H(tamper, shards=lambda tier: _tamper_shards(tier), timeout={"quick": 100, "thorough": 1500}),
    H(legit, shards=lambda tier: [("field == %d" % i, "delete") for i in (1, 5, 6, 7, 8, 9)] +
      [("field == %d" % i, "not delete", "len(sym) == %d" % n) for i in (0, 1, 2, 3, 5, 6, 7, 9)
       for n in range(1, BOUNDS[tier]["x"] + 1)],
      timeout={"quick": 100, "thorough": 1500}),
    H(forge, shards=lambda tier: [("part == %d" % i, "len(sym) == %d" % n, "keepdigest") for i in range(4)
                                  for n in range(BOUNDS[tier]["x"] + 1)] +
      [("part == %d" % i, "len(sym) == %d" % n, "not keepdigest", "len(dig) == %d" % m) for i in range(4)
       for n in range(BOUNDS[tier]["x"] + 1) for m in range(BOUNDS[tier]["x"] + 1 - n)],
      timeout={"quick": 100, "thorough": 1500}),
]


_CORPUS = ['username="u", realm="r", nonce="n", uri="/", response="x", opaque="a-b", qop=auth, nc=01, cnonce="c"',
           'a=b', 'a="b', 'a=,b=c', '=x', 'a==b', 'a= b, c = d', 'k="v" ,x=y', 'a="",b=', 'abc', ' a=1 , b="2"',
           'x="a,b",y=c d,z', 'a=b,,c=d', 'q=",",r', 'uri=""X", response="r"', 'nc=,=, cnonce="c"', 'a b=c',
           'k=v=w, =', '""="', 'a="b"c=d', 'a="b" c=d,e', '\xff=1', 'a=\n b=c']


def selftest():
    import base64
    import re
    n = lbytes.selftest()
    pat = re.compile('([^= ]+)=(?:"([^"]*)"|([^,]+)),?')
    import itertools
    corpus = list(_CORPUS)
    for tup in itertools.product('a=", ', repeat=5):
        corpus.append("".join(tup))
    for s in corpus:
        if _findall_text(s) != pat.findall(s):
            raise AssertionError("parseparts stand-in differs from the regex on %r" % (s,))
        n += 1
    for raw in [b"", b"a", b"n,10.0.0.1,1000", bytes(range(256))]:
        if base64.b64decode(base64.b64encode(raw)) != raw:
            raise AssertionError("base64 not reversible")
        if lbytes._s(_B64.b64decode(_B64.b64encode(lbytes.LBytes(raw.decode("latin-1"))))) != raw.decode("latin-1"):
            raise AssertionError("base64 stand-in not reversible")
        n += 1
    for okay in [b"", b"\r", b"-=", b"{}"]:
        if base64.b64decode(okay) != b"" or lbytes._s(_B64.b64decode(lbytes.LBytes(okay.decode()))) != "":
            raise AssertionError("base64 stand-in differs on %r" % (okay,))
        n += 1
    for bad in [b"b", b"bb", b"abc", b"a-b", b"\xffz"]:
        for dec, arg in ((base64.b64decode, bad), (_B64.b64decode, lbytes.LBytes(bad.decode("latin-1")))):
            try:
                dec(arg)
            except binascii.Error:
                n += 1
            else:
                raise AssertionError("malformed base64 %r accepted" % (bad,))
    return n


VECTORS = {
    "valid": [(0, False, "", False, "", False), (900, False, "", False, "", False), (901, False, "", False, "", False),
              (5, True, "ab", False, "", False), (5, False, "", True, "", True), (5, False, "", True, "1.1", False)],
    "tamper": [(i, True, "", False, False, 10) for i in range(10)] +
              [(i, False, "zz", False, False, 10) for i in range(10)] +
              [(5, False, "a-b", False, False, 10), (5, False, "-", False, False, 10), (8, False, "\n", False, False, 1),
               (6, False, ",", False, False, 1), (1, False, "zz", True, False, 10), (1, False, '"', False, True, 10),
               (3, False, "\xff=", False, False, 10), (0, False, "", False, False, 10)],
    "legit": [(i, False, "Zz", False, False, 10) for i in (0, 1, 2, 3, 5, 6, 7, 9)] +
             [(i, True, "Z", False, False, 10) for i in (1, 5, 6, 7, 8, 9)] + [(3, False, "Zz", False, False, 901)],
    "forge": [(p, "77", True, "", 10) for p in range(4)] + [(p, "7", False, "d", 10) for p in range(4)],
}
