"""C05 inlineCallbacks / coroutines behave like synchronous execution, including cancellation.

Five program templates (straight line with a plain-value yield, data dependent loop, try/except
around every await, try/finally with an await and a `return` inside `finally`, nested call with
exception translation; plain-value and bare yields also come directly after caught failures and
cancellations, inside an except block and inside `finally`) are written ONCE in a tiny macro notation and compiled three ways from the
same text: as an inlineCallbacks generator (AWAIT[i] -> `yield slot(i)`), as a coroutine run with
ensureDeferred (`await slot(i)`), and as a plain synchronous function (`ctx.s(i)` returns the slot's
value or raises its exception).  The nested template additionally comes in the flavours generator
calling generator, coroutine awaiting ensureDeferred(coroutine), generator yielding a bare
coroutine, coroutine awaiting an inlineCallbacks Deferred, coroutine awaiting a bare coroutine.

The k awaited Deferreds ("slots") get a symbolic schedule: which fire before the function starts,
which later and in which order, which never, success or failure each, and up to two symbolic points
at which the returned Deferred is cancelled (the second one while the body, having observed the first
cancelled Deferred's outcome, is suspended on a later await), with three canceller behaviours of the
slots.  Failures come in two classes, chosen symbolically: an Exception subclass (_Err) or a
BaseException subclass that is not an Exception (_BErr), both for the awaited Deferreds' failures and
for the exceptions the templates raise themselves (exception translation); the templates' handlers
name _Err / CancelledError only, so a _BErr always escapes, in the reference as on twisted.  After every step
the observation trace of the real run, the state of the returned Deferred and the cancel counters of
all slots must be what the synchronous execution of the same template predicts.
"""
import re

from twisted.internet.defer import CancelledError, Deferred, ensureDeferred, inlineCallbacks
from twisted.python.failure import Failure

from vlib.api import H, cover

PROPERTY = "C05"
LEVEL = "model_checking"
ENCODED = ["twisted.internet.defer:_inlineCallbacks", "twisted.internet.defer:_gotResultInlineCallbacks",
           "twisted.internet.defer:_cancellableInlineCallbacks", "twisted.internet.defer:_handleCancelInlineCallbacks",
           "twisted.internet.defer:_addCancelCallbackToDeferred", "twisted.internet.defer:Deferred.__iter__",
           "twisted.internet.defer:ensureDeferred", "twisted.internet.defer:Deferred.fromCoroutine",
           "twisted.internet.defer:inlineCallbacks", "twisted.internet.defer:Deferred.cancel"]
BOUNDS = {"quick": {"k": 3, "cm": 1, "c2full": 0, "ekfull": 0},
          "thorough": {"k": 5, "cm": 2, "c2full": 3, "ekfull": 2}}
B = {}
BOUNDS_TEXT = ("5 templates x generator/coroutine (nested template: 5 nesting flavours) = 13 programs; 1 <= k <= K "
               "awaited Deferreds; schedule = any sequence of distinct slots (others never fire), success or failure "
               "each, any prefix of it fired before the function starts; cancel() of the returned Deferred at any "
               "one point or never; slot cancellers: no-op / fire a value (quick) / fire a failure (thorough, k <= 3). "
               "A SECOND cancel() at any point c2 >= c (also immediately after the first) for the programs that go on "
               "awaiting after a cancellation (try/except, try/finally, nested call: 9 programs), explored for "
               "schedules that fire all k slots with none pre-fired, canceller no-op (try/except), value-firing "
               "(nested call) or either (try/finally); thorough: additionally every schedule and canceller for k <= 3. "
               "Exception class (ek): 0 = all failures are Exception subclasses; 1 = the awaited Deferreds fail with a "
               "BaseException subclass that is not an Exception; 2 = the exceptions raised by the templates themselves "
               "(try/except and nested-call programs) are of that class; ek >= 1 (harnesses program_b / program5_b) is "
               "explored for runs without cancellation that contain a failing slot (thorough: also with cancellation "
               "for k <= 2).  "
               "Awaited-Deferred kind (ch, harnesses program_c / program5_c): 'already fired, but one of its callbacks "
               "returned an unfired inner Deferred' for every slot (ch = 1) or every slot but the first (ch = 2); the "
               "schedule fires the inner Deferreds and a cancel() must reach them through the awaited Deferred; quick: "
               "all k slots scheduled, none resolved before the start, at most one cancel, no-op cancellers; thorough: "
               "every schedule / prefix / canceller / second cancel for k <= 3.  "
               "quick: K = 3.  thorough: K = 4 with all schedules, plus k = 5 with the slots fired in index order "
               "(any number of them, any pre-fired prefix, any outcomes, any cancellation point)")
OUTSIDE = ["randomly structured programs: the program shape is one of 13 fixed templates, only data, schedule and "
           "cancellation point are symbolic", "more than K awaits; a third cancel(); a second cancel() in the straight-line and plain loop programs and for schedules with pre-fired or never-fired slots (thorough: only for k >= 4)",
           "slot values are the fixed integers 100+i (900+i / failures 50+i from cancellers), failures are _Err(i)",
           "returnValue(), generators yielding Deferreds that are themselves chained to other Deferreds"]
ASSUMPTIONS = ["the expected trace is produced by the plain-function compilation of the same template text; the "
               "macro expansion (AWAIT/PLAIN/CALL -> yield / await / call) is the only difference between the "
               "programs run on twisted and the reference",
               "slots fired before the function starts are listed in increasing index order (their mutual order "
               "cannot be observed by a function that has not started)"]
EXPLANATION = ("templates compiled as inlineCallbacks generator, coroutine and plain function; real runs on symbolic "
               "schedules, outcomes and cancellation points compared step by step with the synchronous execution")


class _Err(Exception):
    def __init__(self, v):
        Exception.__init__(self, v)
        self.v = v


class _BErr(BaseException):
    """a failure that is NOT an Exception (like SystemExit / asyncio.CancelledError)"""

    def __init__(self, v):
        BaseException.__init__(self, v)
        self.v = v


class _Stop(BaseException):
    """raised by the synchronous reference when the program asks for a slot that has no outcome yet"""


# ------------------------------------------------------------------------------------ templates

_SUB = '''
DEF sub(ctx, i):
    try:
        v = AWAIT[i]
    except _Err as e:
        y = PLAIN[500 + i]
        ctx.note(("sub-e", i, e.v, y))
        raise ctx.exc(e.v + 1000)
    ctx.note(("sub-v", i, v))
    return v + 1
'''

_T = ['''
DEF prog(ctx):
    a = AWAIT[0]
    ctx.note(("a", a))
    x = PLAIN[a + 1]
    ctx.note(("x", x))
    b = AWAIT[1] if ctx.k > 1 else -1
    ctx.note(("b", b))
    c = AWAIT[2] if ctx.k > 2 else -1
    ctx.note(("c", c))
    e = AWAIT[3] if ctx.k > 3 else -1
    f = AWAIT[4] if ctx.k > 4 else -1
    ctx.note(("ef", e, f))
    return ("t0", a, x, b, c, e, f)
''', '''
DEF prog(ctx):
    acc = []
    i = 0
    while i < ctx.k:
        v = AWAIT[i]
        ctx.note(("v", i, v))
        acc.append(v)
        if v >= 900:
            i += 1
        i += 1
    return ("t1", acc)
''', '''
DEF prog(ctx):
    out = []
    for i in range(ctx.k):
        try:
            v = AWAIT[i]
            out.append(("v", v))
        except _Err as e:
            if e.v == 1:
                raise ctx.exc(e.v + 2000)
            out.append(("e", e.v))
        except CancelledError:
            out.append(("c", i))
        # plain (non-Deferred) values right after a result / a caught failure / a caught cancellation:
        # they must come back exactly as yielded (a bare `yield` gives None)
        w = PLAIN[1000 + i]
        n = PLAIN[None]
        ctx.note(("step", i, len(out), w, n))
    return ("t2", out)
''', '''
DEF prog(ctx):
    out = []
    try:
        i = 0
        while i < ctx.k - 1:
            out.append(AWAIT[i])
            ctx.note(("try", i))
            i += 1
    finally:
        q = PLAIN[("fin", len(out))]
        ctx.note(("finally", len(out), q))
        z = AWAIT[ctx.k - 1]
        out.append(z)
        return ("t3", out)
''', '''
DEF prog(ctx):
    out = []
    i = 0
    while i < ctx.k - 1:
        try:
            r = CALL[sub|i]
            out.append(("r", r))
        except _Err as e:
            out.append(("e", e.v))
        w = PLAIN[2000 + i]
        ctx.note(("outer", i, w))
        i += 1
    z = AWAIT[ctx.k - 1]
    return ("t4", out, z)
''']

_KIND = {"g": (r"(yield ctx.d(\1))", r"(yield (\1))", "def "),
         "c": (r"(await ctx.d(\1))", r"(\1)", "async def "),
         "s": (r"ctx.s(\1)", r"(\1)", "def ")}


def _compile(src, kind, call, ns):
    aw, plain, d = _KIND[kind]
    s = src.replace("DEF ", d)
    s = re.sub(r"AWAIT\[([^\]]*)\]", aw, s)
    s = re.sub(r"PLAIN\[([^\]]*)\]", plain, s)
    s = re.sub(r"CALL\[(\w+)\|([^\]]*)\]", call, s)
    exec(compile(s, "<c05 template %s>" % kind, "exec"), ns)


def _build(tmpl, flav):
    """returns start(ctx) -> Deferred for the (template, flavour) program"""
    ns = {"_Err": _Err, "CancelledError": CancelledError, "ensureDeferred": ensureDeferred}
    # flavour: outer kind, inner kind, how the outer calls the inner
    outer, inner, call = {
        "g": ("g", "g", r"(yield sub_ic(ctx, \2))"),
        "c": ("c", "c", r"(await ensureDeferred(sub(ctx, \2)))"),
        "gc": ("g", "c", r"(yield sub(ctx, \2))"),
        "cg": ("c", "g", r"(await sub_ic(ctx, \2))"),
        "cc": ("c", "c", r"(await sub(ctx, \2))"),
    }[flav]
    _compile(_SUB, inner, "", ns)
    if inner == "g":
        ns["sub_ic"] = inlineCallbacks(ns["sub"])
    _compile(_T[tmpl], outer, call, ns)
    prog = ns["prog"]
    if outer == "g":
        return inlineCallbacks(prog)
    return lambda ctx: ensureDeferred(prog(ctx))


def _build_sync(tmpl):
    ns = {"_Err": _Err, "CancelledError": CancelledError}
    _compile(_SUB, "s", "", ns)
    _compile(_T[tmpl], "s", r"sub(ctx, \2)", ns)
    return ns["prog"]


_FLAVS = ["g", "c", "gc", "cg", "cc"]
PROGRAMS = [(t, f) for t in range(4) for f in (0, 1)] + [(4, f) for f in range(5)]
_REAL = {(t, f): _build(t, _FLAVS[f]) for (t, f) in PROGRAMS}
_SYNC = [_build_sync(t) for t in range(5)]


# ------------------------------------------------------------------------------------ contexts

class _Slot(Deferred):
    """awaited Deferred counting cancel() calls and canceller invocations; cm selects what the
    canceller does: 0 nothing (-> CancelledError), 1 fires the value 900+i, 2 fires _Err(50+i)"""

    def __init__(self, i, cm):
        self.i = i
        self.cm = cm
        self.ncancel = 0
        self.ncanceller = 0
        Deferred.__init__(self, canceller=_Slot._canc)

    def _canc(self):
        self.ncanceller += 1
        if self.cm == 1:
            self.callback(900 + self.i)
        elif self.cm == 2:
            self.errback(_Err(50 + self.i))

    def cancel(self):
        self.ncancel += 1
        Deferred.cancel(self)


class _RealCtx:
    def __init__(self, k, cm, exc):
        self.k = k
        self.exc = exc          # class of the exceptions the templates raise themselves
        self.log = []
        self.ds = [_Slot(i, cm) for i in range(k)]

    def d(self, i):
        self.log.append(("await", i))
        return self.ds[i]

    def note(self, x):
        self.log.append(x)


class _SyncCtx:
    """outs[i]: None (no outcome yet) | ("ok", v) | ("err", v) | ("berr", v) | ("cancelled",)"""

    def __init__(self, k, outs, exc):
        self.k = k
        self.exc = exc
        self.outs = outs
        self.log = []
        self.stopped = None

    def s(self, i):
        if self.stopped is not None:
            raise _Stop()
        self.log.append(("await", i))
        o = self.outs[i]
        if o is None:
            self.stopped = i
            raise _Stop()
        if o[0] == "ok":
            return o[1]
        if o[0] == "err":
            raise _Err(o[1])
        if o[0] == "berr":
            raise _BErr(o[1])
        raise CancelledError()

    def note(self, x):
        if self.stopped is None:
            self.log.append(x)


def _expect(tmpl, k, outs, exc):
    """synchronous execution: (trace, final outcome or None if it blocks, slot it blocks on)"""
    ctx = _SyncCtx(k, outs, exc)
    try:
        r = ("ok", _SYNC[tmpl](ctx))
    except _Err as e:
        r = ("err", ("E", e.v))
    except _BErr as e:
        r = ("err", ("B", e.v))
    except CancelledError:
        r = ("err", ("C",))
    except _Stop:
        r = None
    if ctx.stopped is not None:
        r = None
    return ctx.log, r, ctx.stopped


def _tag(f):
    if not isinstance(f, Failure):
        return ("notfailure",)
    if isinstance(f.value, _Err):
        return ("E", f.value.v)
    if isinstance(f.value, _BErr):
        return ("B", f.value.v)
    if isinstance(f.value, CancelledError):
        return ("C",)
    return ("other", type(f.value).__name__)


def _pick(x, hi):
    for j in range(hi):
        if x == j:
            return j
    return hi


def _c2_ok(tmpl, k, L, p, c, c2, cm):
    # where a second cancel() is explored (see BOUNDS_TEXT)
    if c2 < 0:
        return True
    if c < 0 or c2 < c or c2 > L - p or tmpl < 2:
        return False
    if k <= B['c2full']:
        return True
    # canceller: try/except program no-op (it catches CancelledError and goes on), nested-call program
    # value-firing (it goes on with the value), try/finally program both (CancelledError takes it into
    # the await inside `finally`, a value lets it continue inside `try`)
    return p == 0 and L == k and (cm == 0 if tmpl == 2 else (cm == 1 if tmpl == 4 else True))


def _run(tmpl, flav, k, L, os_, ss, p, c, c2, cm, ek, ch=0):
    # ---- concretise every symbolic choice (one path per combination; the solver drives the split)
    tmpl = _pick(tmpl, 4)
    flav = _pick(flav, 4)
    k = _pick(k, B['k'])
    L = _pick(L, k)
    order = [_pick(os_[j], k - 1) for j in range(L)]      # len(os_) >= k is guaranteed by the callers' pre
    oks = [True if ss[j] else False for j in range(L)]
    p = _pick(p, L)
    c = -1 if c < 0 else _pick(c, L - p)
    c2 = -1 if c2 < 0 else _pick(c2, L - p)
    cm = _pick(cm, B['cm'])
    ek = _pick(ek, 2)
    slot_exc = _BErr if ek == 1 else _Err       # class of the awaited Deferreds' failures
    body_exc = _BErr if ek == 2 else _Err       # class of the exceptions raised by the templates

    ch = _pick(ch, 2)

    ctx = _RealCtx(k, cm, body_exc)
    outs = [None] * k
    exp_ncancel = [0] * k
    # Slot kind "fired, but one of its callbacks returned an unfired inner Deferred" (ch = 1: every
    # slot, ch = 2: every slot but the first): the awaited Deferred has been called, yet has no result
    # until the inner one fires; the schedule fires the inner one, and a cancel() of the returned
    # Deferred must reach it through the awaited Deferred's own cancel().
    target = list(ctx.ds)
    chained = [False] * k
    for i in range(k):
        if ch == 1 or (ch == 2 and i >= 1):
            chained[i] = True
            target[i] = _Slot(i, cm)
            ctx.ds[i].addCallback(lambda r, i=i: target[i])
            ctx.ds[i].callback(None)

    def fire(j):
        i = order[j]
        if oks[j]:
            outs[i] = ("ok", 100 + i)
            target[i].callback(100 + i)
        else:
            outs[i] = ("berr" if ek == 1 else "err", i)
            target[i].errback(slot_exc(i))

    for j in range(p):
        fire(j)
    fin = []
    try:
        res = _REAL[(tmpl, flav)](ctx)
    except (_Err, _BErr):
        return False          # the call must return a (failed) Deferred, never raise the body's exception
    if not isinstance(res, Deferred):
        return False
    res.addCallbacks(lambda r: fin.append(("ok", r)), lambda f: fin.append(("err", _tag(f))))

    def agree():
        elog, efin, _ = _expect(tmpl, k, outs, body_exc)
        if ctx.log != elog:
            return False
        if fin != ([] if efin is None else [efin]):
            return False
        for i in range(k):
            # the awaited Deferred's cancel() is called once per cancellation that finds the program
            # waiting on it; the canceller that runs is the one of the Deferred that has not fired yet
            if ctx.ds[i].ncancel != exp_ncancel[i] or target[i].ncanceller != exp_ncancel[i]:
                return False
            if chained[i] and (ctx.ds[i].ncanceller != 0 or target[i].ncancel != exp_ncancel[i]):
                return False
        return True

    if not agree():
        return False
    ncancelled = [0]

    def cancel():
        # cancel() of the returned Deferred: if the program is suspended, exactly the Deferred it is
        # waiting for is cancelled and the body sees that Deferred's outcome; the returned Deferred
        # fires only with the program's eventual outcome (agree() compares with the synchronous run)
        _, efin, waiting = _expect(tmpl, k, outs, body_exc)
        res.cancel()
        if efin is None:
            ncancelled[0] += 1
            exp_ncancel[waiting] += 1
            outs[waiting] = [("cancelled",), ("ok", 900 + waiting), ("err", 50 + waiting)][cm]
        return agree()

    for step in range(L - p + 1):
        if step == c:
            if not cancel():
                return False
        if step == c2:
            if not cancel():
                return False
        if step < L - p:
            if outs[order[p + step]] is not None:
                continue       # was cancelled meanwhile
            fire(p + step)
            if not agree():
                return False
    cover()
    if ncancelled[0] >= 1:
        cover("cancelled")
    if ncancelled[0] >= 2:
        cover("cancelled2")
    if fin and fin[0][0] == "err" and fin[0][1][0] == "B":
        cover("bexc")
    if ncancelled[0] >= 1 and ch > 0:
        cover("cancelled-chained")
    # (agree() held after the last step.)  Let a still suspended program run to its end: a suspended
    # generator with an await inside `finally` would complain at garbage collection; not part of the
    # checked behaviour
    for i in range(k):
        if not target[i].called:
            target[i].callback(0)
        target[i].addErrback(lambda f: None)
        ctx.ds[i].addErrback(lambda f: None)
    return True


# Schedule by scalars (symbolic lists are slow): L entries o0..o4 = distinct slot indices with outcome
# s0..s4 (True = value); unused entries pinned to 0 / False; the first p are fired before the function
# starts (in increasing index order); c = -1 never cancel, else cancel after c of the remaining L - p
# firings; c2 = -1 or the point (>= c) of a second cancel(); cm = canceller behaviour of the slots (only
# varied when there is a cancel).

def program(tmpl: int, flav: int, k: int, L: int, o0: int, o1: int, o2: int,
            s0: bool, s1: bool, s2: bool, p: int, c: int, c2: int, cm: int) -> bool:
    """
    pre: 0 <= tmpl <= 4 and 0 <= flav <= (4 if tmpl == 4 else 1)
    pre: 1 <= k <= 3 and k <= B['k'] and 0 <= L <= k and 0 <= p <= L and -1 <= c <= L - p
    pre: 0 <= cm <= B['cm'] and (c >= 0 or cm == 0)
    pre: -1 <= c2 <= L - p and _c2_ok(tmpl, k, L, p, c, c2, cm)
    pre: (0 <= o0 < k) if L > 0 else (o0 == 0 and not s0)
    pre: (0 <= o1 < k) if L > 1 else (o1 == 0 and not s1)
    pre: (0 <= o2 < k) if L > 2 else (o2 == 0 and not s2)
    pre: L < 2 or o1 != o0
    pre: L < 3 or (o2 != o0 and o2 != o1)
    pre: (p < 2 or o0 < o1) and (p < 3 or o1 < o2)
    post: _
    """
    # quick tier: the same scenario function with at most 3 slots (fewer symbolic parameters);
    # all failures are Exception subclasses here, see program_b
    return _run(tmpl, flav, k, L, (o0, o1, o2), (s0, s1, s2), p, c, c2, cm, 0)


def program5(tmpl: int, flav: int, k: int, L: int, o0: int, o1: int, o2: int, o3: int, o4: int,
             s0: bool, s1: bool, s2: bool, s3: bool, s4: bool, p: int, c: int, c2: int, cm: int) -> bool:
    """
    pre: 0 <= tmpl <= 4 and 0 <= flav <= (4 if tmpl == 4 else 1)
    pre: 1 <= k <= B['k'] and 0 <= L <= k and 0 <= p <= L and -1 <= c <= L - p
    pre: 0 <= cm <= B['cm'] and (c >= 0 or cm == 0) and (cm <= 1 or k <= 3)
    pre: -1 <= c2 <= L - p and _c2_ok(tmpl, k, L, p, c, c2, cm)
    pre: (0 <= o0 < k) if L > 0 else (o0 == 0 and not s0)
    pre: (0 <= o1 < k) if L > 1 else (o1 == 0 and not s1)
    pre: (0 <= o2 < k) if L > 2 else (o2 == 0 and not s2)
    pre: (0 <= o3 < k) if L > 3 else (o3 == 0 and not s3)
    pre: (0 <= o4 < k) if L > 4 else (o4 == 0 and not s4)
    pre: L < 2 or o1 != o0
    pre: L < 3 or (o2 != o0 and o2 != o1)
    pre: L < 4 or (o3 != o0 and o3 != o1 and o3 != o2)
    pre: L < 5 or (o4 != o0 and o4 != o1 and o4 != o2 and o4 != o3)
    pre: (p < 2 or o0 < o1) and (p < 3 or o1 < o2) and (p < 4 or o2 < o3) and (p < 5 or o3 < o4)
    post: _
    """
    return _run(tmpl, flav, k, L, (o0, o1, o2, o3, o4), (s0, s1, s2, s3, s4), p, c, c2, cm, 0)


def program_b(tmpl: int, flav: int, k: int, L: int, o0: int, o1: int, o2: int,
              s0: bool, s1: bool, s2: bool, p: int, ek: int) -> bool:
    """
    pre: 0 <= tmpl <= 4 and 0 <= flav <= (4 if tmpl == 4 else 1)
    pre: 1 <= ek <= (2 if tmpl == 2 or tmpl == 4 else 1)
    pre: 1 <= k <= 3 and k <= B['k'] and 1 <= L <= k and 0 <= p <= L
    pre: (0 <= o0 < k) if L > 0 else (o0 == 0 and not s0)
    pre: (0 <= o1 < k) if L > 1 else (o1 == 0 and not s1)
    pre: (0 <= o2 < k) if L > 2 else (o2 == 0 and not s2)
    pre: L < 2 or o1 != o0
    pre: L < 3 or (o2 != o0 and o2 != o1)
    pre: (p < 2 or o0 < o1) and (p < 3 or o1 < o2)
    pre: (not s0) or (L > 1 and not s1) or (L > 2 and not s2)
    post: _
    """
    # quick tier, failures that are not Exceptions (ek = 1: the awaited Deferreds' failures, ek = 2: the
    # exceptions raised by the template itself); runs without cancellation containing a failing slot
    return _run(tmpl, flav, k, L, (o0, o1, o2), (s0, s1, s2), p, -1, -1, 0, ek)


def program5_b(tmpl: int, flav: int, k: int, L: int, o0: int, o1: int, o2: int, o3: int, o4: int,
               s0: bool, s1: bool, s2: bool, s3: bool, s4: bool, p: int, c: int, c2: int, cm: int, ek: int) -> bool:
    """
    pre: 0 <= tmpl <= 4 and 0 <= flav <= (4 if tmpl == 4 else 1)
    pre: 1 <= ek <= (2 if tmpl == 2 or tmpl == 4 else 1)
    pre: 1 <= k <= B['k'] and 1 <= L <= k and 0 <= p <= L and -1 <= c <= L - p
    pre: c < 0 or k <= B['ekfull']
    pre: 0 <= cm <= B['cm'] and (c >= 0 or cm == 0) and (cm <= 1 or k <= 3)
    pre: -1 <= c2 <= L - p and _c2_ok(tmpl, k, L, p, c, c2, cm)
    pre: (0 <= o0 < k) if L > 0 else (o0 == 0 and not s0)
    pre: (0 <= o1 < k) if L > 1 else (o1 == 0 and not s1)
    pre: (0 <= o2 < k) if L > 2 else (o2 == 0 and not s2)
    pre: (0 <= o3 < k) if L > 3 else (o3 == 0 and not s3)
    pre: (0 <= o4 < k) if L > 4 else (o4 == 0 and not s4)
    pre: L < 2 or o1 != o0
    pre: L < 3 or (o2 != o0 and o2 != o1)
    pre: L < 4 or (o3 != o0 and o3 != o1 and o3 != o2)
    pre: L < 5 or (o4 != o0 and o4 != o1 and o4 != o2 and o4 != o3)
    pre: (p < 2 or o0 < o1) and (p < 3 or o1 < o2) and (p < 4 or o2 < o3) and (p < 5 or o3 < o4)
    pre: (not s0) or (L > 1 and not s1) or (L > 2 and not s2) or (L > 3 and not s3) or (L > 4 and not s4)
    post: _
    """
    return _run(tmpl, flav, k, L, (o0, o1, o2, o3, o4), (s0, s1, s2, s3, s4), p, c, c2, cm, ek)


def program_c(tmpl: int, flav: int, k: int, o0: int, o1: int, o2: int,
              s0: bool, s1: bool, s2: bool, c: int, ch: int) -> bool:
    """
    pre: 0 <= tmpl <= 4 and 0 <= flav <= (4 if tmpl == 4 else 1)
    pre: 1 <= ch <= 2 and 1 <= k <= 3 and k <= B['k'] and -1 <= c <= k
    pre: 0 <= o0 < k
    pre: (0 <= o1 < k) if k > 1 else (o1 == 0 and not s1)
    pre: (0 <= o2 < k) if k > 2 else (o2 == 0 and not s2)
    pre: k < 2 or o1 != o0
    pre: k < 3 or (o2 != o0 and o2 != o1)
    post: _
    """
    # quick tier, awaited Deferreds of the kind "fired, but a callback returned an unfired Deferred":
    # all k slots scheduled, none resolved before the function starts, one cancellation point or none,
    # no-op cancellers
    return _run(tmpl, flav, k, k, (o0, o1, o2), (s0, s1, s2), 0, c, -1, 0, 0, ch)


def program5_c(tmpl: int, flav: int, k: int, L: int, o0: int, o1: int, o2: int,
               s0: bool, s1: bool, s2: bool, p: int, c: int, c2: int, cm: int, ch: int) -> bool:
    """
    pre: 0 <= tmpl <= 4 and 0 <= flav <= (4 if tmpl == 4 else 1)
    pre: 1 <= ch <= 2 and 1 <= k <= 3 and 0 <= L <= k and 0 <= p <= L and -1 <= c <= L - p
    pre: 0 <= cm <= B['cm'] and (c >= 0 or cm == 0)
    pre: -1 <= c2 <= L - p and _c2_ok(tmpl, k, L, p, c, c2, cm)
    pre: (0 <= o0 < k) if L > 0 else (o0 == 0 and not s0)
    pre: (0 <= o1 < k) if L > 1 else (o1 == 0 and not s1)
    pre: (0 <= o2 < k) if L > 2 else (o2 == 0 and not s2)
    pre: L < 2 or o1 != o0
    pre: L < 3 or (o2 != o0 and o2 != o1)
    pre: (p < 2 or o0 < o1) and (p < 3 or o1 < o2)
    post: _
    """
    # thorough tier: the same slot kind with every schedule, pre-fired prefix (the inner Deferred fired
    # before the function starts), canceller and second cancel for k <= 3
    return _run(tmpl, flav, k, L, (o0, o1, o2), (s0, s1, s2), p, c, c2, cm, 0, ch)


_SEQ5 = ("k == 5 and o0 == 0 and (L < 2 or o1 == 1) and (L < 3 or o2 == 2) and (L < 4 or o3 == 3) "
         "and (L < 5 or o4 == 4)")


def _shards(tier):
    out = []
    for (t, f) in PROGRAMS:
        prog = ("tmpl == %d" % t, "flav == %d" % f)
        two = t >= 2          # programs with a second cancel()
        if tier == "quick":
            if two:
                out.append(prog + ("p == 0", "c2 < 0"))
                if t == 3:
                    out.append(prog + ("p == 0", "c2 >= 0", "cm == 0"))
                    out.append(prog + ("p == 0", "c2 >= 0", "cm >= 1"))
                else:
                    out.append(prog + ("p == 0", "c2 >= 0"))
            else:
                out.append(prog + ("p == 0",))
            out.append(prog + ("p > 0",))
        else:
            if two:
                out.append(prog + ("k <= 3", "c2 < 0"))
                out.append(prog + ("k <= 3", "c2 >= 0", "c2 == c"))
                out.append(prog + ("k <= 3", "c2 > c", "c >= 0"))
            else:
                out.append(prog + ("k <= 3",))
            for o in range(4):
                out.append(prog + ("k == 4", "o0 == %d" % o))
            out.append(prog + (_SEQ5,))
    return out


def _shards_b(tier):
    out = []
    for (t, f) in PROGRAMS:
        prog = ("tmpl == %d" % t, "flav == %d" % f)
        if tier == "quick":
            out.append(prog)
        else:
            out.append(prog + ("k <= 3",))
            out.append(prog + ("k == 4",))
            out.append(prog + (_SEQ5,))
    return out


_LABELS = ("end", "cancelled", "cancelled2")
HARNESSES = [H(program, shards=_shards, timeout={"quick": 120}, tiers=("quick",), labels=_LABELS),
             H(program_b, shards=_shards_b, timeout={"quick": 120}, tiers=("quick",), labels=("end", "bexc")),
             H(program_c, shards=lambda tier: [("tmpl == %d" % t, "flav == %d" % f) for (t, f) in PROGRAMS],
               timeout={"quick": 120}, tiers=("quick",), labels=("end", "cancelled-chained")),
             H(program5, shards=_shards, timeout={"thorough": 1500}, tiers=("thorough",), labels=_LABELS),
             H(program5_b, shards=_shards_b, timeout={"thorough": 1500}, tiers=("thorough",),
               labels=("end", "bexc")),
             H(program5_c, shards=lambda tier: [("tmpl == %d" % t, "flav == %d" % f, "ch == %d" % h)
                                                for (t, f) in PROGRAMS for h in (1, 2)],
               timeout={"thorough": 1500}, tiers=("thorough",), labels=("end", "cancelled-chained"))]


def _v(tmpl, flav, k, order, oks, p, c, cm, c2=-1, slots=3, ek=None):
    o = list(order) + [0] * (slots - len(order))
    s = [bool(x) for x in oks] + [False] * (slots - len(oks))
    return (tmpl, flav, k, len(order)) + tuple(o) + tuple(s) + (p, c, c2, cm) + (() if ek is None else (ek,))


_VEC = [
    dict(a=(0, 0, 3, [0, 1, 2], [1, 1, 1], 3, -1, 0)), dict(a=(0, 1, 3, [2, 0, 1], [1, 1, 0], 1, -1, 0)),
    dict(a=(1, 0, 3, [1, 0], [1, 1], 0, 1, 1)), dict(a=(1, 1, 3, [0, 2], [1, 1], 1, 0, 1)),
    dict(a=(2, 0, 3, [0, 1, 2], [0, 1, 0], 0, 1, 0)), dict(a=(2, 1, 3, [2, 1], [0, 0], 2, 0, 1)),
    dict(a=(3, 0, 3, [0], [0], 0, 1, 0)), dict(a=(3, 1, 3, [1, 0, 2], [1, 1, 1], 0, 0, 1)),
    dict(a=(4, 0, 3, [0, 1, 2], [0, 1, 1], 1, 0, 0)), dict(a=(4, 1, 3, [1, 0, 2], [1, 0, 1], 0, 1, 1)),
    dict(a=(4, 2, 3, [0, 1, 2], [1, 1, 1], 0, 0, 0)), dict(a=(4, 3, 3, [2, 1, 0], [1, 1, 1], 0, 2, 1)),
    dict(a=(4, 4, 3, [0], [1], 0, 1, 0)), dict(a=(0, 0, 1, [], [], 0, 0, 1)),
    dict(a=(2, 0, 3, [0, 1, 2], [1, 1, 1], 0, 0, 0), c2=0), dict(a=(2, 1, 3, [2, 1, 0], [1, 0, 1], 0, 1, 0), c2=2),
    dict(a=(3, 0, 3, [1, 0, 2], [1, 1, 1], 0, 0, 0), c2=1), dict(a=(4, 0, 3, [0, 1, 2], [1, 1, 1], 0, 0, 1), c2=0),
    dict(a=(4, 2, 3, [2, 0, 1], [0, 1, 1], 0, 1, 1), c2=1), dict(a=(4, 4, 3, [0, 1, 2], [1, 1, 0], 0, 0, 1), c2=3),
    dict(a=(0, 0, 3, [0, 1, 2], [1, 0, 1], 3, -1, 0), ek=1), dict(a=(1, 1, 3, [1, 0, 2], [0, 1, 1], 0, -1, 0), ek=1),
    dict(a=(2, 0, 3, [0, 1, 2], [1, 0, 1], 1, -1, 0), ek=2), dict(a=(2, 1, 3, [1, 0], [0, 1], 0, -1, 0), ek=2),
    dict(a=(3, 0, 3, [0, 1, 2], [0, 1, 1], 0, -1, 0), ek=1), dict(a=(4, 0, 3, [0, 1, 2], [0, 1, 1], 0, -1, 0), ek=2),
    dict(a=(4, 1, 3, [1, 0, 2], [0, 1, 1], 2, -1, 0), ek=2), dict(a=(4, 2, 3, [2, 1, 0], [0, 1, 1], 0, -1, 0), ek=1),
    dict(a=(4, 3, 3, [0, 1, 2], [0, 0, 1], 3, -1, 0), ek=2), dict(a=(4, 4, 3, [0, 1, 2], [0, 0, 1], 0, -1, 0), ek=2),
]
def _vb(d):
    (tmpl, flav, k, order, oks, p, c, cm) = d["a"]
    o = list(order) + [0] * (3 - len(order))
    sk = [bool(x) for x in oks] + [False] * (3 - len(oks))
    return (tmpl, flav, k, len(order)) + tuple(o) + tuple(sk) + (p, d["ek"])


def _vc(tmpl, flav, k, order, oks, c, ch):
    o = list(order) + [0] * (3 - len(order))
    sk = [bool(x) for x in oks] + [False] * (3 - len(oks))
    return (tmpl, flav, k) + tuple(o) + tuple(sk) + (c, ch)


_VECC = [_vc(0, 0, 3, [0, 1, 2], [1, 1, 1], 0, 1), _vc(1, 1, 3, [2, 0, 1], [1, 0, 1], 1, 2),
         _vc(2, 0, 3, [1, 0, 2], [0, 1, 1], 2, 1), _vc(2, 1, 2, [1, 0], [1, 1], 0, 1),
         _vc(3, 0, 3, [0, 2, 1], [1, 1, 1], 1, 2), _vc(3, 1, 3, [0, 1, 2], [1, 1, 1], -1, 1),
         _vc(4, 0, 3, [0, 1, 2], [1, 0, 1], 1, 1), _vc(4, 1, 3, [2, 1, 0], [1, 1, 1], 3, 2),
         _vc(4, 2, 3, [0, 1, 2], [1, 1, 1], 0, 2), _vc(4, 3, 3, [1, 0, 2], [1, 1, 1], 1, 1),
         _vc(4, 4, 3, [0, 1, 2], [0, 1, 1], 0, 1), _vc(0, 1, 1, [0], [1], 0, 1)]
VECTORS = {"program_c": _VECC,
           "program5_c": [v[:3] + (v[2],) + v[3:9] + (0, v[9], -1, 0, v[10]) for v in _VECC],
           "program": [_v(*d["a"], c2=d.get("c2", -1)) for d in _VEC if "ek" not in d],
           "program_b": [_vb(d) for d in _VEC if "ek" in d],
           "program5": [_v(*d["a"], c2=d.get("c2", -1), slots=5) for d in _VEC[::3] if "ek" not in d],
           "program5_b": [_v(*d["a"], c2=d.get("c2", -1), slots=5, ek=d["ek"]) for d in _VEC if "ek" in d]}
