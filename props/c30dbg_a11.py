from vlib import lbytes
from vlib.api import H, cover
PROPERTY="C30"; LEVEL="model_checking"; ENCODED=[]; BOUNDS={"quick":{}, "thorough":{}}; B={}


def d1(n: int) -> bool:
    """
    pre: -1000000 < n < 0
    post: _
    """
    s = lbytes._fmt("%d", (n,))
    cover()
    return len(s) >= 2


def d2(n: int) -> bool:
    """
    pre: 0 < n < 1000000
    post: _
    """
    s = "-" + lbytes._fmt_int_arith(n, 10, False, 0, False)
    v = lbytes.l_int(lbytes.LBytes(s))
    cover()
    return v == -n


def d3(n: int) -> bool:
    """
    pre: 0 < n < 1000000
    post: _
    """
    s = "-" + lbytes._fmt_int_arith(n, 10, False, 0, False)
    s2 = s.strip(" \t")
    cover()
    return len(s2) == len(s)


HARNESSES=[H(d1), H(d2), H(d3)]

from vlib.lift import b, t
import props.c30 as C


def d4(n: int) -> bool:
    """
    pre: -1000000 < n < 0
    post: _
    """
    C._limits(255, 65535)
    a = C.L.Integer()
    enc = a.toString(n)
    back = a.fromString(enc)
    cover()
    return back == n


def d5(n: int) -> bool:
    """
    pre: -1000000 < n < 0
    post: _
    """
    a = C.L.Integer()
    enc = a.toString(n)
    e = t(enc)
    body = e[1:]
    cover()
    if e[:1] != "-":
        return False
    if len(body) == 0 or (len(body) > 1 and body[0] == "0"):
        return False
    v = C._digits_value(body)
    return v is not None and v == -n


HARNESSES=[H(d4), H(d5)]


def d6(n: int) -> bool:
    """
    pre: -1000000 < n < 0
    post: _
    """
    s = lbytes._fmt("%d", (n,))
    cover()
    v = C._digits_value(s[1:])
    return v == -n


def d7(n: int) -> bool:
    """
    pre: -1000000 < n < 0
    post: _
    """
    m = -n
    s = lbytes._fmt_int_arith(m, 10, False, 0, False)
    cover()
    v = C._digits_value(s)
    return v == m


def d8(n: int) -> bool:
    """
    pre: 0 < n < 1000000
    post: _
    """
    s = lbytes._fmt_int_arith(n, 10, False, 0, False)
    cover()
    v = C._digits_value(s)
    return v == n


HARNESSES=[H(d6), H(d7), H(d8)]
