"""C09 task.Clock: scheduled calls run exactly once, in time order, within the advance that reaches them."""
import os
import sys
import warnings

from twisted.internet import error
from twisted.internet.task import Clock

from vlib.api import H, cover

# CrossHair forks every float argument into finite / nan / +inf / -inf (4^9 argument classes here); timer
# arguments are finite by contract, so only the finite (real-valued) class is explored.  Stated in OUTSIDE.
if os.environ.get("VERIF_MODE") == "sym":
    os.environ["CROSSHAIR_ONLY_FINITE_FLOATS"] = "1"
    warnings.filterwarnings("ignore", message=".*CROSSHAIR_ONLY_FINITE_FLOATS.*")
    if "crosshair" in sys.modules:
        # RealBasedSymbolicFloat.__init__ caps every path's verdict at UNKNOWN ("reals are not floats").  That
        # caveat is exactly the one stated in OUTSIDE (exact real arithmetic), so the cap is lifted here and
        # "confirmed" means: confirmed over all paths for real-valued times.
        from crosshair.statespace import StateSpace as _SS
        _SS.cap_result_at_unknown = lambda self: None

PROPERTY = "C09"
LEVEL = "model_checking"
ENCODED = ["twisted.internet.task:Clock.callLater", "twisted.internet.task:Clock.advance",
           "twisted.internet.task:Clock._sortCalls", "twisted.internet.task:Clock.getDelayedCalls",
           "twisted.internet.task:Clock.pump", "twisted.internet.task:Clock.seconds",
           "twisted.internet.base:DelayedCall.__init__", "twisted.internet.base:DelayedCall.getTime",
           "twisted.internet.base:DelayedCall.cancel", "twisted.internet.base:DelayedCall.reset",
           "twisted.internet.base:DelayedCall.delay", "twisted.internet.base:DelayedCall.activate_delay",
           "twisted.internet.base:DelayedCall.active"]
BOUNDS = {"quick": {"n": 3}, "thorough": {"n": 4}}
B = {}
BOUNDS_TEXT = ("hist3/hist4: n calls scheduled at time 0 with symbolic real delays >= 0 (n = 3 quick; 4 thorough, 5 for the "
               "op-free plain5), ONE modification: none / cancel(i) / reset(i, s >= 0) / delay(i, any real s) / "
               "callLater(s >= 0) of a further call; performed at top level before the first advance, between the "
               "two advances, after both, or from inside running call j (every j, including j == i); two symbolic "
               "advances >= 0 (Clock.pump of both, or two Clock.advance calls when the modification is between them). "
               "two_mods: 2 calls, a reset/delay before the first advance followed by a cancel/reset/delay from inside "
               "a running call or between the advances (quick: both on the same call; thorough: any targets)")
OUTSIDE = ["non-finite times (inf/nan arguments are not explored)",
           "float rounding: times are exact reals (the driver pins CrossHair's real-number float model); "
           "results hold for times on which float arithmetic is exact (e.g. dyadic)",
           "more than two modifications per history (two only in two_mods); more than n+1 calls; negative callLater delays / negative "
           "reset arguments / negative advances",
           "tie order between calls of which one was rescheduled (only checked: never-rescheduled calls with equal "
           "times run in creation order)",
           "exceptions raised by a scheduled function (Clock.advance propagates them; not modelled)"]
ASSUMPTIONS = ["the trace oracle keeps its own clock (sum of advances) and its own scheduled times "
               "(creation: now+delay, reset: now+s, delay: +=s); it never reads DelayedCall.time/delayed_time "
               "except through getTime() to compare"]
EXPLANATION = ("symbolic histories on a real task.Clock (n calls with symbolic delays, one symbolic modification at a "
               "symbolic place incl. inside a running call, two symbolic advances) validated step by step by a trace "
               "oracle: every run is of a pending call whose time is reached and minimal among pending calls, nothing "
               "reached is left pending after an advance, getDelayedCalls() == pending set")

PENDING, RAN, CANCELLED = 0, 1, 2


class _Oracle:
    """Trace validator (not a re-implementation of advance): it is told what happened and checks each step
    against its own book-keeping of scheduled times."""

    def __init__(self, clock):
        self.clock = clock
        self.now = 0.0
        self.t = []          # scheduled time per call index (oracle's own arithmetic)
        self.state = []
        self.resched = []
        self.dcs = []
        self.ok = True
        self.in_advance = False
        self.moved_earlier = False
        self.last_run_time = None
        self.nruns = 0
        self.ran_in_adv = []   # index of the advance in which each call ran (or None)
        self.adv_no = 0

    def fail(self):
        self.ok = False

    # -- events ---------------------------------------------------------------------------
    def created(self, dc, delay):
        self.dcs.append(dc)
        self.t.append(self.now + delay)
        self.state.append(PENDING)
        self.resched.append(False)
        self.ran_in_adv.append(None)
        return len(self.dcs) - 1

    def on_run(self, idx):
        if not self.in_advance:
            self.fail()
        if self.state[idx] != PENDING:
            self.fail()         # second run, or run after cancel
            return
        ti = self.t[idx]
        if not (ti <= self.now):
            self.fail()         # ran before its time
        if self.clock.seconds() != self.now:
            self.fail()
        for j in range(len(self.t)):
            if j == idx or self.state[j] != PENDING:
                continue
            tj = self.t[j]
            if tj < ti:
                self.fail()     # an earlier pending call was overtaken
            elif j < idx and not self.resched[j] and not self.resched[idx] and tj == ti:
                self.fail()     # same time, never rescheduled: creation order
        if self.last_run_time is not None and not self.moved_earlier and ti < self.last_run_time:
            self.fail()         # run log not in nondecreasing scheduled time
        self.last_run_time = ti
        self.state[idx] = RAN
        self.ran_in_adv[idx] = self.adv_no
        self.nruns += 1
        dc = self.dcs[idx]
        if not dc.called or dc.active():
            self.fail()
        if any(c is dc for c in self.clock.getDelayedCalls()):
            self.fail()

    def begin_advance(self, amount):
        self.now = self.now + amount
        self.in_advance = True
        self.adv_no += 1

    def end_advance(self):
        self.in_advance = False
        if self.clock.seconds() != self.now:
            self.fail()
        for j in range(len(self.t)):
            if self.state[j] == PENDING and self.t[j] <= self.now:
                self.fail()     # reached but not run within this advance
        self.check_pending()

    def check_pending(self):
        calls = self.clock.getDelayedCalls()
        npend = 0
        for j in range(len(self.t)):
            dc = self.dcs[j]
            if self.state[j] == PENDING:
                npend += 1
                if not any(c is dc for c in calls):
                    self.fail()
                if not dc.active():
                    self.fail()
                if dc.getTime() != self.t[j]:
                    self.fail()
            else:
                if dc.active():
                    self.fail()
                if any(c is dc for c in calls):
                    self.fail()
        if len(calls) != npend:
            self.fail()

    # -- the one modification --------------------------------------------------------------
    def modify(self, op, target, arg, mkfn):
        if op == 0:
            return
        if op == 4:
            idx = len(self.dcs)
            dc = self.clock.callLater(arg, mkfn(idx))
            self.created(dc, arg)
            self.check_pending()
            return
        dc = self.dcs[target]
        st = self.state[target]
        try:
            if op == 1:
                dc.cancel()
            elif op == 2:
                dc.reset(arg)
            else:
                dc.delay(arg)
            raised = PENDING
        except error.AlreadyCalled:
            raised = RAN
        except error.AlreadyCancelled:
            raised = CANCELLED
        if raised != st:
            self.fail()
        if st == PENDING:
            if op == 1:
                self.state[target] = CANCELLED
            elif op == 2:
                self.t[target] = self.now + arg
                self.resched[target] = True
            else:
                self.t[target] = self.t[target] + arg
                self.resched[target] = True
                if arg < 0:
                    self.moved_earlier = True
        if not self.in_advance:
            self.check_pending()


def _history(ds, mods, a1, a2):
    # mods: list of (op, target, where, arg); where: i < n inside running call i, n before the first
    # advance, n+1 between the two advances, n+2 after both
    n = len(ds)
    clock = Clock()
    o = _Oracle(clock)
    done = [False] * len(mods)

    def at(place):
        for k in range(len(mods)):
            op, target, where, arg = mods[k]
            if where == place and not done[k]:
                done[k] = True
                o.modify(op, target, arg, mkfn)

    def mkfn(i):
        def fire():
            o.on_run(i)
            if i < n:
                at(i)
        return fire

    for i in range(n):
        o.created(clock.callLater(ds[i], mkfn(i)), ds[i])
    o.check_pending()
    at(n)
    if any(m[2] == n + 1 for m in mods):
        o.begin_advance(a1)
        clock.advance(a1)
        o.end_advance()
        at(n + 1)
        o.begin_advance(a2)
        clock.advance(a2)
        o.end_advance()
    else:
        def timings():
            for a in (a1, a2):
                o.begin_advance(a)
                yield a
                o.end_advance()
        clock.pump(timings())
        if o.adv_no != 2 or o.in_advance:
            return False
    at(n + 2)
    cover()
    if not o.ok:
        return False
    # exactly once iff not cancelled first and reached ("reached but still pending" is checked at the end of
    # every advance by end_advance; a top-level modification after the last advance may legitimately leave a
    # reached call pending until the next advance)
    for j in range(len(o.t)):
        if o.state[j] == RAN and o.ran_in_adv[j] is None:
            return False
    if sum(1 for s in o.state if s == RAN) != o.nruns:
        return False
    if o.nruns + sum(1 for s in o.state if s != RAN) != len(o.dcs):
        return False
    return True


def hist3(d0: float, d1: float, d2: float, op: int, target: int, where: int, arg: float,
          a1: float, a2: float) -> bool:
    """
    pre: d0 >= 0 and d1 >= 0 and d2 >= 0 and a1 >= 0 and a2 >= 0
    pre: 0 <= op <= 4 and 0 <= target < 3 and 0 <= where <= 5
    pre: (op == 3) or arg >= 0
    pre: (op != 0 and op != 1) or arg == 0
    pre: (op != 0 and op != 4) or target == 0
    pre: op != 0 or where == 3
    post: _
    """
    return _history([d0, d1, d2], [(op, target, where, arg)], a1, a2)


def hist4(d0: float, d1: float, d2: float, d3: float, op: int, target: int, where: int, arg: float,
          a1: float, a2: float) -> bool:
    """
    pre: d0 >= 0 and d1 >= 0 and d2 >= 0 and d3 >= 0 and a1 >= 0 and a2 >= 0
    pre: 0 <= op <= 4 and 0 <= target < 4 and 0 <= where <= 6
    pre: (op == 3) or arg >= 0
    pre: (op != 0 and op != 1) or arg == 0
    pre: (op != 0 and op != 4) or target == 0
    pre: op != 0 or where == 4
    post: _
    """
    return _history([d0, d1, d2, d3], [(op, target, where, arg)], a1, a2)


def plain5(d0: float, d1: float, d2: float, d3: float, d4: float, a1: float, a2: float) -> bool:
    """
    pre: d0 >= 0 and d1 >= 0 and d2 >= 0 and d3 >= 0 and d4 >= 0 and a1 >= 0 and a2 >= 0
    post: _
    """
    return _history([d0, d1, d2, d3, d4], [], a1, a2)


def two_mods(d0: float, d1: float, opA: int, tgA: int, argA: float, opB: int, tgB: int, whB: int, argB: float,
             a1: float, a2: float) -> bool:
    """
    pre: d0 >= 0 and d1 >= 0 and a1 >= 0 and a2 >= 0
    pre: 2 <= opA <= 3 and 0 <= tgA < 2 and (opA == 3 or argA >= 0)
    pre: 1 <= opB <= 3 and 0 <= tgB < 2 and (opB == 3 or argB >= 0) and (opB != 1 or argB == 0)
    pre: whB == 0 or whB == 1 or whB == 3
    post: _
    """
    # modification A (reset/delay) before the first advance, then modification B (cancel/reset/delay) from
    # inside a running call or between the advances: accumulation of delayed_time / activate_delay
    return _history([d0, d1], [(opA, tgA, 2, argA), (opB, tgB, whB, argB)], a1, a2)


def _shards(n):
    out = [("op == 0",)]
    for op in (1, 2, 3, 4):
        for w in range(n + 3):
            base = ("op == %d" % op, "where == %d" % w)
            if w in (n, n + 1) and op != 4 and op != 1:
                # top-level reset/delay with a symbolic amount: largest classes, split by target
                for tg in range(n):
                    out.append(base + ("target == %d" % tg,))
            elif w == n and op == 4:
                out.append(base + ("d0 <= d1",))
                out.append(base + ("d0 > d1",))
            else:
                out.append(base)
    return out


HARNESSES = [
    H(hist3, shards=_shards(3), timeout={"quick": 100, "thorough": 300}, tiers=("quick", "thorough")),
    H(two_mods, shards=lambda tier: [("opA == %d" % x, "opB == %d" % y, "whB == %d" % w) + tg
                                     for x in (2, 3) for y in (1, 2, 3) for w in (0, 1, 3)
                                     for tg in ([("tgA == tgB",)] if tier == "quick" else
                                                [("tgA == tgB",), ("tgA != tgB",)])],
      timeout={"quick": 100, "thorough": 300},
      note="quick: both modifications hit the same call (accumulated delayed_time); thorough: any targets"),
    H(hist4, shards=_shards(4), timeout={"quick": 60, "thorough": 1200}, tiers=("thorough",)),
    H(plain5, timeout={"quick": 60, "thorough": 1200}, tiers=("thorough",)),
]

VECTORS = {
    "two_mods": [
        (1.0, 2.0, 2, 0, 3.0, 3, 0, 3, -1.0, 1.0, 3.0),   # reset later, then negative delay of the same call
        (1.0, 2.0, 3, 1, 1.0, 3, 1, 0, 0.5, 1.0, 3.0),    # delay twice (second from inside call 0)
        (1.0, 2.0, 3, 0, -0.5, 2, 0, 1, 0.0, 2.0, 0.0),
    ],
    "hist3": [
        (1.0, 1.0, 2.0, 0, 0, 3, 0.0, 1.0, 1.0),
        (1.0, 2.0, 3.0, 1, 2, 0, 0.0, 1.5, 2.0),       # call 0 cancels call 2
        (1.0, 2.0, 3.0, 2, 2, 0, 0.0, 1.0, 0.0),       # call 0 resets call 2 to "now": runs in the same advance
        (1.0, 2.0, 3.0, 3, 0, 3, 2.5, 2.0, 2.0),       # delay call 0 past the others
        (3.0, 2.0, 1.0, 3, 0, 4, -1.5, 1.0, 1.0),      # negative delay between advances
        (1.0, 2.0, 3.0, 4, 0, 1, 0.0, 2.0, 1.0),       # call 1 schedules a new call for "now"
        (1.0, 1.0, 1.0, 1, 1, 1, 0.0, 1.0, 0.0),       # call cancels itself while running: AlreadyCalled
        (0.0, 0.0, 0.5, 2, 1, 5, 4.0, 0.25, 0.25),     # reset after it ran: AlreadyCalled
    ],
}
