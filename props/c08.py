"""C08 reactor timed calls: run once, on time, in time order (ReactorBase timer heap)."""
from twisted.internet import error
from twisted.internet.base import DelayedCall, ReactorBase
from twisted.logger import globalLogPublisher

from vlib import api
from vlib.api import H, cover

PROPERTY = "C08"
LEVEL = "model_checking"
ENCODED = ["twisted.internet.base:ReactorBase.callLater",
           "twisted.internet.base:ReactorBase._insertNewDelayedCalls",
           "twisted.internet.base:ReactorBase.runUntilCurrent",
           "twisted.internet.base:ReactorBase.timeout",
           "twisted.internet.base:ReactorBase.getDelayedCalls",
           "twisted.internet.base:ReactorBase._moveCallLaterSooner",
           "twisted.internet.base:ReactorBase._cancelCallLater",
           "twisted.internet.base:DelayedCall.cancel", "twisted.internet.base:DelayedCall.reset",
           "twisted.internet.base:DelayedCall.delay", "twisted.internet.base:DelayedCall.activate_delay",
           "twisted.internet.base:DelayedCall.getTime", "twisted.internet.base:DelayedCall.active",
           "twisted.internet.base:DelayedCall.__le__", "twisted.internet.base:DelayedCall.__lt__"]
BOUNDS = {"quick": {"n": 3, "ni": 3, "n2": 2, "tot": 3, "tot_in": 2, "m": 1, "nd": 1, "ks": 7},
          "thorough": {"n": 4, "ni": 4, "n2": 3, "tot": 4, "tot_in": 3, "m": 2, "nd": 1, "ks": 7}}
B = {}
PADS = 51           # concrete cancelled far-future heap entries used to reach the compaction branch
FAR = 1.0e9         # their time; all symbolic times and the clock stay below it in step_compact
BOUNDS_TEXT = ("all clock values, delays and arguments are symbolic reals with |x| <= 1e6 (delays >= 0).  history: "
               "from the empty reactor 2..n callLater, optional timeout() (moves the calls into the heap), ONE "
               "modification (cancel i | reset i r>=0 | delay i r of any sign | callLater r | none; from inside a call "
               "also callLater(r2) followed by reset i r / delay i r, with r2 == 0 when more than n2 calls) done from outside "
               "(n calls) or from inside any one of the running calls (<= ni calls), then two symbolic clock advances "
               "each followed by runUntilCurrent and timeout().  Inductive steps from an arbitrary invariant-"
               "satisfying state of k heap entries + m <= B.m staged entries, any cancelled flags, at most nd entry "
               "with a pending positive delayed_time, any clock: step_op (k+m <= tot): one of timeout / cancel i / "
               "reset i r / delay i r / callLater r; step_run (k+m <= tot, or <= tot_in when a call acts): one "
               "runUntilCurrent in which call `who` performs cancel/reset/delay/callLater/callLater-then-cancel, or the "
               "two-action sequence callLater(r2) then reset/delay, on entry tgt (itself included); step_sift: reset/delay on any entry of a heap of 4..ks active entries; "
               "step_compact: step_run with 51 extra cancelled far-future heap entries and _cancellations off by "
               "0 or 1, so that both outcomes of the compaction test occur")
OUTSIDE = ["float rounding: times are exact reals (CrossHair real-based float model, finite values); the claim "
           "holds for times on which float arithmetic is exact (dyadic times of moderate magnitude)",
           "inductive pre-states with more entries than the bounds, or more than nd entries carrying a positive "
           "delayed_time; more than one modification per history / per runUntilCurrent; quick tier: calls that "
           "act from inside runUntilCurrent are checked on <= 2-entry inductive states (3-call histories cover "
           "3 entries from the empty reactor)",
           "reset() with a negative argument; delay() with a negative argument applied to a call that was "
           "scheduled during the running iteration (it may then be due before calls that still run first)",
           "the compaction thresholds (50, half the heap) are literals in runUntilCurrent: compaction is "
           "reached by padding the heap with 51 concrete cancelled entries whose time (1e9) is beyond the clock",
           "exact value of _cancellations (only `<= number of cancelled entries` is an invariant; it drifts below "
           "when compaction happens while a cancelled call is still staged); tie order among equal times",
           "callFromThread queue (C13), system events, real reactors' doIteration/sleep"]
ASSUMPTIONS = ["ReactorBase subclass overriding only seconds() (harness clock), installWaker() and wakeUp() "
               "(no-ops); everything else is the real ReactorBase/DelayedCall; ReactorBase.__init__ runs "
               "outside the symbolic tracer (it is input independent)",
               "representation invariant assumed by the inductive steps and re-established by every step: "
               "_pendingTimedCalls is a binary min-heap on .time; no entry of heap/staging list has called "
               "set; uncancelled entries have delayed_time >= 0; entries are distinct; _cancellations <= "
               "number of cancelled entries in heap + staging list; model and real calls agree on active() and "
               "getTime(); shown reachable from the empty reactor by the history harness",
               "pre-existing DelayedCalls of inductive states are built with the DelayedCall constructor exactly "
               "as callLater builds them (cancelled ones as cancel() leaves them)",
               "pure-Python heapq under the solver (CrossHair substitutes it for _heapq); the C heapq in replay"]
EXPLANATION = ("real ReactorBase timer heap run on symbolic real times: short histories from the empty reactor "
               "and one-operation inductive steps from an arbitrary invariant-satisfying heap (incl. deep "
               "sift-up and the compaction branch), compared against a reference timer model")

LONGEST = 2147483
BIG = 1.0e6         # |symbolic reals| <= BIG: excludes nan/inf, keeps every delay below the timeout() cap


class _R(ReactorBase):
    def __init__(self, now):
        self.now = now
        ReactorBase.__init__(self)

    def installWaker(self):
        pass

    def wakeUp(self):
        pass

    def seconds(self):
        return self.now


_NoTracing = None
if api.MODE == "sym":   # the replay interpreter never imports CrossHair
    try:
        from crosshair.tracers import NoTracing as _NoTracing, is_tracing as _is_tracing
    except ImportError:
        _NoTracing = None


def _mk_reactor(now):
    # ReactorBase.__init__ (event triggers, resolver set-up) is concrete and independent of the inputs:
    # run it outside the symbolic tracer to save per-path time; the clock value is assigned afterwards
    if _NoTracing is not None and _is_tracing():
        with _NoTracing():
            R = _R(0.0)
    else:
        R = _R(0.0)
    R.now = now
    return R


def _pick(v, lo, hi):
    # concrete case split driven by the solver: returns a concrete int equal to v
    for x in range(lo, hi):
        if v == x:
            return x
    return hi


class _W:
    """Real reactor + reference timer model (ids are positions in the lists).

    The oracle is accumulated in self.ok with the non-short-circuit operators & and | so that it adds
    one solver query per path instead of one fork per comparison; ms/born/runs are concrete on every path
    (they follow the real code's own decisions), only times are symbolic."""

    def __init__(self, now):
        self.R = _mk_reactor(now)
        self.dc = []        # real DelayedCall
        self.mt = []        # model: scheduled time
        self.ms = []        # model: 0 pending, 1 called, 2 cancelled
        self.born = []      # iteration count when created
        self.runs = []      # times the real callback ran
        self.it = 0
        self.ok = True
        self.inner = None   # (who, act, tgt, r)
        self.r2 = 0.0       # delay of the call scheduled first by the two-action sequences (act 6, 7)
        self.residue = False   # cancelled entries may still sit in the heap

    # -- operations, applied to real reactor and model ------------------------------------
    def call_later(self, d):
        i = len(self.dc)
        self.mt.append(self.R.now + d)
        self.ms.append(0)
        self.born.append(self.it)
        self.runs.append(0)
        self.dc.append(self.R.callLater(d, self._fire, i))
        return i

    def adopt(self, time, dl, cancelled, staged):
        # build a pre-existing DelayedCall exactly as callLater/cancel leave it
        R = self.R
        i = len(self.dc)
        c = DelayedCall(time, self._fire, (i,), {}, R._cancelCallLater, R._moveCallLaterSooner,
                        seconds=R.seconds)
        c.delayed_time = dl
        if cancelled:
            c.cancelled = 1
            del c.func, c.args, c.kw
            self.residue = True
        self.dc.append(c)
        self.mt.append(time + dl)
        self.ms.append(2 if cancelled else 0)
        self.born.append(-1)
        self.runs.append(0)
        (R._newTimedCalls if staged else R._pendingTimedCalls).append(c)
        return i

    def modify(self, act, tgt, r):
        if act == 0:
            return
        if act == 4:
            self.call_later(r)
            return
        if act == 5:    # schedule a call and cancel it at once (a timeout that is not needed after all)
            tgt = self.call_later(r)
            act = 1
        if act >= 6:    # two actions: schedule a new call (delay r2), then reset (6) / delay (7) entry tgt
            self.call_later(self.r2)
            act = act - 4
        exp = self.ms[tgt]
        c = self.dc[tgt]
        try:
            if act == 1:
                c.cancel()
            elif act == 2:
                c.reset(r)
            else:
                c.delay(r)
            got = 0
        except error.AlreadyCalled:
            got = 1
        except error.AlreadyCancelled:
            got = 2
        if got != exp:
            self.ok = False
        if exp == 0:
            if act == 1:
                self.ms[tgt] = 2
                self.residue = True
            elif act == 2:
                self.mt[tgt] = self.R.now + r
            else:
                self.mt[tgt] = self.mt[tgt] + r

    def _fire(self, i):
        now = self.R.now
        self.runs[i] += 1
        if self.ms[i] != 0 or self.born[i] >= self.it:
            self.ok = False         # cancelled / already run / scheduled during this very iteration
        else:
            ok = self.mt[i] <= now  # not early
            for j in range(len(self.mt)):
                if j != i and self.ms[j] == 0:
                    ok = ok & (self.mt[i] <= self.mt[j])    # nothing pending is scheduled earlier
            self.ok = self.ok & ok
        self.ms[i] = 1
        if self.inner is not None and self.inner[0] == i:
            self.modify(self.inner[1], self.inner[2], self.inner[3])

    def iterate(self):
        self.it += 1
        errs = []

        def _obs(event):
            if event.get("log_failure") is not None:
                errs.append(1)
        globalLogPublisher.addObserver(_obs)
        try:
            self.R.runUntilCurrent()
        finally:
            globalLogPublisher.removeObserver(_obs)
        if errs:
            self.ok = False     # runUntilCurrent logged an exception (e.g. it tried to run a cancelled call)
        now = self.R.now
        ok = True
        for j in range(len(self.mt)):
            if self.ms[j] == 0 and self.born[j] < self.it:
                ok = ok & (now < self.mt[j])        # a due call was not left behind
        self.ok = self.ok & ok

    # -- observations ------------------------------------------------------------------
    def check(self):
        R = self.R
        nact = 0
        ok = True
        g = R.getDelayedCalls()
        for j in range(len(self.dc)):
            c = self.dc[j]
            if self.runs[j] != (1 if self.ms[j] == 1 else 0):
                ok = False
            if c.active() != (self.ms[j] == 0):
                ok = False
            if self.ms[j] == 0:
                nact += 1
                ok = ok & (c.getTime() == self.mt[j])
                if not any(x is c for x in g):
                    ok = False
        if len(g) != nact:
            ok = False
        self.ok = self.ok & ok & _inv(R)

    def check_timeout(self):
        R = self.R
        t = R.timeout()
        act = [self.mt[j] for j in range(len(self.mt)) if self.ms[j] == 0]
        if t is None:
            if act:
                self.ok = False
            return
        if not act and not self.residue:
            self.ok = False
            return
        ok = (0 <= t) & (t <= LONGEST)
        for a in act:
            ok = ok & ((t == 0) | (t <= a - R.now))
        self.ok = self.ok & ok


def _inv(R):
    h = R._pendingTimedCalls
    ok = True
    for p in range(1, len(h)):
        ok = ok & (h[(p - 1) >> 1].time <= h[p].time)
    allc = h + R._newTimedCalls
    cnt = 0
    for a in range(len(allc)):
        x = allc[a]
        if x.called:
            return False
        if x.cancelled:
            cnt += 1
        else:
            ok = ok & (x.delayed_time >= 0)
    if len(set([id(x) for x in allc])) != len(allc):
        return False        # an entry is queued twice
    if not (R._cancellations <= cnt):
        return False
    return ok


def history(t0: float, n: int, d0: float, d1: float, d2: float, d3: float, tm: bool,
            act: int, tgt: int, who: int, r: float, a1: float, a2: float, r2: float) -> bool:
    """
    pre: 2 <= n <= B['n'] and 0 <= d0 <= BIG and 0 <= d1 <= BIG and 0 <= d2 <= BIG and 0 <= d3 <= BIG
    pre: 0 <= act <= 7 and 0 <= tgt < n and -1 <= who < n and (tgt == 0 or 1 <= act <= 3 or act >= 6)
    pre: (act < 6 and r2 == 0) or (act >= 6 and who >= 0 and 0 <= r2 <= BIG and (n <= B['n2'] or r2 == 0))
    pre: -BIG <= t0 <= BIG and -BIG <= r <= BIG and (r >= 0 or act == 3 or act == 7)
    pre: 0 <= a1 <= BIG and 0 <= a2 <= BIG
    pre: (who == -1 or not tm) and (act != 0 or who == -1)
    pre: n <= B['ni'] or (who == -1 and (tm or act == 0))
    post: _
    """
    n = _pick(n, 2, B['n'])
    act = _pick(act, 0, 7)
    tgt = _pick(tgt, 0, n - 1)
    who = _pick(who, -1, n - 1)
    W = _W(t0)
    W.r2 = r2
    ds = [d0, d1, d2, d3]
    for i in range(n):
        W.call_later(ds[i])
    if tm:
        W.check_timeout()
    if who == -1:
        W.modify(act, tgt, r)
    else:
        W.inner = (who, act, tgt, r)
    W.check()
    W.R.now = W.R.now + a1
    W.iterate()
    W.check()
    W.check_timeout()
    W.R.now = W.R.now + a2
    W.iterate()
    W.check()
    W.check_timeout()
    cover()
    return bool(W.ok)


def _state_pre(tot, k, m, cm, drift, ts, us, dx, dl, dy, dm):
    # bounds and the representation invariant of the pre-state; int parts fork in Python (they are
    # fixed by the shards), real parts are one conjunction
    if not (0 <= k and 0 <= m <= B['m'] and k + m <= tot and 0 <= cm < 2 ** (k + m) and drift >= 0):
        return False
    if not (-1 <= dx < k + m and -1 <= dy < dx or dx == dy == -1):
        return False
    if dy >= 0 and B['nd'] < 2:
        return False
    ok = (0 <= dl) & (dl <= BIG) & (0 <= dm) & (dm <= BIG)
    for i in range(k):
        ok = ok & (-BIG <= ts[i]) & (ts[i] <= BIG)
    for i in range(m):
        ok = ok & (-BIG <= us[i]) & (us[i] <= BIG)
    for p in range(1, k):
        ok = ok & (ts[(p - 1) >> 1] <= ts[p])       # heap order on .time
    return ok


def _build(now, k, m, cm, drift, ts, us, dx, dl, dy, dm, pads):
    W = _W(now)
    R = W.R
    ncanc = 0
    for i in range(k + m):
        c = (cm >> i) & 1
        ncanc += c
        d = dl if i == dx else (dm if i == dy else 0.0)
        if i < k:
            W.adopt(ts[i], d, c, False)
        else:
            W.adopt(us[i - k], d, c, True)
    if pads:
        W.residue = True
        if _NoTracing is not None and _is_tracing():
            with _NoTracing():
                _pad(R, pads)
        else:
            _pad(R, pads)
        ncanc += pads
    R._cancellations = ncanc - drift
    return W


def _pad(R, pads):
    for _ in range(pads):
        c = DelayedCall(FAR, None, (), {}, R._cancelCallLater, R._moveCallLaterSooner, seconds=R.seconds)
        c.cancelled = 1
        del c.func, c.args, c.kw
        R._pendingTimedCalls.append(c)


def _ncancelled(R):
    return sum(1 for x in R._pendingTimedCalls + R._newTimedCalls if x.cancelled)


def step_op(now: float, k: int, m: int, cm: int, drift: int,
            t0: float, t1: float, t2: float, t3: float, t4: float, u0: float, u1: float,
            dx: int, dl: float, dy: int, dm: float, act: int, tgt: int, r: float) -> bool:
    """
    pre: _state_pre(B['tot'], k, m, cm, drift, (t0, t1, t2, t3, t4), (u0, u1), dx, dl, dy, dm)
    pre: -BIG <= now <= BIG and -BIG <= r <= BIG
    pre: 0 <= act <= 4 and (r >= 0 or act == 3)
    pre: 0 <= tgt < k + m or (tgt == 0 and (act == 0 or act == 4))
    post: _
    """
    k = _pick(k, 0, B['tot'])
    m = _pick(m, 0, B['m'])
    cm = _pick(cm, 0, 2 ** (k + m) - 1)
    dx = _pick(dx, -1, k + m - 1)
    dy = _pick(dy, -1, k + m - 1)
    act = _pick(act, 0, 4)
    tgt = _pick(tgt, 0, max(0, k + m - 1))
    W = _build(now, k, m, cm, drift, (t0, t1, t2, t3, t4), (u0, u1), dx, dl, dy, dm, 0)
    d0 = W.R._cancellations - _ncancelled(W.R)
    if act == 0:
        W.check_timeout()       # the step is timeout() alone (it also flushes the staging list)
    else:
        W.modify(act, tgt, r)
    W.check()
    if W.R._cancellations - _ncancelled(W.R) != d0:
        return False            # no compaction here: the lazy-deletion count keeps its offset
    cover()
    return bool(W.ok)


def step_run(now: float, k: int, m: int, cm: int, drift: int,
             t0: float, t1: float, t2: float, t3: float, t4: float, u0: float, u1: float,
             dx: int, dl: float, dy: int, dm: float, who: int, act: int, tgt: int, r: float,
             r2: float) -> bool:
    """
    pre: _state_pre(B['tot'] if act == 0 else B['tot_in'], k, m, cm, drift, (t0, t1, t2, t3, t4), (u0, u1), dx, dl, dy, dm)
    pre: -BIG <= now <= BIG and -BIG <= r <= BIG and 0 <= r2 <= BIG and (act >= 6 or r2 == 0)
    pre: 0 <= act <= 7 and (r >= 0 or act == 3 or act == 7) and 1 <= k + m
    pre: 0 <= who < k + m and (0 <= tgt < k + m) and (act != 0 or who + tgt == 0)
    post: _
    """
    k = _pick(k, 0, B['tot'])
    m = _pick(m, 0, B['m'])
    cm = _pick(cm, 0, 2 ** (k + m) - 1)
    dx = _pick(dx, -1, k + m - 1)
    dy = _pick(dy, -1, k + m - 1)
    act = _pick(act, 0, 7)
    who = _pick(who, 0, k + m - 1)
    tgt = _pick(tgt, 0, k + m - 1)
    W = _build(now, k, m, cm, drift, (t0, t1, t2, t3, t4), (u0, u1), dx, dl, dy, dm, 0)
    W.r2 = r2
    d0 = W.R._cancellations - _ncancelled(W.R)
    W.inner = (who, act, tgt, r)
    W.iterate()
    W.check()
    if W.R._cancellations - _ncancelled(W.R) != d0:
        return False            # no compaction here (<= 8 cancellations): the count keeps its offset
    cover()
    return bool(W.ok)


def step_compact(now: float, k: int, m: int, cm: int, drift: int,
                 t0: float, t1: float, t2: float, t3: float, t4: float, u0: float, u1: float,
                 dx: int, dl: float, dy: int, dm: float, who: int, act: int, tgt: int, r: float) -> bool:
    """
    pre: _state_pre(B['tot'] if act == 0 else B['tot_in'], k, m, cm, drift, (t0, t1, t2, t3, t4), (u0, u1), dx, dl, dy, dm)
    pre: -BIG <= now <= BIG and 0 <= r <= BIG
    pre: (act == 0 or act == 1 or act == 5) and 1 <= k + m and drift <= 1
    pre: 0 <= who < k + m and (0 <= tgt < k + m) and (act != 0 or who + tgt == 0)
    post: _
    """
    k = _pick(k, 0, B['tot'])
    m = _pick(m, 0, B['m'])
    cm = _pick(cm, 0, 2 ** (k + m) - 1)
    dx = _pick(dx, -1, k + m - 1)
    dy = _pick(dy, -1, k + m - 1)
    act = _pick(act, 0, 5)
    who = _pick(who, 0, k + m - 1)
    tgt = _pick(tgt, 0, k + m - 1)
    drift = _pick(drift, 0, 1)
    W = _build(now, k, m, cm, drift, (t0, t1, t2, t3, t4), (u0, u1), dx, dl, dy, dm, PADS)
    W.inner = (who, act, tgt, r)
    W.iterate()
    R = W.R
    if len(R._pendingTimedCalls) < PADS:
        # compacted: every cancelled heap entry is gone, every pending call is still there (check())
        cover("compacted")
        if R._cancellations != 0 or any(x.cancelled for x in R._pendingTimedCalls):
            return False
    else:
        # not compacted: only legitimate when the count was not above the thresholds
        if R._cancellations > 50 and R._cancellations > len(R._pendingTimedCalls) >> 1:
            return False
    W.check()
    cover()
    return bool(W.ok)


def step_sift(now: float, k: int, t0: float, t1: float, t2: float, t3: float, t4: float, t5: float,
              t6: float, act: int, tgt: int, r: float) -> bool:
    """
    pre: 4 <= k <= B['ks'] and 2 <= act <= 3 and 0 <= tgt < k
    pre: -BIG <= now <= BIG and -BIG <= r <= BIG and (r >= 0 or act == 3)
    pre: _state_pre(B['ks'], k, 0, 0, 0, (t0, t1, t2, t3, t4, t5, t6), (), -1, 0.0, -1, 0.0)
    post: _
    """
    # deeper heaps (two- and three-level sift-up in _moveCallLaterSooner), all entries active and undelayed
    k = _pick(k, 4, B['ks'])
    act = _pick(act, 2, 3)
    tgt = _pick(tgt, 0, k - 1)
    W = _build(now, k, 0, 0, 0, (t0, t1, t2, t3, t4, t5, t6), (), -1, 0.0, -1, 0.0, 0)
    W.modify(act, tgt, r)
    W.check()
    cover()
    return bool(W.ok)


def _hist_shards(tier):
    n = BOUNDS[tier]["n"]
    out = [("act == 0",), ("act == 1", "who == -1"), ("act == 4", "who == -1")]
    out += [("act == %d" % a, "who == -1", "tgt == %d" % t) for a in (2, 3) for t in range(n)]
    if tier == "quick":
        out += [("act == %d" % a, "who >= 0") for a in (1, 2, 4)] + [("act == 3", "who == 0"), ("act == 3", "who >= 1")]
        out += [("act == %d" % a, "who == %d" % w) for a in (6, 7) for w in range(BOUNDS[tier]["ni"])]
    else:
        out += [("act == %d" % a, "who == %d" % w) for a in (1, 2, 3, 4, 6, 7) for w in range(BOUNDS[tier]["ni"])]
    return out


def _inner_shards(tier, acts):
    if tier == "quick":
        return [("act == %d" % a,) for a in acts]
    return [("act == %d" % a, "who == %d" % w) for a in acts for w in range(BOUNDS[tier]["tot_in"])]


HARNESSES = [
    H(history, shards=_hist_shards, timeout={"quick": 90, "thorough": 1500}),
    H(step_op, shards=lambda tier: [("act == %d" % a,) for a in range(5)],
      timeout={"quick": 90, "thorough": 1500}),
    H(step_run, shards=lambda tier: [("act == 0",)] + _inner_shards(tier, (1, 2, 3, 4, 5, 6, 7)),
      timeout={"quick": 90, "thorough": 1500}),
    H(step_sift, shards=lambda tier: [("act == 2",), ("act == 3",)], timeout={"quick": 90, "thorough": 1500}),
    H(step_compact, shards=lambda tier: [("act == 0", "k + m == %d" % BOUNDS[tier]["tot"]),
                                         ("act == 0", "k + m < %d" % BOUNDS[tier]["tot"])]
      + _inner_shards(tier, (1, 5)),
      timeout={"quick": 90, "thorough": 1500}, labels=("end", "compacted")),
]

VECTORS = {
    "history": [(0.0, 3, 1.0, 2.0, 0.5, 0.0, True, 2, 1, -1, 0.25, 1.0, 5.0, 0.0),
                (10.0, 3, 1.0, 2.0, 0.5, 0.0, False, 1, 1, 0, 0.0, 1.0, 5.0, 0.0),
                (0.0, 3, 1.0, 2.0, 0.5, 0.0, False, 3, 1, -1, -1.75, 1.0, 5.0, 0.0),
                (0.0, 3, 1.0, 2.0, 0.5, 0.0, False, 4, 0, 2, 0.0, 1.0, 0.0, 0.0),
                (0.0, 2, 0.0, 0.0, 0.0, 0.0, False, 2, 1, 0, 0.0, 0.0, 0.0, 0.0),
                (0.0, 3, 1.0, 5.0, 3.0, 0.0, False, 6, 1, 0, 0.0, 1.0, 1.0, 0.0),
                (0.0, 3, 1.0, 5.0, 3.0, 0.0, False, 7, 1, 0, -4.5, 1.0, 1.0, 0.5)],
    "step_op": [(5.0, 2, 1, 0b010, 0, 1.0, 2.0, 0.0, 0.0, 0.0, 4.0, 0.0, 1, 1.0, -1, 0.0, 2, 1, 0.0),
                (5.0, 3, 0, 0b001, 1, 1.0, 2.0, 3.0, 0.0, 0.0, 0.0, 0.0, -1, 0.0, -1, 0.0, 0, 0, 0.0)],
    "step_run": [(5.0, 3, 0, 0b010, 0, 1.0, 2.0, 3.0, 0.0, 0.0, 0.0, 0.0, 0, 1.0, -1, 0.0, 0, 0, 0, 0.0, 0.0),
                 (5.0, 2, 0, 0b00, 0, 1.0, 9.0, 0.0, 0.0, 0.0, 0.0, 0.0, -1, 0.0, -1, 0.0, 0, 6, 1, 0.0, 0.0),
                 (5.0, 1, 1, 0b00, 0, 1.0, 0.0, 0.0, 0.0, 0.0, 4.0, 0.0, 0, 1.0, -1, 0.0, 0, 5, 1, 0.0, 0.0)],
    "step_sift": [(0.0, 5, 1.0, 2.0, 3.0, 4.0, 5.0, 0.0, 0.0, 2, 4, 0.5),
                  (0.0, 7, 1.0, 2.0, 3.0, 4.0, 5.0, 6.0, 7.0, 3, 6, -6.5)],
    "step_compact": [(5.0, 1, 1, 0b00, 0, 1.0, 0.0, 0.0, 0.0, 0.0, 4.0, 0.0, 0, 1.0, -1, 0.0, 0, 5, 1, 0.0),
                     (5.0, 3, 0, 0b001, 1, 7.0, 9.0, 8.0, 0.0, 0.0, 0.0, 0.0, -1, 0.0, -1, 0.0, 0, 0, 0, 0.0)],
}
