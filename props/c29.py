"""C29 HTTP/2 server flow control: no DATA beyond the stream / connection window or the max frame size, every
stream's body delivered complete, once and in order, blocked streams (and paused producers) resume when the
window opens.

Engine E3 (ropes) on object code: the REAL `twisted.web._http2.H2Connection` / `H2Stream` run against
 * a fake `priority` module (the package is not installed) whose PriorityTree follows the documented contract
   of priority.PriorityTree; WHICH unblocked stream `next(tree)` returns is chosen by the solver;
 * a fake h2 connection object (`_FakeH2`) that models the documented contract of h2.connection.H2Connection
   used by twisted: connection / stream outbound windows as symbolic ints, FlowControlError /
   FrameTooLargeError / StreamClosedError raised exactly when h2 raises them; it records what was sent;
 * a fake reactor whose delayed calls the harness runs one at a time ("reactor turn");
 * response data as opaque ropes (spans of a master stream with symbolic endpoints).
Peer frames (WINDOW_UPDATE, SETTINGS) enter through the real `H2Connection.dataReceived` event dispatch.
"""
import sys
import types
from collections import deque

# ---- fake `priority` package ---------------------------------------------------------------------------
# Installed into sys.modules only while twisted.web._http2 is imported (that module keeps its own global
# reference); other checks run in other processes and never see it.


class _PriorityError(Exception):
    pass


class DeadlockError(_PriorityError):
    pass


class PriorityLoop(_PriorityError):
    pass


class DuplicateStreamError(_PriorityError):
    pass


class MissingStreamError(KeyError, _PriorityError):
    pass


class TooManyStreamsError(_PriorityError):
    pass


class BadWeightError(_PriorityError):
    pass


class PseudoStreamError(_PriorityError):
    pass


class PriorityTree:
    """documented contract of priority.PriorityTree (priority 1.x / 2.x): streams are inserted ACTIVE;
    block/unblock/remove_stream/reprioritize raise MissingStreamError for unknown ids; insert_stream raises
    DuplicateStreamError; next(tree) returns the id of SOME unblocked stream and raises DeadlockError when
    there is none.  Which one: `script` (ints supplied by the harness = solver chosen) indexes the list of
    unblocked streams; when the script is exhausted the choice is round-robin (a fair scheduler)."""

    def __init__(self, maximum_streams=1000):
        self.ids = []
        self.active = []
        self.script = []
        self.rr = 0
        self.log = []

    def _idx(self, stream_id):
        for i in range(len(self.ids)):
            if self.ids[i] == stream_id:
                return i
        raise MissingStreamError("Stream %d not in tree" % (stream_id,))

    def insert_stream(self, stream_id, depends_on=None, weight=16, exclusive=False):
        if stream_id in self.ids:
            raise DuplicateStreamError("Stream %d already in tree" % (stream_id,))
        self.ids.append(stream_id)
        self.active.append(True)

    def reprioritize(self, stream_id, depends_on=None, weight=16, exclusive=False):
        self._idx(stream_id)

    def remove_stream(self, stream_id):
        if stream_id == 0:
            raise PseudoStreamError("Cannot remove stream 0")
        i = self._idx(stream_id)
        del self.ids[i]
        del self.active[i]

    def block(self, stream_id):
        self.active[self._idx(stream_id)] = False

    def unblock(self, stream_id):
        self.active[self._idx(stream_id)] = True

    def is_active(self, stream_id):
        return self.active[self._idx(stream_id)]

    def any_active(self):
        for a in self.active:
            if a:
                return True
        return False

    def __iter__(self):
        return self

    def __next__(self):
        cands = [self.ids[i] for i in range(len(self.ids)) if self.active[i]]
        n = len(cands)
        if n == 0:
            raise DeadlockError("No unblocked streams to schedule.")
        if self.script:
            c = self.script.pop(0)
            for k in range(n - 1):
                if c == k:
                    return cands[k]
            return cands[n - 1]
        self.rr += 1
        return cands[self.rr % n]

    next = __next__


def _fake_priority_module():
    m = types.ModuleType("priority")
    m.__verif_fake__ = True
    for k in ("DeadlockError", "PriorityLoop", "DuplicateStreamError", "MissingStreamError",
              "TooManyStreamsError", "BadWeightError", "PseudoStreamError", "PriorityTree"):
        setattr(m, k, globals()[k])
    return m


def _import_http2():
    saved = sys.modules.get("priority")
    fake = _fake_priority_module()
    sys.modules["priority"] = fake
    try:
        sys.modules.pop("twisted.web._http2", None)
        import twisted.web._http2 as mod
    finally:
        if saved is None:
            sys.modules.pop("priority", None)
        else:
            sys.modules["priority"] = saved
    mod.priority = fake
    return mod


_h2mod = _import_http2()

import h2.events as _ev  # noqa: E402
import h2.exceptions as _hx  # noqa: E402
import h2.settings as _hs  # noqa: E402
from twisted.internet.defer import Deferred  # noqa: E402
from twisted.web.http_headers import Headers  # noqa: E402

from vlib import api, rope  # noqa: E402
from vlib.api import H, cover  # noqa: E402
