"""C29 HTTP/2 server flow control: no DATA beyond the stream / connection window or the max frame size, every
stream's body delivered complete, once and in order, blocked streams (and paused producers) resume when the
window opens.

Engine E3 (ropes) on object code: the REAL `twisted.web._http2.H2Connection` / `H2Stream` run against
 * a fake `priority` module (the package is not installed) whose PriorityTree follows the documented contract
   of priority.PriorityTree; WHICH unblocked stream `next(tree)` returns is chosen by the solver;
 * a fake h2 connection object (`_FakeH2`) that models the documented contract of h2.connection.H2Connection
   used by twisted: connection / stream outbound windows as symbolic ints, FlowControlError /
   FrameTooLargeError / StreamClosedError raised exactly when h2 raises them; it records what was sent;
 * a fake reactor whose delayed calls the harness runs one at a time ("reactor turn");
 * response data as opaque ropes (spans of a master stream with symbolic endpoints).
Peer frames (WINDOW_UPDATE, SETTINGS) enter through the real `H2Connection.dataReceived` event dispatch.
"""
import sys
import types
from collections import deque

# ---- fake `priority` package ---------------------------------------------------------------------------
# Installed into sys.modules only while twisted.web._http2 is imported (that module keeps its own global
# reference); other checks run in other processes and never see it.


class _PriorityError(Exception):
    pass


class DeadlockError(_PriorityError):
    pass


class PriorityLoop(_PriorityError):
    pass


class DuplicateStreamError(_PriorityError):
    pass


class MissingStreamError(KeyError, _PriorityError):
    pass


class TooManyStreamsError(_PriorityError):
    pass


class BadWeightError(_PriorityError):
    pass


class PseudoStreamError(_PriorityError):
    pass


class PriorityTree:
    """documented contract of priority.PriorityTree (priority 1.x / 2.x): streams are inserted ACTIVE;
    block/unblock/remove_stream/reprioritize raise MissingStreamError for unknown ids; insert_stream raises
    DuplicateStreamError; next(tree) returns the id of SOME unblocked stream and raises DeadlockError when
    there is none.  Which one: `script` (ints supplied by the harness = solver chosen) indexes the list of
    unblocked streams; when the script is exhausted the choice is round-robin (a fair scheduler)."""

    def __init__(self, maximum_streams=1000):
        self.ids = []
        self.active = []
        self.script = []
        self.rr = 0
        self.log = []

    def _idx(self, stream_id):
        for i in range(len(self.ids)):
            if self.ids[i] == stream_id:
                return i
        raise MissingStreamError("Stream %d not in tree" % (stream_id,))

    def insert_stream(self, stream_id, depends_on=None, weight=16, exclusive=False):
        if stream_id in self.ids:
            raise DuplicateStreamError("Stream %d already in tree" % (stream_id,))
        self.ids.append(stream_id)
        self.active.append(True)

    def reprioritize(self, stream_id, depends_on=None, weight=16, exclusive=False):
        self._idx(stream_id)

    def remove_stream(self, stream_id):
        if stream_id == 0:
            raise PseudoStreamError("Cannot remove stream 0")
        i = self._idx(stream_id)
        del self.ids[i]
        del self.active[i]

    def block(self, stream_id):
        self.active[self._idx(stream_id)] = False

    def unblock(self, stream_id):
        self.active[self._idx(stream_id)] = True

    def is_active(self, stream_id):
        return self.active[self._idx(stream_id)]

    def any_active(self):
        for a in self.active:
            if a:
                return True
        return False

    def __iter__(self):
        return self

    def __next__(self):
        cands = [self.ids[i] for i in range(len(self.ids)) if self.active[i]]
        n = len(cands)
        if n == 0:
            raise DeadlockError("No unblocked streams to schedule.")
        if self.script:
            c = self.script.pop(0)
            for k in range(n - 1):
                if c == k:
                    return cands[k]
            return cands[n - 1]
        self.rr += 1
        return cands[self.rr % n]

    next = __next__


def _fake_priority_module():
    m = types.ModuleType("priority")
    m.__verif_fake__ = True
    for k in ("DeadlockError", "PriorityLoop", "DuplicateStreamError", "MissingStreamError",
              "TooManyStreamsError", "BadWeightError", "PseudoStreamError", "PriorityTree"):
        setattr(m, k, globals()[k])
    return m


def _import_http2():
    saved = sys.modules.get("priority")
    fake = _fake_priority_module()
    sys.modules["priority"] = fake
    try:
        sys.modules.pop("twisted.web._http2", None)
        import twisted.web._http2 as mod
    finally:
        if saved is None:
            sys.modules.pop("priority", None)
        else:
            sys.modules["priority"] = saved
    mod.priority = fake
    return mod


_h2mod = _import_http2()


class _NS:
    def __init__(self, **k):
        self.__dict__.update(k)


def _shim_h2():
    """H2Connection.__init__ builds an h2.connection.H2Connection (hpack tables etc.) that the harness replaces
    by the fake right away; the name `h2` in twisted.web._http2 is rebound to a namespace whose
    config.H2Configuration / connection.H2Connection build nothing (events, exceptions, errors, settings are
    the real h2 modules)."""
    import h2.errors
    import h2.events
    import h2.exceptions
    import h2.settings
    real = _h2mod.h2
    return _NS(config=_NS(H2Configuration=lambda **k: None), connection=_NS(H2Connection=lambda **k: None),
               events=h2.events, exceptions=h2.exceptions, errors=h2.errors, settings=h2.settings, __real__=real)


_h2mod.h2 = _shim_h2()

import h2.events as _ev  # noqa: E402
import h2.exceptions as _hx  # noqa: E402
import h2.settings as _hs  # noqa: E402
from twisted.internet.defer import Deferred  # noqa: E402
from twisted.web.http_headers import Headers  # noqa: E402

from vlib import api, rope  # noqa: E402
from vlib.api import H, cover  # noqa: E402

PROPERTY = "C29"
LEVEL = "model_checking"
ENCODED = ["twisted.web._http2:H2Connection._sendPrioritisedData", "twisted.web._http2:H2Connection.writeDataToStream",
           "twisted.web._http2:H2Connection._handleWindowUpdate", "twisted.web._http2:H2Connection.endRequest",
           "twisted.web._http2:H2Connection.abortRequest", "twisted.web._http2:H2Connection._requestDone",
           "twisted.web._http2:H2Connection.remainingOutboundWindow", "twisted.web._http2:H2Connection.dataReceived",
           "twisted.web._http2:H2Connection._requestReceived", "twisted.web._http2:H2Connection.pauseProducing",
           "twisted.web._http2:H2Connection.resumeProducing", "twisted.web._http2:H2Stream.windowUpdated",
           "twisted.web._http2:H2Stream.flowControlBlocked", "twisted.web._http2:H2Stream.write",
           "twisted.web._http2:H2Stream.writeSequence", "twisted.web._http2:H2Stream.registerProducer",
           "twisted.web._http2:H2Stream.requestDone", "twisted.web._http2:H2Stream.abortConnection"]
BOUNDS = {"quick": {"ns": 2, "hns": 1, "hist": 2, "hfull": 0, "cap": 1 << 20},
          "thorough": {"ns": 2, "hns": 2, "hist": 2, "hfull": 1, "cap": 1 << 20}}
B = {}
BOUNDS_TEXT = ("inductive steps from ANY state of the sending machinery satisfying the representation invariant: "
               "connection window 0..cap, every stream window -cap..cap (negative after a SETTINGS shrink), max frame "
               "size 1..cap (cap = 1 MiB), per stream 0-2 queued chunks of any length 0..cap plus optional end marker, "
               "any amount already sent, schedulable or not, no / producing / paused push producer; loop scheduled, "
               "asleep, or waiting behind the paused transport; then ONE reactor turn (any scheduler choice), ONE "
               "peer frame (WINDOW_UPDATE stream/connection with any increment, SETTINGS_INITIAL_WINDOW_SIZE change "
               "of either sign, SETTINGS_MAX_FRAME_SIZE) or ONE application/transport operation (write, "
               "writeSequence of two chunks, requestDone, abort, registerProducer, transport pause/resume).  quick: "
               "1 stream in full for all three steps; 2 streams for the reactor turn with the second stream in a "
               "reduced state set (no producer, not finished, <= 1 chunk) and for the connection-level "
               "WINDOW_UPDATE with both streams reduced.  thorough: additionally 2 streams (second reduced) for "
               "every application / transport operation and every peer frame with the loop scheduled or asleep "
               "(asleep: first stream without producer), and for the turn with the second stream in any state "
               "with <= 1 chunk.  Histories from a fresh connection (requests through the real dataReceived -> "
               "_requestReceived, push producer on stream 0): optional first turn that puts the loop to sleep, "
               "hist = 2 operations of any size / increment <= cap, then a liveness phase (fair scheduler: no "
               "stream may keep queued data with an open window) and a drain phase (all windows opened: complete "
               "body, END_STREAM once, producer not left paused, loop asleep).  quick: 1 stream, alphabet write / "
               "requestDone / WINDOW_UPDATE stream / connection / SETTINGS_INITIAL_WINDOW_SIZE / abort / turn; "
               "thorough: 1 stream with any second operation after requestDone / a peer frame / abort / a turn (after a "
               "write: second operation without max-frame-size / pause / resume), 1 stream with "
               "writeSequence / SETTINGS_MAX_FRAME_SIZE / transport pause as first operation followed by write / "
               "requestDone / peer frame / turn, and 2 streams: a write on stream 0 followed by WINDOW_UPDATE "
               "(either stream / connection) or SETTINGS_INITIAL_WINDOW_SIZE")
OUTSIDE = ["the real h2 frame codec / state machine and the real `priority` tree: both are replaced by contract "
           "models (see ASSUMPTIONS); weights and dependencies of the priority tree (only 'some unblocked stream' "
           "is assumed, so any weighting is covered, fairness is assumed only for the liveness phase)",
           "three or more concurrent streams; more than two queued chunks per stream in the inductive pre-state "
           "(the code treats queue lengths uniformly; conservation is checked chunk-exactly)",
           "request bodies (inbound flow control, H2Stream.pause/resumeProducing), HEADERS / control-frame "
           "buffering limits, timeouts, GOAWAY, connectionLost",
           "application misuse: write / requestDone after requestDone, operations on a stream after it was cleaned "
           "up, a second pauseProducing from the transport without resumeProducing in between",
           "pull producers (wrapped by _PullToPush) and producers that write re-entrantly from inside "
           "pauseProducing / resumeProducing",
           "CPU cost: a schedulable stream whose window is closed makes _sendPrioritisedData re-schedule itself "
           "with callLater(0) without progress until the peer opens the window (observed, not a violation of "
           "this property)",
           "histories longer than hist operations end-to-end, and two-stream histories other than write + peer "
           "frame (covered only through the inductive steps)"]
ASSUMPTIONS = ["fake `priority` module (the package is not installed): PriorityTree with insert_stream (streams start "
               "unblocked; DuplicateStreamError), remove_stream / block / unblock / reprioritize (MissingStreamError "
               "for unknown ids), next(tree) = SOME unblocked stream, chosen by the solver in the turn step and in "
               "history turns, round-robin (fair) in the liveness / drain phases; DeadlockError when none",
               "fake h2 connection `_FakeH2` replacing H2Connection.conn: outbound windows as ints; "
               "local_flow_control_window = min(connection, stream) and StreamClosedError for a closed stream; "
               "send_data raises FlowControlError iff len > 0 and len > window, else FrameTooLargeError iff len > "
               "max_outbound_frame_size, else subtracts len from both windows and records the payload; end_stream / "
               "reset_stream close the stream (StreamClosedError afterwards); send_headers raises StreamClosedError "
               "on a closed stream; WINDOW_UPDATE adds the increment to the stream or connection window and yields "
               "h2.events.WindowUpdated (nothing for a closed stream); a SETTINGS_INITIAL_WINDOW_SIZE change adds "
               "new - old to every open stream window (may go negative), not to the connection window, and yields "
               "h2.events.RemoteSettingsChanged; SETTINGS_MAX_FRAME_SIZE sets max_outbound_frame_size; "
               "data_to_send returns one byte when something was emitted, else b''; receive_data returns the "
               "queued events (real h2.events classes); validated against the real h2 4.x on a concrete corpus in "
               "selftest()",
               "the name `h2` inside twisted.web._http2 is rebound to a namespace whose config.H2Configuration / "
               "connection.H2Connection build nothing (the object is replaced by the fake right after __init__); "
               "events, exceptions, errors, settings are the real h2 modules",
               "fake reactor: callLater records the call, the harness runs the oldest pending call = one reactor "
               "turn; fake transport records writes; stub Request (requestFactory) with real Headers; passive fake "
               "IPushProducer recording pause/resume",
               "ropes: response data is opaque (spans of a master stream, stream i owns positions i * 2**23 ...); "
               "any content access by the code under test raises RopeContentAccess",
               "inductive pre-states are constructed directly on a connection whose streams were created by the "
               "real dataReceived -> _requestReceived: queues, windows, priority flags, producer flags, loop state "
               "are overwritten",
               "representation invariant assumed for the steps and checked after every step and after every "
               "history operation from a fresh connection: J1 the loop sleeps on _sendingDeferred only while every "
               "schedulable stream has a closed window and no end marker at its head; J2 a live stream with queued "
               "data and an open window is schedulable, a finished stream is schedulable; J3 a schedulable stream has "
               "a non-empty queue; J4 a producer is paused only while remainingOutboundWindow <= 0; exactly one "
               "continuation of the loop exists (delayed call, _sendingDeferred, or callback behind the transport); "
               "sent + queued == written per stream; end marker queued iff requestDone, last, once",
               "peer increments keep windows below 2**31 (sizes <= 1 MiB); the peer never sends WINDOW_UPDATE 0"]
EXPLANATION = ("real H2Connection/H2Stream flow-control code on ropes with symbolic windows, sizes, increments and "
               "scheduler choices against contract models of h2 and priority: one step from an arbitrary invariant "
               "state, and short histories with liveness and drain phases")

_SENT = _h2mod._END_STREAM_SENTINEL
_SIDS = (1, 3, 5)
_BASE = 1 << 23          # the body of stream number i is master[i * _BASE : ...]
_BIG = 1 << 25           # "window opened wide" / "frame size large" in the drain phase
_IWS = _hs.SettingCodes.INITIAL_WINDOW_SIZE
_MFS = _hs.SettingCodes.MAX_FRAME_SIZE


# ---- environment: fake h2 connection, reactor, transport, request, producer ---------------------------------

class _FakeH2:
    """the part of h2.connection.H2Connection's documented contract that twisted.web._http2 uses"""

    def __init__(self, cw, iws, mfs):
        self.cw = cw                # connection outbound window
        self.iws = iws              # peer's SETTINGS_INITIAL_WINDOW_SIZE
        self.mfs = mfs              # peer's SETTINGS_MAX_FRAME_SIZE
        self.sw = {}                # open stream id -> outbound window (may be negative after SETTINGS)
        self.closed = []            # closed stream ids
        self.sent = {}              # stream id -> list of DATA payloads, in order
        self.log = []               # ("data"|"end"|"rst"|"headers", stream id)
        self.errors = []            # what the real h2 would have refused
        self.pending = False
        self.events = []

    # -- queried / driven by twisted
    def _window(self, sid):
        if sid not in self.sw:
            self.errors.append(("closed", sid))
            raise _hx.StreamClosedError(sid)
        return self.sw[sid]

    def local_flow_control_window(self, sid):
        return rope.imin(self.cw, self._window(sid))

    @property
    def max_outbound_frame_size(self):
        return self.mfs

    @property
    def outbound_flow_control_window(self):
        return self.cw

    @property
    def open_outbound_streams(self):
        return 0

    @property
    def open_inbound_streams(self):
        return len(self.sw)

    def send_data(self, sid, data, end_stream=False, pad_length=None):
        n = len(data)
        w = self.local_flow_control_window(sid)
        if n > 0 and n > w:
            self.errors.append(("flow", sid))
            raise _hx.FlowControlError("Cannot send more than the flow control window")
        if n > self.mfs:
            self.errors.append(("frame", sid))
            raise _hx.FrameTooLargeError("Cannot send frame larger than the max frame size")
        self.cw = self.cw - n
        self.sw[sid] = self.sw[sid] - n
        self.sent[sid].append(data)
        self.log.append(("data", sid))
        self.pending = True

    def end_stream(self, sid):
        self._window(sid)
        del self.sw[sid]
        self.closed.append(sid)
        self.log.append(("end", sid))
        self.pending = True

    def reset_stream(self, sid, error_code=0):
        self._window(sid)
        del self.sw[sid]
        self.closed.append(sid)
        self.log.append(("rst", sid))
        self.pending = True

    def send_headers(self, stream_id, headers, end_stream=False):
        if stream_id not in self.sw:
            raise _hx.StreamClosedError(stream_id)
        self.log.append(("headers", stream_id))
        self.pending = True

    def initiate_connection(self):
        self.pending = True

    def close_connection(self, error_code=0, additional_data=None, last_stream_id=None):
        self.pending = True

    def acknowledge_received_data(self, n, sid):
        pass

    def data_to_send(self, amount=None):
        if self.pending:
            self.pending = False
            return b"\x00"
        return b""

    def receive_data(self, data):
        evs = self.events
        self.events = []
        return evs

    # -- the peer (harness side): state change exactly as h2 applies it, plus the event h2 emits
    def peer_request(self, sid):
        self.sw[sid] = self.iws
        self.sent[sid] = []
        self.events.append(_ev.RequestReceived(stream_id=sid, headers=[(b":method", b"GET"), (b":path", b"/"),
                                                                         (b":authority", b"h")]))

    def peer_window_update(self, sid, inc):
        if sid == 0:
            self.cw = self.cw + inc
            self.events.append(_ev.WindowUpdated(stream_id=0, delta=inc))
        elif sid in self.sw:
            self.sw[sid] = self.sw[sid] + inc
            self.events.append(_ev.WindowUpdated(stream_id=sid, delta=inc))
        # WINDOW_UPDATE for a closed stream: h2 emits no stream event

    def peer_settings_iws(self, new):
        delta = new - self.iws
        for sid in list(self.sw):
            self.sw[sid] = self.sw[sid] + delta
        e = _ev.RemoteSettingsChanged()
        e.changed_settings[_IWS] = _hs.ChangedSetting(_IWS, self.iws, new)
        self.iws = new
        self.events.append(e)

    def peer_settings_mfs(self, new):
        e = _ev.RemoteSettingsChanged()
        e.changed_settings[_MFS] = _hs.ChangedSetting(_MFS, self.mfs, new)
        self.mfs = new
        self.events.append(e)


class _Call:
    def __init__(self, f, a, k):
        self.f, self.a, self.k = f, a, k
        self.cancelled = False

    def cancel(self):
        self.cancelled = True

    def active(self):
        return not self.cancelled


class _Reactor:
    def __init__(self):
        self.calls = []

    def callLater(self, delay, f, *a, **k):
        c = _Call(f, a, k)
        self.calls.append(c)
        return c

    def turn(self):
        """run the oldest pending delayed call; False if there is none"""
        while self.calls:
            c = self.calls.pop(0)
            if not c.cancelled:
                c.f(*c.a, **c.k)
                return True
        return False


class _Addr:
    host = "peer"
    port = 1


class _Transport:
    def __init__(self):
        self.writes = 0
        self.lost = False
        self.aborted = False

    def write(self, data):
        self.writes += 1

    def writeSequence(self, seq):
        self.writes += 1

    def loseConnection(self):
        self.lost = True

    def abortConnection(self):
        self.aborted = True

    def getPeer(self):
        return _Addr()

    getHost = getPeer


class _Req:
    """stand-in for twisted.web.http.Request as built by H2Stream.__init__ (requestFactory(stream, queued=False))"""

    def __init__(self, channel, queued=False):
        self.channel = channel
        self.requestHeaders = Headers()
        self.lost = 0

    def gotLength(self, n):
        pass

    def parseCookies(self):
        pass

    def handleContentChunk(self, data):
        pass

    def requestReceived(self, command, path, version):
        pass

    def connectionLost(self, reason):
        self.lost += 1


class _Producer:
    """a passive IPushProducer: records what it is told"""

    def __init__(self):
        self.events = []

    def pauseProducing(self):
        self.events.append("pause")

    def resumeProducing(self):
        self.events.append("resume")

    def stopProducing(self):
        self.events.append("stop")


# ---- the world ------------------------------------------------------------------------------------------------

class _World:
    def __init__(self, ns, cw, iws, mfs):
        rope.reset()
        self.ns = ns
        self.r = _Reactor()
        c = _h2mod.H2Connection(reactor=self.r)
        c.requestFactory = _Req
        self.fc = _FakeH2(cw, iws, mfs)
        c.conn = self.fc
        self.t = _Transport()
        c.makeConnection(self.t)
        self.c = c
        self.tree = c.priority
        # requests arrive through the real dataReceived -> _requestReceived
        for i in range(ns):
            self.fc.peer_request(_SIDS[i])
        c.dataReceived(b"\x00")
        self.streams = [c.streams[_SIDS[i]] for i in range(ns)]
        self.cleaned = [0] * ns
        for i in range(ns):
            c._streamCleanupCallbacks[_SIDS[i]].addCallback(self._cleanup, i)
            self.streams[i].writeHeaders(b"HTTP/2", b"200", b"OK", Headers())
        self.S0 = [0] * ns          # bytes of stream i sent before the observed part of the run
        self.W = [0] * ns           # bytes of stream i written by the application so far
        self.done = [False] * ns    # requestDone called
        self.aborted = [False] * ns
        self.prod = [None] * ns

    def _cleanup(self, res, i):
        self.cleaned[i] += 1
        return res

    def live(self, i):
        return _SIDS[i] in self.c.streams

    # -- application operations
    def write(self, i, n):
        self.streams[i].write(rope.span(i * _BASE + self.W[i], i * _BASE + self.W[i] + n))
        self.W[i] = self.W[i] + n

    def write_seq(self, i, n1, n2):
        a = i * _BASE + self.W[i]
        self.streams[i].writeSequence([rope.span(a, a + n1), rope.span(a + n1, a + n1 + n2)])
        self.W[i] = self.W[i] + n1 + n2

    def finish(self, i):
        self.done[i] = True
        self.streams[i].requestDone(self.streams[i]._request)

    def abort(self, i):
        self.aborted[i] = True
        self.streams[i].abortConnection()

    def register(self, i):
        p = _Producer()
        self.prod[i] = p
        self.streams[i].registerProducer(p, True)

    # -- peer operations (through the real dataReceived dispatch)
    def deliver(self):
        self.c.dataReceived(b"\x00")

    def window_update(self, sid, inc):
        self.fc.peer_window_update(sid, inc)
        self.deliver()

    def settings_iws(self, new):
        self.fc.peer_settings_iws(new)
        self.deliver()

    def settings_mfs(self, new):
        self.fc.peer_settings_mfs(new)
        self.deliver()

    # -- reactor
    def turn(self, pick=None):
        if pick is not None:
            self.tree.script = [pick]
        r = self.r.turn()
        self.tree.script = []
        return r

    # -- observations
    def loop_arms(self):
        """how many continuations of the sending loop exist: pending delayed calls + the idle Deferred + a
        callback waiting behind the transport; must be exactly 1 while the connection is alive"""
        c = self.c
        n = 0
        for call in self.r.calls:
            if not call.cancelled and call.f == c._sendPrioritisedData:
                n += 1
        if c._sendingDeferred is not None:
            n += 1
        if c._consumerBlocked is not None:
            for (cb, eb) in c._consumerBlocked.callbacks:
                if cb[0] == c._sendPrioritisedData:
                    n += 1
        return n

    def waiting_behind_transport(self):
        c = self.c
        if c._consumerBlocked is not None:
            for (cb, eb) in c._consumerBlocked.callbacks:
                if cb[0] == c._sendPrioritisedData:
                    return True
        return False

    def sent_len(self, i):
        n = 0
        for d in self.fc.sent[_SIDS[i]]:
            n = n + len(d)
        return n

    def queue_parts(self, i):
        """(data chunks, number of sentinels, sentinel is last) of the outbound queue of live stream i"""
        q = self.c._outboundStreamQueues[_SIDS[i]]
        chunks = []
        nsent = 0
        last = True
        for x in q:
            if x is _SENT:
                nsent += 1
            else:
                if nsent:
                    last = False
                chunks.append(x)
        return chunks, nsent, last

    def conserved(self):
        """for every stream: DATA payloads sent so far, concatenated, are exactly body[S0 : S0 + sent]; for a live
        stream the queued chunks are exactly body[S0 + sent : W] (so sent + queued == written, in order, nothing
        duplicated or dropped) and the end marker is queued iff requestDone was called, once, last.  One formula."""
        ok = True
        for i in range(self.ns):
            base = i * _BASE + self.S0[i]
            ls = self.sent_len(i)
            ok = rope.band(ok, rope.is_span(rope.concat(self.fc.sent[_SIDS[i]]), base, base + ls))
            ok = rope.band(ok, base + ls <= i * _BASE + self.W[i])
            if self.live(i):
                chunks, nsent, last = self.queue_parts(i)
                if nsent != (1 if self.done[i] else 0) or not last:
                    return False
                ok = rope.band(ok, rope.is_span(rope.concat(chunks), base + ls, i * _BASE + self.W[i]))
                if _SIDS[i] not in self.fc.sw:
                    return False            # twisted keeps state for a stream that h2 has closed
            else:
                if self.cleaned[i] != 1:
                    return False
                if not self.aborted[i]:
                    # cleaned up without abort: only after requestDone, with the whole body sent, END_STREAM once
                    if not self.done[i]:
                        return False
                    ok = rope.band(ok, base + ls == i * _BASE + self.W[i])
        return ok

    def end_marks_ok(self):
        """END_STREAM / RST_STREAM: at most one per stream, END_STREAM only after requestDone and never followed
        by DATA on that stream; RST only after abort"""
        for i in range(self.ns):
            sid = _SIDS[i]
            ends = 0
            for (k, s) in self.fc.log:
                if s != sid:
                    continue
                if k == "end":
                    ends += 1
                    if not self.done[i]:
                        return False
                elif k == "rst":
                    ends += 1
                    if not self.aborted[i]:
                        return False
                elif ends:
                    return False        # DATA or HEADERS after the stream was closed
            if ends > 1:
                return False
            if ends == 1 and self.live(i):
                return False
            if ends == 0 and not self.live(i):
                return False
        return True

    def invariant(self):
        """representation invariant of the sending machinery (J1-J4), see ASSUMPTIONS; one formula (the
        comparisons on symbolic windows are not branched on here)"""
        c = self.c
        idle = c._sendingDeferred is not None
        ok = True
        for i in range(self.ns):
            if not self.live(i):
                continue
            sid = _SIDS[i]
            q = c._outboundStreamQueues[sid]
            act = self.tree.is_active(sid)
            if act and len(q) == 0:
                return False                                # J3: a schedulable stream has something queued
            if self.done[i] and not act:
                return False                                # J2b: a finished stream is schedulable
            closed_window = self.fc.local_flow_control_window(sid) <= 0
            if idle and act:
                # J1: the loop sleeps on _sendingDeferred only while no schedulable stream could make progress
                if q[0] is _SENT:
                    return False
                ok = rope.band(ok, closed_window)
            if len(q) > 0 and not act:
                ok = rope.band(ok, closed_window)           # J2a: data + open window => schedulable
            st = self.streams[i]
            if st.producer is not None and not st._producerProducing:
                ok = rope.band(ok, c.remainingOutboundWindow(sid) <= 0)     # J4: paused only while no room
        return ok

    def healthy(self):
        if self.fc.errors:
            return False
        if self.loop_arms() != 1:
            return False
        if not self.end_marks_ok():
            return False
        return rope.band(self.conserved(), self.invariant())


# ---- arbitrary pre-state (constructed directly on a connection whose streams came through _requestReceived) ---

def _mk_state(ns, cw, mfs, per, loop, cb):
    """per[i] = (sw, s0, nq, q1, q2, done, act, prod); loop: 0 = a turn of the sending loop is scheduled,
    1 = idle (waiting on _sendingDeferred), 2 = waiting behind the paused transport; cb: transport paused"""
    w = _World(ns, cw, 0, mfs)
    c = w.c
    for i in range(ns):
        (sw, s0, nq, q1, q2, done, act, prod) = per[i]
        sid = _SIDS[i]
        w.fc.sw[sid] = sw
        w.S0[i] = s0
        pos = i * _BASE + s0
        q = c._outboundStreamQueues[sid]
        if nq >= 1:
            q.append(rope.span(pos, pos + q1))
            pos = pos + q1
        if nq >= 2:
            q.append(rope.span(pos, pos + q2))
            pos = pos + q2
        w.W[i] = pos - i * _BASE
        if done:
            q.append(_SENT)
            w.done[i] = True
        if act:
            w.tree.unblock(sid)
        if prod != 0:
            w.register(i)
            if prod == 2:
                w.streams[i]._producerProducing = False
                w.prod[i].events.append("pause")
    if cb or loop == 2:
        c.pauseProducing()
    if loop == 1:
        del w.r.calls[:]
        d = Deferred()
        d.addCallback(c._sendPrioritisedData)
        c._sendingDeferred = d
    elif loop == 2:
        del w.r.calls[:]
        c._consumerBlocked.addCallback(c._sendPrioritisedData)
    return w


def _per(ns, a, b2, c3):
    return [a, b2, c3][:ns]


def _prod_events_ok(w):
    """pause / resume strictly alternate, starting with pause (registered producers start out producing)"""
    for i in range(w.ns):
        p = w.prod[i]
        if p is None:
            continue
        expect = "pause"
        for e in p.events:
            if e != expect:
                return False
            expect = "resume" if expect == "pause" else "pause"
        st = w.streams[i]
        if st.producer is p:
            told_paused = bool(p.events) and p.events[-1] == "pause"
            if told_paused != (not st._producerProducing):
                return False        # the stream's idea of its producer and what the producer was told differ
    return True


def _prod_state(w, i):
    st = w.streams[i]
    if st.producer is None:
        return 0
    return 1 if st._producerProducing else 2


def _all(*cs):
    """conjunction of (symbolic) bools as ONE z3 term, no forks"""
    lib = rope._chlib()
    if lib is None:
        for x in cs:
            if not x:
                return False
        return True
    z3, SInt, SBool, NoTracing = lib
    with NoTracing():
        terms = []
        rest = []
        for x in cs:
            if isinstance(x, SBool):
                terms.append(x.var)
            elif x is True:
                pass
            elif x is False:
                return False
            else:
                rest.append(x)
        if not rest:
            if not terms:
                return True
            return SBool(z3.And(*terms))
    ok = True
    for x in cs:
        ok = rope.band(ok, x)
    return ok


def _rng(lo, x, hi):
    return rope.band(lo <= x, x <= hi)


def _imp(a, b2):
    return rope.bor(rope.bnot(a), b2)


def _stream_pre(used, sw, s0, nq, q1, q2, done, act, prod):
    cap = B['cap']
    shape = _all(-cap <= sw, sw <= cap, 0 <= s0, s0 <= cap, 0 <= nq, nq <= 2, 0 <= q1, q1 <= cap, 0 <= q2, q2 <= cap,
                 0 <= prod, prod <= 2, rope.bor(nq >= 1, q1 == 0), rope.bor(nq >= 2, q2 == 0),
                 _imp(act, rope.bor(nq >= 1, done)),        # J3: schedulable => something queued
                 _imp(done, act))                           # J2b: finished => schedulable
    if used is True:
        return shape
    unused = _all(sw == 0, s0 == 0, nq == 0, rope.bnot(done), rope.bnot(act), prod == 0)
    return rope.band(shape, rope.bor(used, unused))


def _state_pre(ns, cw, mfs, a, b2, c3):
    """the whole precondition as ONE formula (a chain of `and` in a pre: line would be explored branch by
    branch before the shard conditions are seen)"""
    return _all(_rng(1, ns, B['ns']), _rng(0, cw, B['cap']), _rng(1, mfs, B['cap']),
                _stream_pre(True, *a), _stream_pre(ns >= 2, *b2), _stream_pre(ns >= 3, *c3))



def step_turn(ns: int, cw: int, mfs: int, cb: bool, pick: int,
              sw0: int, s00: int, nq0: int, q10: int, q20: int, done0: bool, act0: bool, prod0: int,
              sw1: int, s01: int, nq1: int, q11: int, q21: int, done1: bool, act1: bool, prod1: int,
              sw2: int, s02: int, nq2: int, q12: int, q22: int, done2: bool, act2: bool, prod2: int) -> bool:
    """
    pre: _state_pre(ns, cw, mfs, (sw0, s00, nq0, q10, q20, done0, act0, prod0), (sw1, s01, nq1, q11, q21, done1, act1, prod1), (sw2, s02, nq2, q12, q22, done2, act2, prod2))
    pre: _rng(0, pick, 2)
    post: _
    """
    per = _per(ns, (sw0, s00, nq0, q10, q20, done0, act0, prod0), (sw1, s01, nq1, q11, q21, done1, act1, prod1),
               (sw2, s02, nq2, q12, q22, done2, act2, prod2))
    w = _mk_state(ns, cw, mfs, per, 0, cb)
    if not w.invariant():
        return True                 # not a state of the invariant: nothing claimed
    acts = [i for i in range(ns) if w.tree.is_active(_SIDS[i])]
    before = [w.sent_len(i) for i in range(ns)]
    nlog = len(w.fc.log)
    w.turn(pick)
    cover()
    if not w.healthy() or not _prod_events_ok(w):
        return False
    c = w.c
    nframes = len(w.fc.log) - nlog
    if not acts:
        # nothing schedulable: the loop goes to sleep on _sendingDeferred, nothing is sent
        return nframes == 0 and c._sendingDeferred is not None
    if cb:
        return nframes == 0 and w.waiting_behind_transport()
    p = acts[-1]
    for k in range(len(acts) - 1):
        if pick == k:
            p = acts[k]
            break
    (sw, s0, nq, q1, q2, done, act, prod) = per[p]
    for i in range(ns):
        if i != p and w.sent_len(i) != before[i]:
            return False
    if len(w.r.calls) != 1:
        return False                # the next turn is scheduled
    if nq == 0:
        # only the end marker is queued: END_STREAM, all state for the stream released
        cover("ended")
        return nframes == 1 and w.fc.log[-1] == ("end", _SIDS[p]) and not w.live(p)
    # exactly one DATA frame carrying as much of the head chunk as window and frame size allow (none if 0)
    want = rope.imax(0, rope.imin(q1, rope.imin(mfs, rope.imin(cw, sw))))
    got = w.sent_len(p) - before[p]
    if got != want:
        return False
    if want > 0:
        cover("sent")
        if nframes != 1:
            return False
    elif nframes != 0:
        return False
    # back-pressure: the stream just served has no room left => its producer is not left producing
    if w.live(p) and _prod_state(w, p) == 1 and c.remainingOutboundWindow(_SIDS[p]) <= 0:
        return False
    return True


def step_event(ns: int, cw: int, mfs: int, loop: int, ev: int, k: int, x: int,
               sw0: int, s00: int, nq0: int, q10: int, q20: int, done0: bool, act0: bool, prod0: int,
               sw1: int, s01: int, nq1: int, q11: int, q21: int, done1: bool, act1: bool, prod1: int,
               sw2: int, s02: int, nq2: int, q12: int, q22: int, done2: bool, act2: bool, prod2: int) -> bool:
    """
    pre: _state_pre(ns, cw, mfs, (sw0, s00, nq0, q10, q20, done0, act0, prod0), (sw1, s01, nq1, q11, q21, done1, act1, prod1), (sw2, s02, nq2, q12, q22, done2, act2, prod2))
    pre: _all(_rng(0, loop, 2), _rng(0, ev, 3), _rng(0, k, ns - 1), _rng(-B['cap'], x, B['cap']), rope.bor(ev == 2, x >= 1))
    post: _
    """
    per = _per(ns, (sw0, s00, nq0, q10, q20, done0, act0, prod0), (sw1, s01, nq1, q11, q21, done1, act1, prod1),
               (sw2, s02, nq2, q12, q22, done2, act2, prod2))
    w = _mk_state(ns, cw, mfs, per, loop, False)
    if not w.invariant():
        return True
    kk = 0
    for j in range(ns):
        if k == j:
            kk = j
    nlog = len(w.fc.log)
    if ev == 0:
        w.window_update(_SIDS[kk], x)       # WINDOW_UPDATE for stream kk
    elif ev == 1:
        w.window_update(0, x)               # WINDOW_UPDATE for the connection
    elif ev == 2:
        w.fc.iws = B['cap']
        w.settings_iws(B['cap'] + x)        # SETTINGS_INITIAL_WINDOW_SIZE changed by x (either sign)
    else:
        w.settings_mfs(x)                   # SETTINGS_MAX_FRAME_SIZE = x
    cover()
    if not w.healthy() or not _prod_events_ok(w):
        return False
    # a peer frame by itself sends at most one frame (the woken loop runs one turn synchronously)
    if len(w.fc.log) - nlog > 1:
        return False
    if loop != 1 and len(w.fc.log) != nlog:
        return False
    # back-pressure: a producer that was paused is resumed only if there is room again
    if ns == 1 or loop != 1:
        for i in range(ns):
            if per[i][7] == 2 and _prod_state(w, i) == 1 and w.c.remainingOutboundWindow(_SIDS[i]) <= 0:
                return False
    return True


def step_app(ns: int, cw: int, mfs: int, loop: int, op: int, k: int, x: int, y: int,
             sw0: int, s00: int, nq0: int, q10: int, q20: int, done0: bool, act0: bool, prod0: int,
             sw1: int, s01: int, nq1: int, q11: int, q21: int, done1: bool, act1: bool, prod1: int,
             sw2: int, s02: int, nq2: int, q12: int, q22: int, done2: bool, act2: bool, prod2: int) -> bool:
    """
    pre: _state_pre(ns, cw, mfs, (sw0, s00, nq0, q10, q20, done0, act0, prod0), (sw1, s01, nq1, q11, q21, done1, act1, prod1), (sw2, s02, nq2, q12, q22, done2, act2, prod2))
    pre: _all(_rng(0, loop, 2), _rng(0, op, 6), _rng(0, k, ns - 1), _rng(0, x, B['cap']), _rng(0, y, B['cap']), rope.bor(op != 5, loop != 2))
    post: _
    """
    per = _per(ns, (sw0, s00, nq0, q10, q20, done0, act0, prod0), (sw1, s01, nq1, q11, q21, done1, act1, prod1),
               (sw2, s02, nq2, q12, q22, done2, act2, prod2))
    w = _mk_state(ns, cw, mfs, per, loop, False)
    if not w.invariant():
        return True
    kk = 0
    for j in range(ns):
        if k == j:
            kk = j
    if op <= 2 and w.done[kk]:
        return True                 # the application does not write / finish after requestDone
    if op == 4 and per[kk][7] != 0:
        return True                 # one producer at a time
    c = w.c
    nlog = len(w.fc.log)
    if op == 0:
        w.write(kk, x)
    elif op == 1:
        w.write_seq(kk, x, y)
    elif op == 2:
        w.finish(kk)
    elif op == 3:
        w.abort(kk)
    elif op == 4:
        w.register(kk)
    elif op == 5:
        c.pauseProducing()          # the transport's buffer is full
    else:
        c.resumeProducing()         # the transport's buffer drained
    cover()
    if not w.healthy() or not _prod_events_ok(w):
        return False
    if op <= 1 and w.live(kk) and _prod_state(w, kk) == 1 and c.remainingOutboundWindow(_SIDS[kk]) <= 0:
        return False                # wrote past the window: the producer must have been paused
    if op == 3:
        if w.live(kk) or w.fc.log[-1] != ("rst", _SIDS[kk]):
            return False
    elif len(w.fc.log) - nlog > 1:
        return False
    return True


# ---- histories from a fresh connection ---------------------------------------------------------------------

def _concrete(d, top):
    for k in range(top + 1):
        if d == k:
            return k
    return top


def _run_turns(w, n):
    for _ in range(n):
        if not w.turn():
            break
        if w.fc.errors:
            break


def _opok(o, ns):
    """reduced history alphabet (quick tier; thorough tier with two streams): without writeSequence,
    SETTINGS_MAX_FRAME_SIZE and the transport's pause / resume (all exercised by the step harnesses)"""
    return _all(o != 1, o != 6, o != 9, o != 10)


def _history(ns, cw, iws, mfs, y, idle0, ops):
    """ops: (o, k, x): 0 write x bytes on stream k, 1 writeSequence([x, y]) on k, 2 requestDone on k,
    3 WINDOW_UPDATE(stream k, +x), 4 WINDOW_UPDATE(connection, +x), 5 SETTINGS_INITIAL_WINDOW_SIZE = x,
    6 SETTINGS_MAX_FRAME_SIZE = x, 7 abort stream k, 8 one reactor turn (scheduler choice x), 9 / 10 the transport
    pauses / resumes the connection, 11 nothing.  Then: liveness phase, drain phase."""
    w = _World(ns, cw, iws, mfs)
    c = w.c
    w.register(0)                   # stream 0 is fed by a push producer
    if idle0:
        w.turn()                    # nothing to send yet: the loop goes to sleep
    if not w.healthy():
        return False
    nitems = ns
    for (o, k, x) in ops:
        o = _concrete(o, 11)
        kk = _concrete(k, ns - 1)
        if o == 11:
            continue
        if o <= 2 and (not w.live(kk) or w.done[kk]):
            continue                # the application does not write to / finish a finished stream
        if o <= 1 and x < 1:
            continue                # (empty writes: step_app)
        if o == 0:
            w.write(kk, x)
            nitems += 1
        elif o == 1:
            w.write_seq(kk, x, y)
            nitems += 2
        elif o == 2:
            w.finish(kk)
        elif o == 3:
            if x < 1:
                continue
            w.window_update(_SIDS[kk], x)
        elif o == 4:
            if x < 1:
                continue
            w.window_update(0, x)
        elif o == 5:
            w.settings_iws(x)
        elif o == 6:
            if x < 1:
                continue
            w.settings_mfs(x)
        elif o == 7:
            if not w.live(kk):
                continue
            w.abort(kk)
        elif o == 8:
            w.turn(x)
        elif o == 9:
            if c._consumerBlocked is not None:
                continue
            c.pauseProducing()
        else:
            c.resumeProducing()
        if not w.healthy() or not _prod_events_ok(w):
            return False
    cover("ops")
    # liveness phase: the transport accepts data again, frames may be large; a fair scheduler runs the loop.
    # Afterwards no stream may be left with data queued and a positive window.
    turns = ns * (nitems + 1) + 2
    c.resumeProducing()
    w.settings_mfs(_BIG)
    _run_turns(w, turns)
    if not w.healthy() or not _prod_events_ok(w):
        return False
    for i in range(ns):
        if w.live(i):
            chunks, nsent, last = w.queue_parts(i)
            n = 0
            for ch in chunks:
                n = n + len(ch)
            if n > 0 and w.fc.local_flow_control_window(_SIDS[i]) > 0:
                return False        # data queued, window open, yet not sent
            if n == 0 and nsent:
                return False        # only the end marker is left, yet END_STREAM not sent
    cover("live")
    # drain phase: the peer opens every window wide
    for i in range(ns):
        if w.live(i):
            w.window_update(_SIDS[i], _BIG)
    w.window_update(0, _BIG)
    _run_turns(w, turns)
    cover()
    if not w.healthy() or not _prod_events_ok(w):
        return False
    if c._sendingDeferred is None:
        return False                # everything is sent: the loop must be asleep, not spinning
    for i in range(ns):
        if w.aborted[i]:
            continue
        if w.sent_len(i) != w.W[i]:
            return False            # the complete body reached the peer
        if w.done[i]:
            if w.live(i):
                return False        # finished: END_STREAM sent, state released (healthy() checks once / last)
        else:
            if not w.live(i) or len(c._outboundStreamQueues[_SIDS[i]]) != 0:
                return False
            if _prod_state(w, i) == 2:
                return False        # a producer is not left paused with the window wide open
    return True


def history(ns: int, cw: int, iws: int, mfs: int, y: int, idle0: bool,
            o0: int, k0: int, x0: int, o1: int, k1: int, x1: int, o2: int, k2: int, x2: int,
            o3: int, k3: int, x3: int) -> bool:
    """
    pre: _all(_rng(1, ns, B['hns']), _rng(0, cw, B['cap']), _rng(0, iws, B['cap']), _rng(1, mfs, B['cap']), _rng(0, y, B['cap']))
    pre: _all(_rng(0, o0, 10), _rng(0, o1, 11), _rng(0, o2, 11), _rng(0, o3, 11), rope.bor(o3 == 11, B['hist'] >= 4), rope.bor(o2 == 11, B['hist'] >= 3))
    pre: rope.bor(rope.band(B['hfull'] == 1, ns == 1), _all(_opok(o0, ns), _opok(o1, ns), _opok(o2, ns), _opok(o3, ns)))
    pre: _all(_rng(0, k0, ns - 1), _rng(0, k1, ns - 1), _rng(0, k2, ns - 1), _rng(0, k3, ns - 1))
    pre: _all(_rng(0, x0, B['cap']), _rng(0, x1, B['cap']), _rng(0, x2, B['cap']), _rng(0, x3, B['cap']))
    post: _
    """
    return _history(ns, cw, iws, mfs, y, idle0, ((o0, k0, x0), (o1, k1, x1), (o2, k2, x2), (o3, k3, x3)))


_R1 = "prod1 == 0 and not done1 and nq1 <= 1"      # second stream in a reduced set of states
_R0 = "prod0 == 0 and not done0 and nq0 <= 1"


_QUICK_TURN = [("ns == 1",), ("ns == 2", _R1, "not cb", "nq0 == 0"),
               ("ns == 2", _R1, "not cb", "nq0 == 1", "done0"), ("ns == 2", _R1, "not cb", "nq0 == 1", "not done0"),
               ("ns == 2", _R1, "not cb", "nq0 == 2", "done0"), ("ns == 2", _R1, "not cb", "nq0 == 2", "not done0"),
               ("ns == 2", _R1, "cb")]
_QUICK_EVENT = [("ns == 1", "loop == 0"), ("ns == 1", "loop == 1", "ev == 0"), ("ns == 1", "loop == 1", "ev == 1"),
                ("ns == 1", "loop == 1", "ev >= 2"), ("ns == 1", "loop == 2"),
                # two streams, both in the reduced state set, connection-level WINDOW_UPDATE
                ("ns == 2", _R1, _R0, "ev == 1", "loop <= 1")]
_QUICK_APP = [("ns == 1", "loop == %d" % l, c) for l in range(3) for c in ("op <= 1", "op >= 2")]
_QUICK_HIST = ([("ns == 1", "o0 == 0", c) for c in ("o1 <= 2", "o1 == 3 or o1 == 4", "o1 == 5 or o1 == 7",
                                                     "o1 == 8 or o1 == 11")]
               + [("ns == 1", "o0 == %d" % a) for a in (2, 3, 4, 5, 7, 8)])


def _turn_shards(tier):
    if tier == "quick":
        return _QUICK_TURN
    # second stream in every state with <= 1 queued chunk (producer, finished, ...)
    return _QUICK_TURN + [("ns == 2", "not cb", "nq0 == %d" % a, "nq1 == %d" % b2, "prod1 == %d" % pp)
                          for a in range(3) for b2 in range(2) for pp in range(3)]


def _event_shards(tier):
    if tier == "quick":
        return _QUICK_EVENT
    # two streams (second reduced), every peer frame: loop scheduled with the first stream in any state; loop
    # asleep (the frame wakes it and a turn runs inside) with the first stream without producer
    return (_QUICK_EVENT
            + [("ns == 2", _R1, "loop == 0", "ev == %d" % e, "nq0 == %d" % a) for e in range(4) for a in range(3)]
            + [("ns == 2", _R1, "loop == 1", "prod0 == 0", "ev == %d" % e, "nq0 == %d" % a)
               for e in range(4) for a in range(3)])


def _app_shards(tier):
    if tier == "quick":
        return _QUICK_APP
    # two streams (second reduced), every operation, loop scheduled or asleep
    return _QUICK_APP + [("ns == 2", _R1, "op == %d" % o, "loop == %d" % l, "nq0 == %d" % a)
                         for o in range(7) for l in range(2) for a in range(3)]


def _hist_shards(tier):
    if tier == "quick":
        return _QUICK_HIST
    # one stream: pairs whose first operation is writeSequence / SETTINGS_MAX_FRAME_SIZE / transport pause,
    # followed by a write, requestDone, peer frame or turn; two streams: a write on the producer-fed stream 0
    # followed by a peer frame (WINDOW_UPDATE for either stream / the connection, SETTINGS_INITIAL_WINDOW_SIZE)
    return (_QUICK_HIST
            + [("ns == 1", "o0 == 1", "o1 == %d" % b2) for b2 in (2, 3, 4, 5, 8)]
            + [("ns == 1", "o0 == %d" % a, "o1 == %d" % b2) for a in (6, 9) for b2 in (0, 2, 3, 4, 5, 8)]
            + [("ns == 2", "o0 == 0", "k0 == 0", "o1 == %d" % b2, c) for b2 in (3, 4, 5)
               for c in ("idle0", "not idle0")])


HARNESSES = [
    H(step_turn, shards=_turn_shards, timeout={"quick": 120, "thorough": 900}, labels=("end", "ended", "sent")),
    H(step_event, shards=_event_shards, timeout={"quick": 120, "thorough": 900}),
    H(step_app, shards=_app_shards, timeout={"quick": 120, "thorough": 900}),
    H(history, shards=_hist_shards, timeout={"quick": 120, "thorough": 900}, labels=("end", "ops", "live")),
]


_Z = (0, 0, 0, 0, 0, False, False, 0)
VECTORS = {
    # (ns, cw, mfs, cb, pick, stream0..., stream1..., stream2...); stream = (sw, s0, nq, q1, q2, done, act, prod)
    "step_turn": [(1, 100, 16, False, 0, 50, 0, 1, 20, 0, False, True, 1) + _Z + _Z,
                  (2, 100, 16, False, 1, 50, 0, 1, 20, 0, False, True, 1, 5, 7, 2, 20, 3, True, True, 0) + _Z,
                  (2, 100, 16, False, 1, 50, 0, 1, 20, 0, False, True, 1, -5, 7, 2, 20, 3, True, True, 0) + _Z,
                  (1, 100, 16, False, 0, 50, 0, 0, 0, 0, True, True, 1) + _Z + _Z,
                  (1, 5, 16384, True, 0, 50, 3, 2, 10, 4, True, True, 2) + _Z + _Z],
    # (ns, cw, mfs, loop, ev, k, x, streams...)
    "step_event": [(1, 100, 16, 1, 0, 0, 10, 0, 0, 1, 20, 0, False, False, 2) + _Z + _Z,
                   (1, 100, 16, 1, 2, 0, 10, 0, 0, 1, 20, 0, False, False, 2) + _Z + _Z,
                   (1, 0, 16, 1, 1, 0, 10, 7, 0, 1, 20, 0, False, False, 2) + _Z + _Z,
                   (2, 100, 16, 0, 2, 1, -30, 10, 0, 1, 20, 0, False, True, 1, 10, 0, 1, 5, 0, False, True, 0) + _Z],
    # (ns, cw, mfs, loop, op, k, x, y, streams...)
    "step_app": [(1, 100, 16, 1, 0, 0, 10, 0, 0, 0, 1, 20, 0, False, False, 2) + _Z + _Z,
                 (1, 100, 16, 1, 2, 0, 10, 0, 0, 0, 1, 20, 0, False, False, 2) + _Z + _Z,
                 (1, 100, 16, 1, 3, 0, 10, 0, 0, 0, 1, 20, 0, False, False, 2) + _Z + _Z,
                 (1, 100, 16, 2, 6, 0, 0, 0, 40, 0, 2, 20, 7, True, True, 0) + _Z + _Z,
                 (1, 100, 16, 0, 1, 0, 10, 30, 25, 0, 0, 0, 0, False, False, 1) + _Z + _Z],
    # (ns, cw, iws, mfs, y, idle0, (o, k, x) * 4); scenarios of test_http2: producerBlockingUnblocking,
    # endingBlockedStream, producerUnblocked, flowControlExact; then the three fixed defects F1 / F3 (loop asleep,
    # write at window 0, WINDOW_UPDATE resp. SETTINGS opens the window) and F2 (negative window)
    "history": [(1, 65535, 5, 16384, 0, False, 0, 0, 10, 3, 0, 5, 4, 0, 5, 3, 0, 5),
                (1, 65535, 5, 16384, 0, False, 0, 0, 10, 2, 0, 0, 8, 0, 0, 3, 0, 50),
                (1, 65535, 5, 16384, 0, False, 0, 0, 4, 3, 0, 5, 2, 0, 0, 11, 0, 0),
                (1, 65535, 5, 16384, 0, False, 0, 0, 5, 8, 0, 0, 0, 0, 5, 3, 0, 5),
                (1, 100, 0, 16384, 0, True, 0, 0, 10, 3, 0, 100, 11, 0, 0, 11, 0, 0),
                (1, 100, 0, 16384, 0, True, 0, 0, 10, 5, 0, 100, 11, 0, 0, 11, 0, 0),
                (1, 1000, 100, 16384, 0, False, 0, 0, 60, 8, 0, 0, 0, 0, 60, 5, 0, 10),
                (2, 100, 50, 16, 7, False, 1, 1, 10, 2, 1, 0, 0, 0, 33, 7, 0, 0),
                (2, 10, 50, 3, 7, True, 0, 1, 10, 9, 0, 0, 8, 0, 1, 10, 0, 0)],
}


# ---- stub validation: the fake h2 connection against the real h2 state machine on a concrete corpus ----------

def _h2_differential():
    import h2.config
    import h2.connection
    hdrs = [(":method", "GET"), (":authority", "h"), (":path", "/"), (":scheme", "https")]
    scripts = [
        (65535, [("send", 1, 100), ("send", 3, 70000), ("send", 3, 16384), ("send", 3, 16385), ("wu", 0, 10),
                 ("send", 1, 16384), ("send", 1, 16384), ("send", 1, 16384), ("send", 1, 16184), ("send", 1, 1),
                 ("wu", 1, 5), ("send", 1, 1), ("wu", 0, 70000), ("send", 1, 5), ("send", 1, 1), ("send", 3, 0),
                 ("end", 1), ("send", 1, 1), ("send", 3, 10)]),
        (100, [("send", 1, 60), ("iws", 10), ("send", 1, 1), ("send", 1, 0), ("wu", 1, 49), ("send", 1, 1),
               ("wu", 1, 2), ("send", 1, 2), ("send", 1, 1), ("iws", 200), ("send", 3, 150), ("send", 3, 51),
               ("mfs", 20000), ("iws", 70000), ("send", 3, 20001), ("send", 3, 20000), ("rst", 3), ("send", 3, 1),
               ("end", 1), ("end", 1)]),
        (0, [("send", 1, 1), ("send", 1, 0), ("wu", 1, 3), ("send", 1, 4), ("send", 1, 3), ("iws", 5), ("send", 3, 6),
             ("send", 3, 5), ("send", 1, 5), ("send", 1, 6)]),
    ]
    n = 0
    for (iws, script) in scripts:
        client = h2.connection.H2Connection(config=h2.config.H2Configuration(client_side=True))
        server = h2.connection.H2Connection(config=h2.config.H2Configuration(client_side=False, header_encoding=None))
        server.initiate_connection()
        client.initiate_connection()
        client.update_settings({_IWS: iws})
        client.send_headers(1, hdrs, end_stream=True)
        client.send_headers(3, hdrs, end_stream=True)
        server.receive_data(client.data_to_send())
        server.send_headers(1, [(b":status", b"200")])
        server.send_headers(3, [(b":status", b"200")])
        fake = _FakeH2(65535, iws, 16384)
        fake.peer_request(1)
        fake.peer_request(3)
        for op in script:
            res = []
            for conn in (server, fake):
                try:
                    if op[0] == "send":
                        conn.send_data(op[1], b"x" * op[2])
                    elif op[0] == "end":
                        conn.end_stream(op[1])
                    elif op[0] == "rst":
                        conn.reset_stream(op[1])
                    elif conn is fake:
                        if op[0] == "wu":
                            fake.peer_window_update(op[1], op[2])
                        elif op[0] == "iws":
                            fake.peer_settings_iws(op[1])
                        else:
                            fake.peer_settings_mfs(op[1])
                    else:
                        if op[0] == "wu":
                            client.increment_flow_control_window(op[2], op[1] or None)
                        elif op[0] == "iws":
                            client.update_settings({_IWS: op[1]})
                        else:
                            client.update_settings({_MFS: op[1]})
                        server.receive_data(client.data_to_send())
                    out = "ok"
                except (_hx.FlowControlError, _hx.FrameTooLargeError) as e:
                    out = type(e).__name__
                except _hx.ProtocolError:
                    out = "closed"
                res.append(out)
            assert res[0] == res[1], (iws, op, res)
            for sid in (1, 3):
                if sid in fake.sw:
                    assert server.local_flow_control_window(sid) == fake.local_flow_control_window(sid), (iws, op, sid)
            assert server.max_outbound_frame_size == fake.max_outbound_frame_size
            n += 1
        evs = fake.receive_data(b"")
        assert all(isinstance(e, (_ev.RequestReceived, _ev.WindowUpdated, _ev.RemoteSettingsChanged)) for e in evs)
    return n


def _priority_contract():
    t = PriorityTree()
    t.insert_stream(1)
    t.insert_stream(3)
    assert next(t) in (1, 3)
    t.block(1)
    assert next(t) == 3 and next(t) == 3
    t.block(3)
    for bad in (lambda: next(t), lambda: t.insert_stream(3), lambda: t.block(5), lambda: t.unblock(5),
                lambda: t.remove_stream(5), lambda: t.reprioritize(5)):
        try:
            bad()
        except (DeadlockError, DuplicateStreamError, MissingStreamError):
            pass
        else:
            raise AssertionError("priority contract")
    t.unblock(1)
    t.script = [1]
    assert next(t) == 1
    t.unblock(3)
    t.script = [0, 1, 2]
    assert [next(t), next(t), next(t)] == [1, 3, 3]
    t.remove_stream(1)
    assert next(t) == 3
    return 12


def selftest():
    return rope.selftest() + _h2_differential() + _priority_contract()
