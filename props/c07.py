"""C07 DeferredQueue: each object once, in order, within its bounds."""
from typing import List, Optional

from twisted.internet.defer import Deferred, DeferredQueue, QueueOverflow, QueueUnderflow

from vlib.api import H, cover

PROPERTY = "C07"
LEVEL = "model_checking"
ENCODED = ["twisted.internet.defer:DeferredQueue.put", "twisted.internet.defer:DeferredQueue.get",
           "twisted.internet.defer:DeferredQueue._cancelGet", "twisted.internet.defer:Deferred.cancel",
           "twisted.internet.defer:Deferred.callback"]
# step_reentrant: put()/get()/cancel issued from inside the callback of the get that put() is serving
BOUNDS = {"quick": {"k": 3, "hist": 4}, "thorough": {"k": 4, "hist": 6}}
B = {}
BOUNDS_TEXT = ("inductive steps: size/backlog any integer >= 0 or None, object values any int, <= k pending "
               "objects, <= k waiting gets; histories from the empty queue of length <= hist with "
               "size, backlog in {None,0,1,2}")
OUTSIDE = ["re-entrant use deeper than one level (one operation from inside the served get's callback is covered)", "more than k pending objects / waiting gets in the inductive pre-state (the code treats list "
           "lengths uniformly; the representation invariant is checked to be inductive)",
           "non-integer queue elements"]
ASSUMPTIONS = ["representation invariant assumed for inductive steps: waiting != [] => pending == []; "
               "len(pending) <= size; len(waiting) <= backlog; re-established by every step and reachable "
               "from the empty queue (history harness)",
               "Deferred.callback/cancel are the real ones; waiting Deferreds are built as get() builds them"]
EXPLANATION = ("one symbolic put/get/cancel from an arbitrary invariant-satisfying DeferredQueue state, and "
               "symbolic operation histories from the empty queue compared with a reference FIFO model")


def _mk(size, backlog, pending, nwait):
    q = DeferredQueue(size, backlog)
    q.pending = list(pending)
    got = []
    ws = []
    for i in range(nwait):
        d = Deferred(canceller=q._cancelGet)
        d.addCallback(lambda v, i=i: got.append((i, v)))
        d.addErrback(lambda f, i=i: got.append((i, "cancelled")) and None)
        q.waiting.append(d)
        ws.append(d)
    return q, ws, got


def _inv(q):
    if q.waiting and q.pending:
        return False
    if q.size is not None and len(q.pending) > q.size:
        return False
    if q.backlog is not None and len(q.waiting) > q.backlog:
        return False
    return True


def step_put(size: Optional[int], backlog: Optional[int], pending: List[int], nwait: int, obj: int) -> bool:
    """
    pre: 0 <= nwait <= B['k'] and len(pending) <= B['k']
    pre: size is None or (size >= 0 and len(pending) <= size)
    pre: backlog is None or (backlog >= 0 and nwait <= backlog)
    pre: nwait == 0 or len(pending) == 0
    post: _
    """
    q, ws, got = _mk(size, backlog, pending, nwait)
    try:
        q.put(obj)
        raised = False
    except QueueOverflow:
        raised = True
    cover()
    exp_raise = (nwait == 0 and size is not None and len(pending) >= size)
    if raised != exp_raise:
        return False
    if not _inv(q):
        return False
    if raised:
        return q.pending == pending and len(q.waiting) == nwait and got == []
    if nwait > 0:
        return got == [(0, obj)] and q.waiting == ws[1:] and q.pending == []
    return q.pending == pending + [obj] and got == []


def step_get(size: Optional[int], backlog: Optional[int], pending: List[int], nwait: int) -> bool:
    """
    pre: 0 <= nwait <= B['k'] and len(pending) <= B['k']
    pre: size is None or (size >= 0 and len(pending) <= size)
    pre: backlog is None or (backlog >= 0 and nwait <= backlog)
    pre: nwait == 0 or len(pending) == 0
    post: _
    """
    q, ws, got = _mk(size, backlog, pending, nwait)
    res = []
    try:
        d = q.get()
        d.addCallback(res.append)
        raised = False
    except QueueUnderflow:
        raised = True
    cover()
    exp_raise = (len(pending) == 0 and backlog is not None and nwait >= backlog)
    if raised != exp_raise:
        return False
    if not _inv(q):
        return False
    if raised:
        return q.pending == pending and q.waiting == ws and got == []
    if len(pending) > 0:
        return res == [pending[0]] and q.pending == pending[1:] and q.waiting == ws
    # new waiter goes to the back; fires later with the next put, after all older waiters
    if not (res == [] and q.pending == [] and q.waiting[:-1] == ws and q.waiting[-1] is d):
        return False
    return True


def step_cancel(size: Optional[int], backlog: Optional[int], nwait: int, which: int, obj: int) -> bool:
    """
    pre: 1 <= nwait <= B['k'] and 0 <= which < nwait
    pre: size is None or size >= 0
    pre: backlog is None or (backlog >= 0 and nwait <= backlog)
    post: _
    """
    q, ws, got = _mk(size, backlog, [], nwait)
    ws[which].cancel()
    cover()
    if not _inv(q):
        return False
    if got != [(which, "cancelled")]:
        return False
    if q.waiting != ws[:which] + ws[which + 1:]:
        return False
    # the next object goes to the oldest *uncancelled* get; the cancelled one never gets it
    try:
        q.put(obj)
    except QueueOverflow:
        # only legitimate when nobody is waiting any more and the queue has no room
        return nwait == 1 and size == 0 and q.pending == [] and got == [(which, "cancelled")]
    if nwait == 1:
        return size != 0 and q.pending == [obj] and got == [(which, "cancelled")]
    first = 1 if which == 0 else 0
    return got == [(which, "cancelled"), (first, obj)] and q.pending == []


def step_cancel_sz0(backlog: Optional[int], which: int, obj: int) -> bool:
    """
    pre: which == 0
    pre: backlog is None or backlog >= 1
    post: _
    """
    # single waiter cancelled on a size-0 queue: the following put must overflow, not deliver
    q, ws, got = _mk(0, backlog, [], 1)
    ws[0].cancel()
    cover()
    try:
        q.put(obj)
    except QueueOverflow:
        return got == [(0, "cancelled")] and q.pending == [] and q.waiting == []
    return False


def step_reentrant(size: Optional[int], backlog: Optional[int], nwait: int, what: int, obj: int) -> bool:
    """
    pre: 1 <= nwait <= B['k'] and 0 <= what <= 2
    pre: size is None or size >= 0
    pre: backlog is None or (backlog >= 1 and nwait <= backlog)
    post: _
    """
    # The oldest waiting get is served by put(); from inside ITS callback the application uses the
    # same queue again: what == 0: put(obj + 1); 1: get(); 2: cancel the next-oldest waiter.
    # At that moment the served get is no longer pending: it must not be served again, must not
    # count against the backlog, and must not be the target of the re-entrant put.
    q, ws, got = _mk(size, backlog, [], nwait)
    inner = []

    def reenter(v):
        try:
            if what == 0:
                q.put(obj + 1)
                inner.append("put-ok")
            elif what == 1:
                d2 = q.get()
                d2.addCallback(lambda x: got.append(("inner", x)))
                inner.append("get-ok")
            else:
                if nwait >= 2:
                    ws[1].cancel()
                inner.append("cancel-ok")
        except QueueOverflow:
            inner.append("overflow")
        except QueueUnderflow:
            inner.append("underflow")
        return v
    ws[0].addCallback(reenter)
    q.put(obj)
    cover()
    if not _inv(q):
        return False
    if got[:1] != [(0, obj)]:
        return False
    if what == 0:
        # re-entrant put: goes to the next waiter, else is queued (or overflows when size == 0)
        if nwait >= 2:
            return inner == ["put-ok"] and got == [(0, obj), (1, obj + 1)] and q.pending == [] and len(q.waiting) == nwait - 2
        if size is not None and size == 0:
            return inner == ["overflow"] and got == [(0, obj)] and q.pending == [] and q.waiting == []
        return inner == ["put-ok"] and got == [(0, obj)] and q.pending == [obj + 1] and q.waiting == []
    if what == 1:
        # re-entrant get: nwait - 1 gets are pending at that moment
        if backlog is not None and nwait - 1 >= backlog:
            return inner == ["underflow"] and got == [(0, obj)] and len(q.waiting) == nwait - 1
        return inner == ["get-ok"] and got == [(0, obj)] and len(q.waiting) == nwait and q.pending == []
    if nwait >= 2:
        return inner == ["cancel-ok"] and got == [(0, obj), (1, "cancelled")] and q.waiting == ws[2:]
    return inner == ["cancel-ok"] and got == [(0, obj)] and q.waiting == []


def _lim(code):
    return None if code == 0 else code - 1  # 0->None, 1->0, 2->1, 3->2


def history(szc: int, blc: int, ops: List[int]) -> bool:
    """
    pre: 0 <= szc <= 3 and 0 <= blc <= 3
    pre: len(ops) <= B['hist'] and all(0 <= o <= 4 for o in ops)
    post: _
    """
    size, backlog = _lim(szc), _lim(blc)
    q = DeferredQueue(size, backlog)
    # reference model
    m_pending = []          # objects queued
    m_waiting = []          # ids of uncancelled pending gets, oldest first
    delivered = {}          # get id -> object, real
    m_delivered = {}        # get id -> object, model
    cancelled = set()
    gets = {}
    nput = 0
    ngets = 0
    for o in ops:
        if o == 0:   # put
            obj = nput
            nput += 1
            try:
                q.put(obj)
                raised = False
            except QueueOverflow:
                raised = True
            if m_waiting:
                exp = False
                m_delivered[m_waiting.pop(0)] = obj
            elif size is None or len(m_pending) < size:
                exp = False
                m_pending.append(obj)
            else:
                exp = True
            if raised != exp:
                return False
        elif o == 1:  # get
            gid = ngets
            try:
                d = q.get()
                raised = False
            except QueueUnderflow:
                raised = True
            if m_pending:
                exp = False
                m_delivered[gid] = m_pending.pop(0)
            elif backlog is None or len(m_waiting) < backlog:
                exp = False
                m_waiting.append(gid)
            else:
                exp = True
            if raised != exp:
                return False
            if not raised:
                ngets += 1
                gets[gid] = d

                def _got(v, gid=gid):
                    if gid in delivered:
                        delivered[gid] = "TWICE"
                    else:
                        delivered[gid] = v
                d.addCallbacks(_got, lambda f, gid=gid: cancelled.add(gid))
        else:  # cancel the (o-2)th oldest pending get, if there is one
            i = o - 2
            if i < len(m_waiting):
                gid = m_waiting.pop(i)
                gets[gid].cancel()
                if gid not in cancelled:
                    return False
        if delivered != m_delivered:
            return False
        if q.pending != m_pending or len(q.waiting) != len(m_waiting):
            return False
    cover()
    return True


HARNESSES = [
    H(step_put, timeout={"quick": 40, "thorough": 300}),
    H(step_get, timeout={"quick": 40, "thorough": 300}),
    H(step_cancel, timeout={"quick": 40, "thorough": 300}),
    H(step_cancel_sz0, timeout={"quick": 20, "thorough": 60}),
    H(step_reentrant, shards=[("what == 0",), ("what == 1",), ("what == 2",)], timeout={"quick": 40, "thorough": 300}),
    H(history, shards=lambda tier: [("szc == %d" % s, "blc == %d" % b) for s in range(4) for b in range(4)],
      timeout={"quick": 60, "thorough": 900}),
]
