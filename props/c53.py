"""C53 rotating LogFile: nothing lost, duplicated or reordered; retention; crash inside rotate().

Engines E4 + E3: the real LogFile runs against the in-memory filesystem of vlib/fakefs.py.  LogFile
never looks inside the data it is given, so under the solver each payload is an opaque span
(fakefs.Rope) whose length is a symbolic integer (any length >= 0); the one text payload is a str
whose character count and UTF-8 byte count are two symbolic integers (chars <= bytes <= 4*chars).
rotateLength, the position of reopen(), the crashing filesystem step and the torn-write length are
symbolic as well; z3 decides every `size >= rotateLength` test.  In replay the payloads are real
bytes / a real multi-byte str of the same lengths.
"""
from typing import List

from twisted.python import logfile as _logfile

from vlib import api, fakefs
from vlib.api import H, cover
from vlib.fakefs import Crash, FakeFS, Rope, installed

PROPERTY = "C53"
LEVEL = "model_checking"
ENCODED = ["twisted.python.logfile:LogFile.write", "twisted.python.logfile:LogFile.rotate",
           "twisted.python.logfile:LogFile.shouldRotate", "twisted.python.logfile:LogFile.listLogs",
           "twisted.python.logfile:LogFile._openFile", "twisted.python.logfile:LogFile.__init__",
           "twisted.python.logfile:BaseLogFile.write", "twisted.python.logfile:BaseLogFile._openFile",
           "twisted.python.logfile:BaseLogFile.reopen", "twisted.python.logfile:BaseLogFile.__init__",
           "twisted.python.logfile:BaseLogFile.close", "twisted.python.logfile:BaseLogFile.flush"]
BOUNDS = {"quick": {"writes": 4, "steps": 15, "pn_lo": 8, "pn_hi": 12, "psteps": 16},
          "thorough": {"writes": 6, "steps": 28, "pn_lo": 8, "pn_hi": 12, "psteps": 32}}
B = {}
BOUNDS_TEXT = ("exactly `writes` write() calls of any lengths >= 0 (zero-length included) into a fresh "
               "directory; any rotateLength >= 0; maxRotatedFiles in {None, 1, 2}; at most one text write "
               "(any position) whose UTF-8 length is between 1x and 4x its character count; at most one "
               "reopen() before any write; crash at every filesystem step 0..steps (more than any run makes) "
               "including torn data writes of every length, followed by a restart (new LogFile on the same "
               "directory) that performs the remaining writes.  Pre-state runs: a directory that already holds "
               "log.1 .. log.N (N = 8..12, each with its own payload of any length >= 1) and a current file, "
               "maxRotatedFiles in {None, 11}, two writes of any lengths (0-2 rotations); and the same with N = "
               "pn_lo..pn_hi and a crash at every filesystem step 0..psteps (quick: all of the first rotation; "
               "thorough: both) followed by a restart")
OUTSIDE = ["more than `writes` writes per run; more than one text write or reopen per run",
           "pre-existing rotated files other than a gap-free log.1..log.N with N <= 12; maxRotatedFiles other "
           "than None, 1, 2 (fresh directory) / None, 11 (pre-state)",
           "directories that are not writable (rotate() then silently keeps the old file); DailyLogFile; "
           "LogReader; explicit rotate() calls by the application (only size-triggered rotation)",
           "payload *content*: LogFile is data-oblivious; any attempt to inspect a payload raises in the harness",
           "write-back caching (no fsync): the filesystem contract below is assumed",
           "two processes logging to the same file"]
ASSUMPTIONS = ["fake filesystem contract: rename/remove are atomic; a crashed write leaves a prefix of its data; "
               "data and directory operations become durable in program order; after the crash no further "
               "call of the dead process reaches the disk; model validated against the real OS on a script of "
               "70 calls on every run",
               "LogFile opens its file unbuffered (buffering=0), so each write() is one disk step; the model's "
               "buffered file objects (validated against CPython's) are not involved",
               "payloads are opaque spans with symbolic length under the solver (content access raises "
               "ContentAccess); the text payload is a str subclass whose len() is its character count and "
               "whose encode() yields a span of its byte count; in replay real bytes / real str are written",
               "timeliness (a bytes-only current file that has reached rotateLength receives no further write) "
               "follows the implementation's `>=` and twisted's own test_logfile, not the C53 statement"]
EXPLANATION = ("real LogFile on a fake filesystem with opaque payloads of symbolic length: rotated files oldest "
               "first + current file compared with the stream of payloads after every run, with and without a crash")

SYM = api.MODE != "real"
PATH = "/d/log"
_WIDE = ["z", "é", "€", "\U0001F600"]      # 1, 2, 3, 4 bytes in UTF-8


class _Text(str):
    """text payload number wid: nchars characters, nbytes bytes once encoded (solver world only)"""
    def __new__(cls, wid, nchars, nbytes):
        o = str.__new__(cls, "")
        o.wid = wid
        o.nchars = nchars
        o.nbytes = nbytes
        return o

    def __len__(self):
        return self.nchars

    def encode(self, encoding="utf-8", errors="strict"):
        return Rope.payload(self.wid, self.nbytes)


def _payload(wid, n):
    return Rope.payload(wid, n) if SYM else bytes([97 + wid]) * n


def _text(wid, nchars, nbytes):
    """(value handed to write(), the bytes it stands for)"""
    if SYM:
        return _Text(wid, nchars, nbytes), Rope.payload(wid, nbytes)
    extra = nbytes - nchars
    s = ""
    for _ in range(nchars):
        e = 3 if extra > 3 else extra
        extra -= e
        s += _WIDE[e]
    return s, s.encode("utf-8")


def _empty():
    return Rope() if SYM else b""


def _cat(parts):
    out = _empty()
    for p in parts:
        out = out + p
    return out


def _disk(fs):
    """(identifiers of the rotated files, newest first; contents oldest first + current file)"""
    ids = []
    for n in fs.ls("/d"):
        if n == "log":
            continue
        if not n.startswith("log."):
            return None, None
        ids.append(int(n[4:]))
    ids.sort()
    parts = [fs.get("%s.%d" % (PATH, i)) for i in reversed(ids)]
    cur = fs.get(PATH)
    if cur is not None:
        parts.append(cur)
    return ids, parts


def _rotations(fs):
    """sizes of the current file at each rename log -> log.1"""
    return [op[3] for (_, _, op) in fs.log if op[0] == "rename" and op[1] == PATH]


def _mk(rot, maxr):
    return _logfile.LogFile("log", "/d", rotateLength=rot, maxRotatedFiles=None if maxr < 0 else maxr)


def selftest():
    t, raw = _text(0, 3, 7)
    assert len(t) == 3 and len(raw) == 7
    if not SYM:
        assert t.encode("utf8") == raw
    else:
        assert t.encode("utf8") == raw and isinstance(t, str)
    return 2 + fakefs.selftest()


def rotation(lens: List[int], rot: int, maxr: int, textw: int, tb: int, reopen_at: int) -> bool:
    """
    pre: len(lens) == B['writes'] and all(n >= 0 for n in lens)
    pre: rot >= 0 and maxr in (-1, 1, 2)
    pre: -1 <= textw < B['writes'] and -1 <= reopen_at < B['writes']
    pre: (textw < 0 and tb == 0) or (textw >= 0 and lens[textw] <= tb <= 4 * lens[textw])
    post: _
    """
    fs = FakeFS(empty=_empty())
    fs.dirs.add("/d")
    stream = []
    with installed(fs, _logfile):
        lf = _mk(rot, maxr)
        pure = True          # the current file holds no text write since LogFile last measured it
        for i in range(len(lens)):
            if i == reopen_at:
                lf.reopen()
                pure = True
            if i == textw:
                data, raw = _text(i, lens[i], tb)
            else:
                data = raw = _payload(i, lens[i])
            before = len(fs.get(PATH))
            nrot = len(_rotations(fs))
            lf.write(data)
            stream.append(raw)
            rotated = len(_rotations(fs)) > nrot
            if rotated:
                pure = True
            elif pure and rot > 0 and before >= rot:
                return False                     # wrote into a file that had reached rotateLength
            if i == textw:
                pure = False
        lf.close()
        cover()
        ids, parts = _disk(fs)
        if ids is None:
            return False
        sizes = _rotations(fs)
        if len(sizes) > 0:
            cover("rotated")
        if len(sizes) > 1:
            cover("rotated_twice")
        # every rotated file had reached rotateLength
        for s in sizes:
            if rot == 0 or s < rot:
                return False
        # retention: exactly the newest min(N, rotations) files, numbered 1..
        keep = len(sizes) if maxr < 0 or len(sizes) < maxr else maxr
        if ids != list(range(1, keep + 1)):
            return False
        if maxr >= 0 and len(sizes) > maxr:
            cover("dropped")
        # oldest first + current = the stream minus the files that retention removed
        total = _cat(parts)
        if maxr < 0:
            return total == _cat(stream)
        return fakefs.is_suffix_of_stream(total, stream, _empty())


def rotate_crash(lens: List[int], rot: int, maxr: int, crash_at: int, cut: int) -> bool:
    """
    pre: len(lens) == B['writes'] and all(n >= 0 for n in lens)
    pre: rot >= 0 and maxr in (-1, 1, 2)
    pre: 0 <= crash_at <= B['steps'] and cut >= 0
    post: _
    """
    fs = FakeFS(empty=_empty())
    fs.dirs.add("/d")
    stream = []
    with installed(fs, _logfile):
        fs.arm(crash_at, cut)
        lf = None
        i = 0
        writing = False
        try:
            lf = _mk(rot, maxr)
            while i < len(lens):
                raw = _payload(i, lens[i])
                writing = True
                lf.write(raw)
                if fs.crashed:
                    break
                writing = False
                stream.append(raw)
                i += 1
        except Crash:
            pass
        if fs.crashed:
            cover("crashed")
            last = fs.log[-1][2]
            if writing:
                if last[0] == "write":
                    # the dying write got a prefix of payload i onto the disk
                    cover("torn")
                    n = lens[i]
                    stream.append(_payload(i, n)[:cut] if cut < n else _payload(i, n))
                else:
                    cover("in_rotate")
                i += 1
            # restart on the same directory and write the rest
            fs.reboot()
            lf = _mk(rot, maxr)
            while i < len(lens):
                raw = _payload(i, lens[i])
                lf.write(raw)
                stream.append(raw)
                i += 1
        lf.close()
        cover()
        ids, parts = _disk(fs)
        if ids is None:
            return False
        if maxr >= 0 and len(ids) > maxr:
            return False
        total = _cat(parts)
        if maxr < 0:
            return total == _cat(stream)          # nothing lost, duplicated or reordered
        return fakefs.is_suffix_of_stream(total, stream, _empty())


def _pick_n(n0):
    """the symbolic number of pre-existing rotated files as a concrete one (one path per value)"""
    for k in range(8, 13):
        if n0 == k:
            return k
    return 12


def _prestate(fs, n, plen, clen):
    """log.n (oldest) .. log.1 and a current file, every one with its own payload; returns the stream"""
    stream = []
    for i in range(n, 0, -1):
        c = _payload(10 + i, plen)
        fs.put("%s.%d" % (PATH, i), c)
        stream.append(c)
    cur = _payload(9, clen)
    fs.put(PATH, cur)
    stream.append(cur)
    return stream


def _listing_ok(lf, fs):
    """listLogs() reports the integer suffixes in increasing order, and they are the files on disk"""
    got = lf.listLogs()
    ids, _ = _disk(fs)
    if ids is None or got != ids:
        return False
    for a, b_ in zip(got, got[1:]):
        if not a < b_:
            return False
    return True


def prestate(n0: int, plen: int, clen: int, lens: List[int], rot: int, maxr: int) -> bool:
    """
    pre: 8 <= n0 <= 12 and plen >= 1 and clen >= 0
    pre: len(lens) == 2 and all(n >= 0 for n in lens)
    pre: rot >= 0 and maxr in (-1, 11)
    post: _
    """
    n = _pick_n(n0)
    fs = FakeFS(empty=_empty())
    fs.dirs.add("/d")
    stream = _prestate(fs, n, plen, clen)
    with installed(fs, _logfile):
        lf = _mk(rot, maxr)
        if not _listing_ok(lf, fs):
            return False
        for i in range(len(lens)):
            raw = _payload(i, lens[i])
            before = len(fs.get(PATH))
            nrot = len(_rotations(fs))
            lf.write(raw)
            stream.append(raw)
            if len(_rotations(fs)) == nrot and rot > 0 and before >= rot:
                return False                     # wrote into a file that had reached rotateLength
            if not _listing_ok(lf, fs):
                return False
        lf.close()
        cover()
        ids, parts = _disk(fs)
        sizes = _rotations(fs)
        for sz in sizes:
            if rot == 0 or sz < rot:
                return False
        if len(sizes) > 0:
            cover("rotated")
        if len(sizes) > 1:
            cover("rotated_twice")
        if len(sizes) == 0:
            keep = n
        elif maxr < 0 or n + len(sizes) < maxr:
            keep = n + len(sizes)
        else:
            keep = maxr
            cover("dropped")
        if ids != list(range(1, keep + 1)):
            return False
        total = _cat(parts)
        if maxr < 0:
            return total == _cat(stream)          # nothing overwritten, lost or reordered
        return fakefs.is_suffix_of_stream(total, stream, _empty())


def prestate_crash(n0: int, plen: int, clen: int, l1: int, l2: int, rot: int, maxr: int, crash_at: int,
                   cut: int) -> bool:
    """
    pre: B['pn_lo'] <= n0 <= B['pn_hi'] and plen >= 1 and clen >= 0 and l1 >= 0 and l2 >= 0
    pre: rot >= 0 and maxr in (-1, 11)
    pre: 0 <= crash_at <= B['psteps'] and cut >= 0
    post: _
    """
    n = _pick_n(n0)
    fs = FakeFS(empty=_empty())
    fs.dirs.add("/d")
    stream = _prestate(fs, n, plen, clen)
    lens = [l1, l2]
    with installed(fs, _logfile):
        fs.arm(crash_at, cut)
        i = 0
        writing = False
        lf = None
        try:
            lf = _mk(rot, maxr)
            while i < 2:
                raw = _payload(i, lens[i])
                writing = True
                lf.write(raw)
                if fs.crashed:
                    break
                writing = False
                stream.append(raw)
                i += 1
        except Crash:
            pass
        if fs.crashed:
            cover("crashed")
            if writing:
                if fs.log[-1][2][0] == "write":
                    m = lens[i]
                    stream.append(_payload(i, m)[:cut] if cut < m else _payload(i, m))
                else:
                    cover("in_rotate")
                i += 1
            fs.reboot()
            lf = _mk(rot, maxr)
            if not _listing_ok(lf, fs):
                return False
            while i < 2:
                raw = _payload(i, lens[i])
                lf.write(raw)
                stream.append(raw)
                i += 1
        if not _listing_ok(lf, fs):
            return False
        lf.close()
        cover()
        ids, parts = _disk(fs)
        if maxr >= 0 and len(ids) > (maxr if maxr > n else n):
            return False
        total = _cat(parts)
        if maxr < 0:
            return total == _cat(stream)
        return fakefs.is_suffix_of_stream(total, stream, _empty())


def _sh_pre(tier):
    return [("n0 == %d" % k, "maxr == %d" % m) for k in range(8, 13) for m in (-1, 11)]


def _sh_precrash(tier):
    bb = BOUNDS[tier]
    return [("n0 == %d" % k, "maxr == %d" % m) for k in range(bb["pn_lo"], bb["pn_hi"] + 1) for m in (-1, 11)]


def _sh_rot(tier):
    out = []
    for m in (-1, 1, 2):
        for tw in range(-1, BOUNDS[tier]["writes"]):
            out.append(("maxr == %d" % m, "textw == %d" % tw))
    return out


def _sh_crash(tier):
    st = BOUNDS[tier]["steps"]
    if tier == "quick":
        cuts = [(0, st // 3), (st // 3 + 1, 2 * st // 3), (2 * st // 3 + 1, st)]
    else:
        cuts = [(c, c) for c in range(st + 1)]
    return [("maxr == %d" % m, "%d <= crash_at <= %d" % c) for m in (-1, 1, 2) for c in cuts]


HARNESSES = [
    H(rotation, shards=_sh_rot, labels=("end", "rotated", "rotated_twice", "dropped"),
      timeout={"quick": 150, "thorough": 900}),
    H(rotate_crash, shards=_sh_crash, labels=("end", "crashed", "torn", "in_rotate"),
      timeout={"quick": 150, "thorough": 1200}),
    H(prestate, shards=_sh_pre, labels=("end", "rotated", "rotated_twice", "dropped"),
      timeout={"quick": 150, "thorough": 600}),
    H(prestate_crash, shards=_sh_precrash, labels=("end", "crashed", "in_rotate"),
      timeout={"quick": 150, "thorough": 900}),
]

VECTORS = {
    "rotation": [
        ([3, 7, 11], 10, -1, -1, 0, -1),       # test_logfile.testRotation: 3 + 7 bytes fill the file, the 11 rotate it
        ([10, 10, 10], 10, 1, -1, 0, -1),
        ([10, 10, 10], 10, 2, 1, 25, 2),
        ([5, 5, 5], 0, -1, 0, 5, 1),
        ([4, 0, 9], 4, 2, 2, 36, 0),
        ([1, 1, 1, 1], 1, 2, -1, 0, -1),       # three rotations, two files kept
    ],
    "prestate": [
        (10, 3, 5, [1, 1], 5, -1), (9, 1, 1, [1, 1], 1, -1), (12, 2, 4, [4, 4], 4, 11), (8, 1, 0, [1, 1], 3, 11),
    ],
    "prestate_crash": [
        (10, 3, 5, 1, 1, 5, -1, 3, 0), (9, 1, 1, 1, 1, 1, -1, 10, 0), (11, 1, 1, 1, 1, 1, 11, 2, 0),
        (10, 1, 1, 4, 1, 1, -1, 12, 2),
    ],
    "rotate_crash": [
        ([10, 10, 10], 10, -1, 4, 0), ([10, 10, 10], 10, 1, 6, 0), ([10, 10, 10], 10, 2, 9, 3),
        ([2, 2, 2], 1, -1, 7, 1), ([2, 2, 2], 1, -1, 16, 0), ([3, 0, 3], 2, 2, 0, 0),
        ([1, 1, 1, 1], 1, 2, 11, 0), ([1, 1, 1, 1], 1, -1, 12, 0),
    ],
}
