"""C13 callFromThread: queue discipline of ReactorBase.callFromThread / runUntilCurrent (no real threads)."""
from typing import List

from twisted.internet.base import ReactorBase
from twisted.logger import globalLogPublisher

from vlib import api
from vlib.api import H, cover

PROPERTY = "C13"
LEVEL = "exploration"
ENCODED = ["twisted.internet.base:ReactorBase.callFromThread",
           "twisted.internet.base:ReactorBase.runUntilCurrent"]
BOUNDS = {"quick": {"len": 6}, "thorough": {"len": 7}}
B = {}
P = 3       # external logical producers 0..2; producer id 3 is the reactor thread itself (nested call)
BOUNDS_TEXT = ("every sequentially-consistent interleaving of total length <= len of: producer p (of 3) issues "
               "its next numbered callFromThread; the reactor runs one runUntilCurrent; plus at most one event "
               "placed INSIDE a drain: while the dk-th executed call runs, producer dq issues its next call or "
               "(dq == 3) the running call itself calls callFromThread; that call may also raise (logged, and "
               "the drain goes on).  Producers "
               "are named in order of first appearance (they are interchangeable).  Each history is followed "
               "by two more iterations to flush the queue")
OUTSIDE = ["real threads and OS scheduling; GIL-atomicity of list.append and of the list iterator in the "
           "drain loop (an append is one indivisible event here)",
           "interleavings at a finer grain than one whole callFromThread (append + wakeUp) / one whole queued "
           "call; more than one append landing inside drains per history",
           "the waker pipe/socket, doIteration, and the concrete reactors (select, poll, epoll, asyncio): "
           "wakeUp is a counting stub, so 'run promptly' is only checked as 'a wake-up was requested'; the "
           "part of the property about real reactors and latency is not claimed",
           "more than 3 producers, histories longer than len"]
ASSUMPTIONS = ["ReactorBase subclass with installWaker() a no-op, wakeUp() a counter and seconds() constant; "
               "callFromThread and runUntilCurrent are the real ones; no timed calls are pending",
               "sequential consistency at the granularity of whole callFromThread calls and whole queued calls"]
EXPLANATION = ("solver-enumerated interleavings of producer appends, reactor iterations and one append from "
               "inside the drain, run on the real callFromThread/runUntilCurrent and compared with a FIFO "
               "reference (exactly once, per-producer order, next-iteration rule, wake-up requests)")

_NoTracing = None
if api.MODE == "sym":   # the replay interpreter never imports CrossHair
    try:
        from crosshair.tracers import NoTracing as _NoTracing, is_tracing as _is_tracing
    except ImportError:
        _NoTracing = None


class _R(ReactorBase):
    wakes = 0

    def installWaker(self):
        pass

    def wakeUp(self):
        self.wakes += 1

    def seconds(self):
        return 0.0


def _mk_reactor():
    # ReactorBase.__init__ is concrete and input independent: build it outside the symbolic tracer
    if _NoTracing is not None and _is_tracing():
        with _NoTracing():
            return _R()
    return _R()


def _pick(v, lo, hi):
    # concrete case split driven by the solver: returns a concrete int equal to v
    for x in range(lo, hi):
        if v == x:
            return x
    return hi


class _Boom(Exception):
    pass


class _Q:
    def __init__(self, dk, dq, dr):
        self.R = _mk_reactor()
        self.nextseq = [0] * (P + 1)
        self.pending = []       # model queue: (p, j) in append order
        self.app_it = {}        # (p, j) -> iterations started when it was appended
        self.log = []           # (p, j, iteration in which it ran)
        self.it = 0
        self.nrun = 0
        self.expw = 0           # wake-ups that must have been requested so far
        self.dk, self.dq, self.dr = dk, dq, dr
        self.ok = True
        self.nraised = 0

    def append(self, p):
        j = self.nextseq[p]
        self.nextseq[p] += 1
        self.pending.append((p, j))
        self.app_it[(p, j)] = self.it
        self.R.callFromThread(self.run, p, j=j)
        self.expw += 1          # every callFromThread asks for a wake-up

    def run(self, p, j=None):
        idx = self.nrun
        self.nrun += 1
        self.log.append((p, j, self.it))
        if not self.pending or self.pending[0] != (p, j):
            self.ok = False     # not the oldest queued call: lost, duplicated or reordered
        else:
            self.pending.pop(0)
        if idx == self.dk:
            self.append(self.dq)
            if self.dr:
                self.nraised += 1
                raise _Boom()

    def iterate(self):
        self.it += 1
        errs = []

        def _obs(event):
            if event.get("log_failure") is not None:
                errs.append(1)
        r0 = self.nraised
        globalLogPublisher.addObserver(_obs)
        try:
            self.R.runUntilCurrent()
        finally:
            globalLogPublisher.removeObserver(_obs)
        if len(errs) != self.nraised - r0:
            self.ok = False     # exactly the exceptions raised by the calls are logged, nothing else
        if self.pending:
            self.expw += 1      # calls were left behind by the drain: the reactor must not go to sleep

    def check(self):
        R = self.R
        if R.wakes != self.expw:
            return False
        q = R.threadCallQueue
        if len(q) != len(self.pending):
            return False
        for x, (p, j) in zip(q, self.pending):
            f, a, kw = x
            if a != (p,) or kw != {"j": j}:
                return False
        return self.ok

    def final(self):
        if self.pending or self.R.threadCallQueue:
            return False
        seen = []
        last = [-1] * (P + 1)
        for (p, j, it) in self.log:
            if (p, j) in seen:
                return False                    # ran twice
            seen.append((p, j))
            if j != last[p] + 1:
                return False                    # per-producer order
            last[p] = j
            if it != self.app_it[(p, j)] + 1:
                return False                    # runs in the first iteration started after it was issued
        for p in range(P + 1):
            if last[p] + 1 != self.nextseq[p]:
                return False                    # a call never ran
        return True


def _canonical(ev):
    mx = -1
    for e in ev:
        if e < P:
            if e > mx + 1:
                return False
            if e > mx:
                mx = e
    return True


def interleave(ev: List[int], dk: int, dq: int, dr: bool) -> bool:
    """
    pre: len(ev) <= B['len'] and all(0 <= e <= P for e in ev)
    pre: -1 <= dk < B['len'] and 0 <= dq <= P
    pre: dk >= 0 or (dq == 0 and not dr)
    pre: len(ev) + (1 if dk >= 0 else 0) <= B['len']
    pre: _canonical(ev)
    pre: dk < sum(1 for e in ev if e < P)
    post: _
    """
    dk = _pick(dk, -1, B['len'] - 1)
    dq = _pick(dq, 0, P)
    Q = _Q(dk, dq, bool(dr))
    for e in ev:
        e = _pick(e, 0, P)
        if e < P:
            Q.append(e)
        else:
            Q.iterate()
        if not Q.check():
            return False
    Q.iterate()
    if not Q.check():
        return False
    Q.iterate()
    if dk >= 0 and Q.nrun > dk:
        cover("nested")
    cover()
    return Q.check() and Q.final()


def _shards(tier):
    n = BOUNDS[tier]["len"]
    if tier == "quick":
        out = [("dk == -1", "len(ev) == %d" % n), ("dk == -1", "len(ev) < %d" % n),
               ("dk >= 0", "len(ev) < %d" % (n - 1), "dq < 2"), ("dk >= 0", "len(ev) < %d" % (n - 1), "dq >= 2")]
        out += [("dk == %d" % k, "len(ev) == %d" % (n - 1), q) for k in range(n - 1)
                for q in (("dq < 2", "dq >= 2") if k >= 2 else ("dq == 0", "dq == 1", "dq == 2", "dq == 3"))]
        return out
    # thorough: shard preconditions are evaluated after the harness's own, so only splits on dk/dq/dr
    # (decided before the events are enumerated) reduce the work of a shard
    out = [("dk == -1", "len(ev) == %d" % n), ("dk == -1", "len(ev) < %d" % n), ("dk >= 0", "len(ev) < %d" % (n - 2))]
    out += [("dk == %d" % k, "len(ev) == %d" % (n - 2)) for k in range(n - 2)]
    out += [("dk == %d" % k, "len(ev) == %d" % (n - 1), "dq == %d" % q, d)
            for k in range(n - 1) for q in range(P + 1) for d in ("dr", "not dr")]
    return out


HARNESSES = [
    H(interleave, shards=_shards, timeout={"quick": 90, "thorough": 1200}, labels=("end", "nested")),
]

VECTORS = {"interleave": [([0, 1, 3, 0, 3], -1, 0, False), ([0, 1, 3, 0, 3], 1, 3, False),
                          ([0, 0, 1, 3, 2], 2, 1, False), ([3, 0, 3, 3, 0], 0, 0, False)]}
