"""C18 HTTP/1.1 server: what the application receives does not depend on how the bytes are segmented.

Engine E2.  `HTTPChannel`, `_parseRequestLine`, the transfer decoders (twisted.web.http), `LineReceiver`
(twisted.protocols.basic), `_abnf` and `http_headers` are recompiled from /repo's source onto LBytes.
A request stream is built from a concrete shape (framing header, obs-fold, Expect, second pipelined
request) with symbolic holes (a header value, body bytes, one junk byte replacing a structural
character); the split index is a symbolic int that is turned into one path per position.  The
channel is run twice on the same symbolic stream (one delivery / two or many deliveries) with a
recording requestFactory and a recording transport; everything observable must be identical.

This module also holds the machinery shared with C19 and C21 (lifted namespaces, fake transport,
recording request, delivery driver).
"""
from zope.interface import implementer

from twisted.internet import address as _address
from twisted.internet import interfaces as _interfaces

from vlib import api, lbytes, lift
from vlib.api import H, cover
from vlib.lift import b, t

PROPERTY = "C18"
LEVEL = "model_checking"
ENCODED = ["twisted.web.http:HTTPChannel.lineReceived", "twisted.web.http:HTTPChannel.headerReceived",
           "twisted.web.http:HTTPChannel._maybeChooseTransferDecoder",
           "twisted.web.http:HTTPChannel.allHeadersReceived", "twisted.web.http:HTTPChannel.allContentReceived",
           "twisted.web.http:HTTPChannel.rawDataReceived", "twisted.web.http:HTTPChannel.requestDone",
           "twisted.web.http:HTTPChannel.checkPersistence",
           "twisted.web.http:HTTPChannel._respondToBadRequestAndDisconnect",
           "twisted.web.http:_parseRequestLine", "twisted.web.http:_IdentityTransferDecoder",
           "twisted.web.http:_ChunkedTransferDecoder", "twisted.protocols.basic:LineReceiver.dataReceived",
           "twisted.protocols.basic:LineReceiver.setLineMode", "twisted.web.http_headers:Headers.addRawHeader",
           "twisted.web.http_headers:_NameEncoder.encode", "twisted.web._abnf:_istoken"]

# ------------------------------------------------------------------------------------------------
# shared machinery: the lifted world
# ------------------------------------------------------------------------------------------------

lbytes.FAST_CLASS = True  # `c in b"<class>"` on a symbolic byte: one fork instead of one per range
lbytes.NORMALISE = True   # all-concrete pieces of a partly symbolic buffer become real strs again

LB = lift.lift("twisted.protocols.basic", names=["LineReceiver", "_PauseableMixin"])
LA = lift.lift("twisted.web._abnf", use_re=True)
LH = lift.lift("twisted.web.http_headers", overrides={"_istoken": LA._istoken}, encode_calls=True)

HTTP_NAMES = ["HTTPChannel", "_ChunkedTransferDecoder", "_IdentityTransferDecoder", "_parseRequestLine",
              "_chunkExtChars", "toChunk", "Request", "_getContentFile"]


def fresh_name_cache():
    """every harness run starts from an empty header-name cache.  `_nameEncoder._canonicalHeaderCache` is
    a process-global dict that outlives a request, a connection and (under CrossHair) a path: real world
    -> cleared; lifted world -> a fresh equality-lookup map (a dict would hash = realise a name with a
    symbolic byte), so that a name used a second time inside one harness run DOES take the cached code
    path, exactly as in a long-running server"""
    if LH.__real__:
        LH._nameEncoder._canonicalHeaderCache.clear()
    else:
        LH._nameEncoder._canonicalHeaderCache = lbytes.SymDict()


if LH.__real__:
    Headers = LH.Headers
else:
    fresh_name_cache()
    LH._NameEncoder._caseMappings = lbytes.SymDict(LH._NameEncoder._caseMappings)

    class Headers(LH.Headers):
        """the lifted Headers with its name->values dict replaced by an insertion-ordered map that
        looks keys up by equality instead of hashing (hashing a symbolic name realises it)"""
        __slots__ = []

        def __init__(self, rawHeaders=None):
            self._rawHeaders = lbytes.SymDict()
            if rawHeaders is not None:
                for name, values in rawHeaders.items():
                    self.setRawHeaders(name, values)

L = lift.lift("twisted.web.http", names=HTTP_NAMES,
              overrides={"basic": LB, "_istoken": LA._istoken, "_hexint": LA._hexint,
                         "Headers": Headers, "InvalidHeaderName": LH.InvalidHeaderName,
                         "_nameEncoder": LH._nameEncoder,
                         "_sanitizeLinearWhitespace": LH._sanitizeLinearWhitespace})

PEER = _address.IPv4Address("TCP", "192.0.2.1", 4321)
HOST = _address.IPv4Address("TCP", "192.0.2.2", 80)


@implementer(_interfaces.IPushProducer)
class FakeTransport:
    """records what the channel does to its transport (texts, latin-1)"""
    disconnecting = False

    def __init__(self):
        self.w = []          # one text per write()/writeSequence() call
        self.ev = []         # 'pause' / 'resume' / 'lose' / 'abort' / 'reg' / 'unreg'
        self.closed = False
        self.paused = False

    def write(self, data):
        self.w.append(t(data))

    def writeSequence(self, seq):
        self.w.append("".join([t(x) for x in seq]))

    def loseConnection(self):
        self.disconnecting = True
        self.closed = True
        self.ev.append("lose")

    def abortConnection(self):
        self.disconnecting = True
        self.closed = True
        self.ev.append("abort")

    def getPeer(self):
        return PEER

    def getHost(self):
        return HOST

    def pauseProducing(self):
        self.paused = True
        self.ev.append("pause")

    def resumeProducing(self):
        self.paused = False
        self.ev.append("resume")

    def stopProducing(self):
        self.ev.append("stop")

    def registerProducer(self, producer, streaming):
        self.ev.append("reg")

    def unregisterProducer(self):
        self.ev.append("unreg")

    def value(self):
        return "".join(self.w)


class RecRequest:
    """the channel's plug point `requestFactory(channel, queued)`: implements exactly what HTTPChannel
    calls on a request; records (command, path, version, headers, body) when the request is handed
    over and answers at once with a fixed response tagged with the request's ordinal"""

    def __init__(self, channel, queued=None):
        self.channel = channel
        self.requestHeaders = Headers()
        self.responseHeaders = Headers()
        self.chunks = []
        self.length = "unset"
        self.lost = 0

    def gotLength(self, length):
        self.length = length

    def handleContentChunk(self, data):
        self.chunks.append(t(data))

    def parseCookies(self):
        pass

    def requestReceived(self, command, path, version):
        log = self.channel.v_log
        hs = [(t(k), [t(x) for x in vs]) for k, vs in self.requestHeaders.getAllRawHeaders()]
        log.append((t(command), t(path), t(version), hs, "".join(self.chunks)))
        self.channel.write(b("<R%d>" % len(log)))
        self.channel.requestDone(self)

    def connectionLost(self, reason):
        self.lost += 1


def new_channel(factory=RecRequest):
    ch = L.HTTPChannel()
    ch.requestFactory = factory
    ch.timeOut = None
    ch.v_log = []
    tr = FakeTransport()
    ch.makeConnection(tr)
    return ch, tr


def run_channel(pieces, factory=RecRequest):
    """deliver the pieces in order; like a real transport, nothing is delivered once the channel
    has asked for the connection to be closed.  Returns (handed-over requests, bytes written,
    closed?, index of the first piece not delivered)"""
    ch, tr = new_channel(factory)
    n = 0
    for p in pieces:
        if tr.disconnecting:
            break
        if len(p) > 0:
            ch.dataReceived(b(p))
        n += 1
    return ch.v_log, tr.value(), tr.closed, n


def split_cases(n, split):
    """turn the symbolic split index into one concrete-position path per value"""
    for k in range(n + 1):
        if split == k:
            return k
    return n


def conc_len(s, mx):
    """the concrete length of a symbolic string whose length the shard fixes"""
    for k in range(mx + 1):
        if len(s) == k:
            return k
    return mx


def fix(s, n):
    """the same text as `s` (whose length the caller knows to be the concrete n), rebuilt character by
    character: CrossHair then keeps a Python list of code points (concrete length, concrete
    neighbours stay concrete) instead of a z3 sequence whose every index costs a solver query"""
    out = ""
    for i in range(n):
        out = out + s[i]
    return out


def all_latin1(s):
    for c in s:
        if ord(c) > 255:
            return False
    return True


# ------------------------------------------------------------------------------------------------
# C18 proper
# ------------------------------------------------------------------------------------------------

BOUNDS = {"quick": {"v": 1, "bd": 2, "shapes": 12, "jshapes": 6, "sl": 1},
          "thorough": {"v": 2, "bd": 3, "shapes": 24, "jshapes": 12, "sl": 2}}
B = {}
BOUNDS_TEXT = ("request streams of 44-136 bytes from 12 (quick) / 24 (thorough) shapes = framing {none, "
               "Content-Length, chunked} x obs-fold x Expect: 100-continue (x Connection: close in thorough), always "
               "followed by a second pipelined request.  seg_sizeline: chunk-size line (size + extension, last byte "
               "symbolic) of limit-1 .. limit+1 bytes (thorough: +-2) with the decoder's line limit scaled from 1024 "
               "to 8, every split and byte-wise delivery.  seg_stray: Content-Length / chunked body followed by 0-3 "
               "stray CRLFs and two more requests, symbolic body, every split.  seg_split: symbolic header value of v bytes (1 quick / 2 "
               "thorough), symbolic body of bd bytes, every 2-piece split of every stream.  seg_junk: one symbolic "
               "junk byte replacing one of the 12-19 structural characters of a shape (request-line bytes, "
               "separators, CR / LF, header-name byte, colon, length digit, chunk-size digit, chunk CRLF, last-chunk, "
               "first / last byte of the second request), the 4 cuts around the junk byte and byte-at-a-time "
               "delivery (6 shapes quick / 12 thorough); seg_junk_all (thorough, 6 shapes): junk byte x every split")
OUTSIDE = ["streams outside the shapes (header names come from a concrete menu; more than two requests; more "
           "than one junk byte; a junk byte inserted rather than replacing a character)",
           "three or more deliveries other than byte-at-a-time; in the quick tier the junk byte is combined "
           "only with the 4 cuts next to it and with byte-wise delivery, not with every split",
           "the real limits MAX_LENGTH / totalHeadersSize = 16384 and maxHeaders = 500 (never reached here); the "
           "chunk-size-line limit 1024 is exercised scaled down to 8 (seg_sizeline)",
           "timeouts (timeOut=None: no reactor) and HTTP/2"]
ASSUMPTIONS = ["LBytes/LBuf reproduce bytes/bytearray semantics (vlib.lbytes.selftest on every run); the lifted "
               "channel agrees with the real one on the concrete vectors below",
               "in the lifted world Headers' dict and the process-global header-name cache are equality-lookup "
               "ordered maps (a dict would hash a symbolic name); the cache starts empty at every harness run",
               "a transport delivers nothing after loseConnection() (as twisted.internet.tcp does)"]
EXPLANATION = ("lifted real HTTPChannel + LineReceiver + decoders run twice on the same symbolic stream "
               "(whole / split at every index / byte-wise) with a recording requestFactory and transport")

_SECOND = "GET /b HTTP/1.1\r\n\r\n"


def build(shape, v, bd):
    """request stream of a shape; returns (stream, anchors) where anchors are the indices of the
    structural characters a junk byte may replace"""
    fr = shape % 3               # 0 none, 1 Content-Length, 2 chunked
    fold = (shape // 3) % 2
    exp = (shape // 6) % 2
    close = (shape // 12) % 2
    lv = conc_len(v, 3)
    lb = conc_len(bd, 3)
    v = fix(v, lv)
    bd = fix(bd, lb)
    head = ("POST" if fr else "GET") + " /a HTTP/1.1\r\n"
    anchors = [0, len(head) - 14, len(head) - 11, len(head) - 3, len(head) - 2, len(head) - 1]  # 'P', SP, SP, '1', CR, LF
    if exp:
        head += "Expect: 100-continue\r\n"
    if close:
        head += "Connection: close\r\n"
    fa = len(head)
    if fr == 1:
        head += "Content-Length: %d\r\n" % lb
        anchors += [fa, fa + 14, fa + 16]        # 'C', ':', digit
    elif fr == 2:
        head += "Transfer-Encoding: chunked\r\n"
        anchors += [fa, fa + 17, fa + 19]        # 'T', ':', 'c'
    ha = len(head)
    if fold:
        head += "H: x\r\n " + v + "\r\n"
        anchors += [ha + 6]                      # the folding SP
    else:
        head += "H: " + v + "\r\n"
        anchors += [ha + 1]                      # ':'
    ea = ha + (7 if fold else 3) + lv
    anchors += [ea, ea + 2, ea + 3]              # CR of the last header line, CR LF of the blank line
    head += "\r\n"
    ba = ea + 4
    if fr == 0:
        body = ""
    elif fr == 1:
        body = bd
        anchors += [ba]
    else:
        body = "%x\r\n" % lb + bd + "\r\n0\r\n\r\n"
        anchors += [ba, ba + 1, ba + 3 + lb, ba + 5 + lb]   # size digit, CR, CR after data, last-chunk '0'
    sa = ba + len(body)
    anchors += [sa, sa + len(_SECOND) - 2]       # first byte of the second request, its final CR
    return head + body + _SECOND, anchors


def _same(a, c):
    return a[0] == c[0] and a[1] == c[1] and a[2] == c[2]


def seg_split(shape: int, v: str, bd: str, split: int) -> bool:
    """
    pre: 0 <= shape < B['shapes']
    pre: len(v) == B['v'] and len(bd) == B['bd'] and all_latin1(v) and all_latin1(bd)
    pre: 0 <= split
    post: _
    """
    fresh_name_cache()
    stream, _ = build(shape, v, bd)
    k = split_cases(len(stream), split)
    whole = run_channel([stream])
    two = run_channel([stream[:k], stream[k:]])
    api.obs((whole[:3], two[:3]))
    cover()
    return _same(whole, two)


def seg_stray(fr: int, ncr: int, bd: str, split: int) -> bool:
    """
    pre: 1 <= fr <= 2 and 0 <= ncr <= 3
    pre: len(bd) == 2 and all_latin1(bd)
    pre: 0 <= split
    post: _
    """
    # a request with a Content-Length / chunked body, then 0-3 stray CRLFs (clients are known to send one
    # after a POST body), then the next pipelined request: every split, in particular at the end of the
    # body and inside the stray CRLFs
    fresh_name_cache()
    bd = fix(bd, 2)
    if split_cases(2, fr) == 1:
        first = "POST /a HTTP/1.1\r\nContent-Length: 2\r\n\r\n" + bd
    else:
        first = "POST /a HTTP/1.1\r\nTransfer-Encoding: chunked\r\n\r\n2\r\n" + bd + "\r\n0\r\n\r\n"
    stream = first + "\r\n" * split_cases(3, ncr) + _SECOND + "GET /c HTTP/1.1\r\n\r\n"
    k = split_cases(len(stream), split)
    whole = run_channel([stream])
    two = run_channel([stream[:k], stream[k:]])
    api.obs((whole[:3], two[:3]))
    cover()
    return _same(whole, two)


SIZE_LIMIT = 8      # maxChunkSizeLineLength (really 1024) while seg_sizeline runs


class _scaled_size_limit:
    """for the duration of one harness run the chunk-size-line limit of the decoder under test is 8
    instead of 1024 (module global of the lifted namespace / of the real module in replay), so that
    lines just below, at and above the limit are inside the bound; restored on every exit"""

    def __enter__(self):
        import twisted.web.http as real
        self.where = real.__dict__ if L.__real__ else L.__ns__
        self.old = self.where["maxChunkSizeLineLength"]
        self.where["maxChunkSizeLineLength"] = SIZE_LIMIT

    def __exit__(self, *exc):
        self.where["maxChunkSizeLineLength"] = self.old
        return False


def seg_sizeline(n: int, ec: str, split: int) -> bool:
    """
    pre: SIZE_LIMIT - B['sl'] <= n <= SIZE_LIMIT + B['sl']
    pre: len(ec) == 1 and ord(ec) < 256
    pre: 0 <= split
    post: _
    """
    # a chunk-size line (size + chunk extension) of n bytes, n around the decoder's line-length limit:
    # the verdict on the line (accepted / 400) and everything after it must not depend on where the
    # deliveries are cut, in particular between the CR and the LF that end the line
    fresh_name_cache()
    n = SIZE_LIMIT - 2 + split_cases(4, n - (SIZE_LIMIT - 2))
    line = "2;" + "x" * (n - 3) + fix(ec, 1)
    stream = ("POST /a HTTP/1.1\r\nTransfer-Encoding: chunked\r\n\r\n" + line + "\r\nab\r\n0\r\n\r\n" + _SECOND)
    k = split_cases(len(stream), split)
    with _scaled_size_limit():
        whole = run_channel([stream])
        two = run_channel([stream[:k], stream[k:]])
        many = run_channel([stream[i:i + 1] for i in range(len(stream))])
    api.obs((whole[:3], two[:3], many[:3]))
    cover()
    return _same(whole, two) and _same(whole, many)


def seg_junk(shape: int, jpos: int, j: str, d: int) -> bool:
    """
    pre: 0 <= shape < B['jshapes'] and 0 <= jpos < 19
    pre: len(j) == 1 and ord(j) < 256
    pre: 0 <= d <= 3
    post: _
    """
    fresh_name_cache()
    stream, anchors = build(shape, "v", "bd")
    jp = split_cases(18, jpos)
    if jp >= len(anchors):
        return True
    p = anchors[jp]
    stream = stream[:p] + fix(j, 1) + stream[p + 1:]
    k = max(0, p - 1 + split_cases(3, d))      # the four cuts around the junk byte
    whole = run_channel([stream])
    two = run_channel([stream[:k], stream[k:]])
    many = run_channel([stream[i:i + 1] for i in range(len(stream))])
    api.obs((whole[:3], two[:3], many[:3]))
    cover()
    return _same(whole, two) and _same(whole, many)


def seg_junk_all(shape: int, jpos: int, j: str, split: int) -> bool:
    """
    pre: 0 <= shape < 6 and 0 <= jpos < 19
    pre: len(j) == 1 and ord(j) < 256
    pre: 0 <= split
    post: _
    """
    fresh_name_cache()
    stream, anchors = build(shape, "v", "bd")
    jp = split_cases(18, jpos)
    if jp >= len(anchors):
        return True
    p = anchors[jp]
    stream = stream[:p] + fix(j, 1) + stream[p + 1:]
    k = split_cases(len(stream), split)
    whole = run_channel([stream])
    two = run_channel([stream[:k], stream[k:]])
    api.obs((whole[:3], two[:3]))
    cover()
    return _same(whole, two)


def _shape_shards(tier):
    return [("shape == %d" % s,) for s in range(BOUNDS[tier]["shapes"])]


def _jshape_shards(tier):
    return [("shape == %d" % s,) for s in range(BOUNDS[tier]["jshapes"])]


HARNESSES = [
    H(seg_sizeline, shards=lambda tier: [("n == %d" % v,) for v in range(SIZE_LIMIT - BOUNDS[tier]["sl"],
                                                                         SIZE_LIMIT + BOUNDS[tier]["sl"] + 1)],
      timeout={"quick": 120, "thorough": 600}),
    H(seg_stray, shards=[("fr == %d" % f, "ncr == %d" % n) for f in (1, 2) for n in range(4)],
      timeout={"quick": 120, "thorough": 600}),
    H(seg_split, shards=_shape_shards, timeout={"quick": 240, "thorough": 1500}),
    H(seg_junk, shards=lambda tier: [("shape == %d" % s, "jpos %% 2 == %d" % r)
                                     for s in range(BOUNDS[tier]["jshapes"]) for r in range(2)],
      timeout={"quick": 240, "thorough": 900}),
    H(seg_junk_all, shards=lambda tier: [("shape == %d" % s, "jpos %% 3 == %d" % r)
                                         for s in range(6) for r in range(3)],
      timeout={"thorough": 1500}, tiers=("thorough",)),
]

VECTORS = {
    "seg_sizeline": [(7, "y", 50), (8, "y", 53), (8, "y", 57), (7, "y", 56), (9, "y", 55), (8, "\r", 54), (7, "\x00", 10), (6, "=", 52),
                     (10, "y", 56), (8, "\n", 0)],
    "seg_stray": [(1, 0, "ab", 40), (1, 1, "ab", 41), (1, 2, "ab", 41), (1, 2, "ab", 42), (1, 3, "\r\n", 43), (2, 1, "ab", 60),
                  (2, 2, "ab", 59), (2, 2, "xy", 0), (2, 3, "ab", 61)],
    "seg_split": [(0, "v", "ab", 5), (1, "\r", "\r\n", 40), (2, "\x00", "xy", 70), (4, " ", "a\xff", 33),
                  (8, "\t", "12", 60), (11, ":", "zz", 90), (13, "x", "..", 50), (17, "\n", "ab", 77)],
    "seg_junk": [(0, 0, "\r", 0), (1, 7, "x", 1), (2, 12, "g", 2), (2, 14, "\n", 3), (5, 8, "\t", 0),
                 (1, 3, "\xff", 2), (2, 15, "1", 1), (0, 9, "\r", 3), (4, 12, "\x00", 2)],
    "seg_junk_all": [(1, 6, ";", 30), (2, 13, "\n", 60)],
}


def selftest():
    return lbytes.selftest()
