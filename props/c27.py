"""C27 redirect following: targets, limit, method rules, confinement of sensitive headers.

Engine E1 on the real `RedirectAgent` / `BrowserLikeRedirectAgent` (twisted.web.client) with real
bytes: every value (status, Location, method, limit, header set, agent class) comes from a MENU and is
selected by a symbolic integer, so the solver drives the case split and each menu combination inside
the bound is one decided path.  A fake inner agent records (method, uri, headers) of every request and
hands back Deferreds that the harness fires with real `twisted.web._newclient.Response` objects.

The oracle is a reference model written from RFC 9110 15.4 / 10.2.2, RFC 3986 5.2 (own resolver,
cross-checked against urllib on every run) and the class docstrings -- not from the code.
"""
import re
from typing import List

from twisted.internet.defer import Deferred
from twisted.web import client as _client
from twisted.web import error as _error
from twisted.web._newclient import Response, ResponseFailed
from twisted.web.http_headers import Headers

from vlib import api
from vlib.api import H, cover

PROPERTY = "C27"
LEVEL = "model_checking"
ENCODED = ["twisted.web.client:RedirectAgent.request", "twisted.web.client:RedirectAgent._handleResponse",
           "twisted.web.client:RedirectAgent._handleRedirect", "twisted.web.client:RedirectAgent._resolveLocation",
           "twisted.web.client:RedirectAgent.__init__", "twisted.web.client:BrowserLikeRedirectAgent",
           "twisted.web.client:_urljoin", "twisted.web.client:URI.fromBytes"]
BOUNDS = {"quick": {"hops": 3, "maxlimit": 3}, "thorough": {"hops": 4, "maxlimit": 4}}
B = {}
BOUNDS_TEXT = ("redirect chains of up to `hops` responses from http://a/p/q (and http://a/p/q#f); one hop ranges over "
               "the full menu (5 redirect statuses x 10 Location values + 200), the other hops over a 4-entry menu "
               "(302 cross-origin absolute, 301 back to the original origin, 303 relative, "
               "200), every position of the full hop; a second family varies redirectLimit 0..maxlimit and "
               "presence of request headers over the small menu + missing Location; methods GET/HEAD/POST, both "
               "agent classes")
OUTSIDE = ["chains longer than `hops`; two full-menu hops in the same chain (thorough tier has hops=4)",
           "Location values outside the menu (userinfo, IPv6 literals, non-ASCII, queries); several Location headers",
           "request bodies (bodyProducer is not re-sent on a redirect: only GET/HEAD are followed unchanged)",
           "the inner Agent itself (connection, pool, cookies); only the requests it is asked to make are observed"]
ASSUMPTIONS = ["all values are concrete menu entries; the solver's role is the exhaustive case split",
               "the inner agent is a fake that records requests; responses are real _newclient.Response objects",
               "reference URI resolution = own RFC 3986 5.2 resolver + RFC 9110 10.2.2 fragment inheritance, "
               "checked against urllib.parse.urljoin on the whole menu product in selftest()"]
EXPLANATION = ("real redirect agents driven through every menu combination of a bounded redirect chain; each issued "
               "request compared with an RFC reference model (target, method, limit, sensitive headers)")

# ---- menus ------------------------------------------------------------------------------------------

ORIGS = [b"http://a/p/q", b"http://a/p/q#f"]
METHODS = [b"GET", b"HEAD", b"POST"]
CLASSES = [_client.RedirectAgent, _client.BrowserLikeRedirectAgent]
STATUSES = [301, 302, 303, 307, 308]
LOCATIONS = [b"http://b/dir/x", b"http://a/q/r", b"http://a:8080/z", b"https://a/z", b"y", b"../y", b"/abs",
             b"//b/p", None, b"http://a:80/same#g"]
FULL = [(s, l) for s in STATUSES for l in LOCATIONS] + [(200, None)]
SMALL = [(302, b"http://b/dir/x"), (301, b"http://a/back"), (303, b"y"), (200, None)]
SMALLM = SMALL + [(302, None)]
SECRET = b"X-Secret"
ALLHDRS = {b"Authorization": [b"Basic xyz"], b"Cookie": [b"sid=1"], SECRET: [b"s3"], b"X-Harmless": [b"h"]}

# ---- reference: RFC 3986 5.2 + RFC 9110 10.2.2 ---------------------------------------------------------

_URI_RE = re.compile(rb"^(([^:/?#]+):)?(//([^/?#]*))?([^?#]*)(\?([^#]*))?(#(.*))?$", re.S)


def _usplit(u):
    m = _URI_RE.match(u)
    return m.group(2), m.group(4), m.group(5), m.group(7), m.group(9)


def _remove_dots(path):
    inp = path
    out = []
    while inp:
        if inp.startswith(b"../"):
            inp = inp[3:]
        elif inp.startswith(b"./"):
            inp = inp[2:]
        elif inp.startswith(b"/./"):
            inp = inp[2:]
        elif inp == b"/.":
            inp = b"/"
        elif inp.startswith(b"/../"):
            inp = inp[3:]
            if out:
                out.pop()
        elif inp == b"/..":
            inp = b"/"
            if out:
                out.pop()
        elif inp in (b".", b".."):
            inp = b""
        else:
            i = inp.find(b"/", 1)
            if i < 0:
                i = len(inp)
            out.append(inp[:i])
            inp = inp[i:]
    return b"".join(out)


def _resolve(base, ref):
    """target URI of a redirect: RFC 3986 5.2.2 (strict) and, when the reference has no fragment, the
    fragment of the base (RFC 9110 10.2.2)"""
    bs, ba, bp, bq, bf = _usplit(base)
    rs, ra, rp, rq, rf = _usplit(ref)
    if rs is not None:
        ts, ta, tp, tq = rs, ra, _remove_dots(rp), rq
    else:
        if ra is not None:
            ta, tp, tq = ra, _remove_dots(rp), rq
        else:
            if rp == b"":
                tp = bp
                tq = rq if rq is not None else bq
            else:
                if rp.startswith(b"/"):
                    tp = _remove_dots(rp)
                else:
                    if ba is not None and bp == b"":
                        merged = b"/" + rp
                    else:
                        merged = bp[:bp.rfind(b"/") + 1] + rp
                    tp = _remove_dots(merged)
                tq = rq
            ta = ba
        ts = bs
    tf = rf if rf is not None else bf
    out = b""
    if ts is not None:
        out += ts + b":"
    if ta is not None:
        out += b"//" + ta
    out += tp
    if tq is not None:
        out += b"?" + tq
    if tf:
        out += b"#" + tf
    return out


def _origin(u):
    s, a, _p, _q, _f = _usplit(u)
    s = s.lower()
    host, _, port = a.partition(b":")
    if port == b"":
        port = {b"http": b"80", b"https": b"443"}[s]
    return (s, host.lower(), int(port))


# ---- fakes --------------------------------------------------------------------------------------------

class _Inner:
    def __init__(self):
        self.reqs = []

    def request(self, method, uri, headers=None, bodyProducer=None):
        d = Deferred()
        hd = None if headers is None else sorted((k, list(v)) for k, v in headers.getAllRawHeaders())
        self.reqs.append((method, uri, hd, bodyProducer, d))
        return d


def _pick(i, menu):
    for k in range(len(menu)):
        if i == k:
            return menu[k]
    return menu[-1]


def _menu(pattern, pos):
    if pattern < 0:
        return SMALLM
    return FULL if pattern == pos else SMALL


def _menu_ok(pattern, hop):
    for i in range(len(hop)):
        if not (0 <= hop[i] < len(_menu(pattern, i))):
            return False
    return True


def _follow_method(cls, status, m):
    """method of the follow-up request, or None when the agent documents that it does not follow.
    RFC 9110 15.4: 303 -> GET; 307/308 MUST NOT change the method; 301/302 may change POST to GET.
    RedirectAgent docstring: 301/302 behave like 307 and only GET/HEAD are redirected automatically.
    BrowserLikeRedirectAgent docstring: 301/302 behave like 303 (any method, altered to GET)."""
    if status == 303:
        return b"GET"
    if status in (301, 302) and cls is _client.BrowserLikeRedirectAgent:
        return b"GET"
    if m in (b"GET", b"HEAD"):
        return m
    return None


def _run(cls, method, orig, limit, with_headers, hops):
    """drive the real agent through the chain `hops` [(status, location)]; True iff every observation
    matches the reference model"""
    inner = _Inner()
    ra = cls(inner, redirectLimit=limit, sensitiveHeaderNames=[b"x-secret"])
    headers = Headers(dict((k, list(v)) for k, v in ALLHDRS.items())) if with_headers else None
    out = []
    d = ra.request(method, orig, headers, None)
    d.addCallbacks(lambda r: out.append(("ok", r)), lambda f: out.append(("err", f)))
    full = sorted((k, list(v)) for k, v in ALLHDRS.items())
    safe = [(k, v) for k, v in full if k == b"X-Harmless"]
    m = method
    cur = orig
    count = 0
    sens = True
    for i in range(len(hops) + 1):
        # request number i must have been issued, exactly as the model says, and nothing else
        if len(inner.reqs) != i + 1 or out:
            return False
        rm, ru, rh, rb, rd = inner.reqs[i]
        if rm != m or ru != cur:
            return False
        if with_headers:
            if rh != (full if sens else safe):
                return False
        elif rh is not None:
            return False
        if i >= 1:
            cover()
        if i == len(hops):
            return True
        status, loc = hops[i]
        resp = Response((b"HTTP", 1, 1), status, b"X", Headers({} if loc is None else {b"location": [loc]}), None)
        rd.callback(resp)
        if status == 200:
            return len(inner.reqs) == i + 1 and len(out) == 1 and out[0][0] == "ok" and out[0][1] is resp
        errs = []
        newm = _follow_method(cls, status, m)
        if newm is None:
            errs.append(_error.PageRedirect)
        if count >= limit:
            errs.append(_error.InfiniteRedirection)
        if loc is None:
            errs.append(_error.RedirectWithNoLocation)
        if errs:
            if len(inner.reqs) != i + 1 or len(out) != 1 or out[0][0] != "err":
                return False
            f = out[0][1]
            if not isinstance(f.value, ResponseFailed) or len(f.value.reasons) != 1:
                return False
            return f.value.reasons[0].check(*errs) is not None
        cur = _resolve(cur, loc)
        if _origin(cur) != _origin(orig):
            sens = False
        m = newm
        count += 1
    return True


def chain(cls: int, mi: int, pattern: int, hop: List[int]) -> bool:
    """
    pre: 0 <= cls <= 1 and 0 <= mi <= 2 and 0 <= pattern < B['hops']
    pre: len(hop) == B['hops'] and _menu_ok(pattern, hop)
    post: _
    """
    # redirectLimit == hops: never reached; hop number `pattern` ranges over the full menu
    c = _pick(cls, CLASSES)
    method = _pick(mi, METHODS)
    orig = ORIGS[0]
    p = _pick(pattern, list(range(B['hops'])))
    hops = []
    for i in range(B['hops']):
        hops.append(_pick(hop[i], _menu(p, i)))
        if hops[-1][0] == 200:
            break   # the chain ends here: later entries are irrelevant (not concretised)
    return _run(c, method, orig, B['hops'], True, hops)


def limits(cls: int, mi: int, limit: int, hdr: bool, hop: List[int]) -> bool:
    """
    pre: 0 <= cls <= 1 and 0 <= mi <= 2 and 0 <= limit <= B['maxlimit']
    pre: len(hop) == B['hops'] and _menu_ok(-1, hop)
    post: _
    """
    c = _pick(cls, CLASSES)
    method = _pick(mi, METHODS)
    lim = _pick(limit, list(range(B['maxlimit'] + 1)))
    hops = []
    for i in range(B['hops']):
        hops.append(_pick(hop[i], SMALLM))
        if hops[-1][0] == 200:
            break
    return _run(c, method, ORIGS[0], lim, True if hdr else False, hops)


def fragment(cls: int, l1: int, l2: int) -> bool:
    """
    pre: 0 <= cls <= 1 and 0 <= l1 < len(LOCATIONS) and 0 <= l2 < len(LOCATIONS)
    post: _
    """
    # RFC 9110 10.2.2: a Location without fragment inherits the fragment of the URI it was resolved against
    c = _pick(cls, CLASSES)
    hops = [(302, _pick(l1, LOCATIONS)), (307, _pick(l2, LOCATIONS))]
    return _run(c, b"GET", ORIGS[1], 5, True, hops)


HARNESSES = [
    H(chain, shards=lambda tier: [("cls == %d" % c, "mi == %d" % m, "pattern == %d" % p)
                                  for c in (0, 1) for m in (0, 1, 2) for p in range(BOUNDS[tier]["hops"])],
      timeout={"quick": 200, "thorough": 900}),
    H(limits, shards=lambda tier: [("cls == %d" % c, "mi == %d" % m) for c in (0, 1) for m in (0, 1, 2)],
      timeout={"quick": 200, "thorough": 900}),
    H(fragment, shards=[("cls == 0",), ("cls == 1",)], timeout={"quick": 60, "thorough": 300}),
]

# F-C27 family first: cross-origin hop, then a relative Location
VECTORS = {
    "chain": [(0, 0, 1, [0, 14, 3]), (1, 2, 0, [4, 2, 3]), (0, 1, 2, [1, 2, 49]), (1, 0, 0, [50, 0, 0]),
              (0, 2, 0, [30, 0, 0]), (0, 0, 2, [0, 2, 45])],
    "limits": [(0, 0, 0, True, [0, 0, 0]), (0, 0, 2, False, [1, 2, 4]), (1, 2, 1, True, [2, 4, 0]),
               (0, 1, 3, True, [0, 2, 1])],
    "fragment": [(0, 0, 4), (1, 9, 4), (0, 4, 5), (1, 7, 6)],
}
# the vectors above are written for 3 hops; the hop list must have BOUNDS[tier]['hops'] entries, so for a
# deeper tier every chain is continued with a final "200" answer (index 3 of the small menus)
_HOPS = BOUNDS.get(api.TIER, BOUNDS["quick"])["hops"]
for _name in ("chain", "limits"):
    VECTORS[_name] = [v[:-1] + ((v[-1] + [3] * _HOPS)[:_HOPS],) for v in VECTORS[_name]]


def selftest():
    """own RFC 3986 resolver == urllib.parse.urljoin (+ fragment inheritance) on the menu product"""
    from urllib.parse import urldefrag, urljoin
    bases = set(ORIGS)
    for _ in range(3):
        for bse in list(bases):
            for loc in LOCATIONS + [l for _s, l in SMALL]:
                if loc is not None:
                    bases.add(_resolve(bse, loc))
    n = 0
    for bse in sorted(bases):
        for loc in LOCATIONS + [l for _s, l in SMALL] + [b"?k=v", b"", b"#z", b"./", b"../../..", b"a/./b/../c"]:
            if loc is None:
                continue
            b0, bf = urldefrag(bse)
            j0, jf = urldefrag(urljoin(b0, loc))
            frag = jf or bf
            want = j0 + (b"#" + frag if frag else b"")
            got = _resolve(bse, loc)
            assert want == got, (bse, loc, want, got)
            n += 1
    assert _origin(b"http://a/x") == _origin(b"http://A:80/y") != _origin(b"https://a/x")
    assert _origin(b"http://a:8080/z") != _origin(b"http://a/z") and _origin(b"https://a/") == _origin(b"https://a:443/q")
    return n
