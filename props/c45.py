"""C45 jelly security policy: menu-driven s-expressions against SecurityOptions, with every name
resolution / import / instantiation inside twisted.spread.jelly recorded."""
import sys
import types
import warnings
from typing import List

from twisted.persisted import crefutil
from twisted.spread import jelly as J

from vlib.api import H, cover

PROPERTY = "C45"
LEVEL = "exploration"
ENCODED = ["twisted.spread.jelly:_Unjellier.unjelly", "twisted.spread.jelly:_Unjellier.unjellyFull",
           "twisted.spread.jelly:_Unjellier._genericUnjelly", "twisted.spread.jelly:_Unjellier._unjelly_module",
           "twisted.spread.jelly:_Unjellier._unjelly_class", "twisted.spread.jelly:_Unjellier._unjelly_function",
           "twisted.spread.jelly:_Unjellier._unjelly_method", "twisted.spread.jelly:_Unjellier._unjelly_instance",
           "twisted.spread.jelly:_Unjellier._unjelly_reference", "twisted.spread.jelly:_Unjellier._unjelly_dereference",
           "twisted.spread.jelly:_Unjellier._unjelly_list", "twisted.spread.jelly:_Unjellier._unjelly_tuple",
           "twisted.spread.jelly:_Unjellier._unjelly_dictionary", "twisted.spread.jelly:_Unjellier._unjelly_persistent",
           "twisted.spread.jelly:_Unjellier._unjelly_unpersistable", "twisted.spread.jelly:_Unjellier.unjellyInto",
           "twisted.spread.jelly:_newInstance", "twisted.spread.jelly:_createBlank",
           "twisted.spread.jelly:SecurityOptions.isModuleAllowed", "twisted.spread.jelly:SecurityOptions.isClassAllowed",
           "twisted.spread.jelly:SecurityOptions.isTypeAllowed", "twisted.spread.jelly:SecurityOptions.allowInstancesOf",
           "twisted.spread.jelly:SecurityOptions.allowTypes", "twisted.spread.jelly:SecurityOptions.allowModules",
           "twisted.spread.jelly:_Jellier.jelly", "twisted.spread.jelly:_Jellier._cook",
           "twisted.spread.jelly:_Jellier.preserve", "twisted.spread.jelly:Unjellyable.unjellyFor"]
BOUNDS = {"quick": {"smax": 2, "smax1": 3}, "thorough": {"smax": 5, "smax1": 5}}
B = {}
BOUNDS_TEXT = ("s-expressions from a menu: 14 node kinds (module, class, function, <class name as tag>, method, "
               "instance, reference, dereference, list, tuple, dictionary, persistent, unpersistable, atom) x 9 "
               "names (configurations 0-2: allowed module, os, os.system, subprocess.Popen, builtins.eval, allowed "
               "class, class of the allowed module that is not allowed, registered unjellyable, function of the "
               "allowed module, and for configuration 0 also vc45mod.Sub, a not-allowed SUBCLASS of the allowed class; "
               "configuration 3: package vc45pkg, os.system, vc45pkg.f, vc45pkg.ok_sub.f, "
               "vc45pkg.hidden_sub.f, vc45pkg.hidden_sub.Cls, vc45pkg.ok_sub.Cls, vc45mod.Allowed, vc45mod.func); "
               "shapes (which child positions hold a symbolic node, all others a fixed atom): 0 = single node, "
               "1 = root + first child, 2 = root + second child, 3 = depth 2 chain root -> first child -> its "
               "first child, 4 = root + both children, 5 = root -> first child -> its second child; quick: shapes "
               "0-2 for every configuration and shape 3 for the configuration that allows most (1); thorough: "
               "shapes 0-5 everywhere; 4 SecurityOptions configurations; round trip of 10 object graphs "
               "(shared list, list cycle, instance cycle, nested containers; shared FALSY nodes: empty list, empty "
               "dict, empty tuple, empty set, allowed instance with len 0, falsy instance on a cycle) with a "
               "symbolic int leaf and a string leaf from a menu of 3; identity sharing checked and no crefutil "
               "placeholder may remain")
OUTSIDE = ["names outside the menu, in particular names that reach a forbidden object *through* an allowed module "
           "(e.g. function 'allowedmod.os' when allowedmod does 'import os'): _unjelly_function resolves any "
           "attribute path below an allowed module by design",
           "s-expressions deeper than 2 levels or with more than two symbolic children per node",
           "set/frozenset/decimal/datetime tags; persistentLoad callbacks; the banana wire encoding",
           "DummySecurityOptions (allows everything by definition)"]
ASSUMPTIONS = ["for the duration of each harness call jelly's module-level names namedAny, namedObject, __import__ "
               "and _createBlank are rebound to recording wrappers; names below the synthetic module 'vc45mod' "
               "and below the synthetic package 'vc45pkg' are resolved by the real function, every other name is NOT resolved (a harmless dummy is returned) "
               "but recorded - any such record is a violation",
               "the synthetic module vc45mod (classes Allowed, Hidden, Reg, function func) is registered in "
               "sys.modules and Reg in jelly.unjellyableRegistry once, at import of this props module",
               "policy configurations: 0 = allowInstancesOf(Allowed); 1 = the same plus "
               "allowTypes('function', 'method'); 2 = allowBasicTypes() + allowModules('vc45mod') only (no "
               "module/class/instance types); 3 = allowBasicTypes() + allowTypes('function', 'class', 'method') + "
               "allowModules('vc45pkg', 'vc45pkg.ok_sub') where vc45pkg is a synthetic package (sys.modules "
               "entries) that also has a submodule vc45pkg.hidden_sub which is never allowed",
               "a lookup is judged by the module that OWNS the object that came back (__module__ / module "
               "__name__), not only by the name asked for"]
EXPLANATION = ("the solver enumerates node kinds and names of a small s-expression grammar; the real unjelly runs "
               "with instrumented name resolution, and every resolution, import and instantiation must be covered "
               "by the configured policy whether or not unjelly raises")

# ---- the world the policy talks about ---------------------------------------------------------------

MODNAME = "vc45mod"
INSTANTIATED = []      # classes whose __new__ ran (independent of the wrappers)


def _mkmod():
    if MODNAME in sys.modules:
        return sys.modules[MODNAME]
    m = types.ModuleType(MODNAME)

    class Allowed:
        def meth(self):
            return 1

        def __new__(cls, *a):
            INSTANTIATED.append(cls)
            return object.__new__(cls)

    class Hidden:
        def meth(self):
            return 2

        def __new__(cls, *a):
            INSTANTIATED.append(cls)
            return object.__new__(cls)

    class Sub(Allowed):
        """subclass of the allowed class, in the same allowed module, NOT allowed itself"""

        def __setstate__(self, state):
            INSTANTIATED.append(("setstate", Sub))
            self.__dict__ = state

    class Reg(J.Unjellyable):
        def __new__(cls, *a):
            INSTANTIATED.append(cls)
            return object.__new__(cls)

    class Bag:
        """allowed (round trip only) container class that is falsy while its items list is empty"""

        def __len__(self):
            return len(self.__dict__.get("items", ()))

    def func():
        return 3

    for o in (Allowed, Hidden, Sub, Reg, Bag, func, Allowed.meth, Hidden.meth):
        o.__module__ = MODNAME
        o.__qualname__ = o.__name__
        setattr(m, o.__name__, o)
    sys.modules[MODNAME] = m
    J.setUnjellyableForClass(b"vc45mod.Reg", Reg)
    return m


MOD = _mkmod()
Allowed, Hidden, Sub, Reg, Bag, func = MOD.Allowed, MOD.Hidden, MOD.Sub, MOD.Reg, MOD.Bag, MOD.func

PKG = "vc45pkg"


def _mkpkg():
    """package vc45pkg with submodules ok_sub (allowed by configuration 3) and hidden_sub (never
    allowed); sys.modules entries only"""
    if PKG in sys.modules:
        return sys.modules[PKG]
    mods = {}
    for name in (PKG, PKG + ".ok_sub", PKG + ".hidden_sub"):
        m = types.ModuleType(name)

        def f():
            return 4

        class Cls:
            def meth(self):
                return 5

            def __new__(cls, *a):
                INSTANTIATED.append(cls)
                return object.__new__(cls)

        for o in (f, Cls, Cls.meth):
            o.__module__ = name
            o.__qualname__ = o.__name__
        m.f = f
        if name != PKG:
            m.Cls = Cls
        mods[name] = m
    mods[PKG].__path__ = []
    mods[PKG].ok_sub = mods[PKG + ".ok_sub"]
    mods[PKG].hidden_sub = mods[PKG + ".hidden_sub"]
    sys.modules.update(mods)
    return mods[PKG]


PKGMOD = _mkpkg()
SAFE_ROOTS = (MODNAME, PKG)      # names below these are really resolved, everything else is not

# name menus (same length): configurations 0-2 talk about the flat module, 3 about the package
_NAMES_FLAT = [b"vc45mod", b"os", b"os.system", b"subprocess.Popen", b"builtins.eval",
               b"vc45mod.Allowed", b"vc45mod.Hidden", b"vc45mod.Reg", b"vc45mod.func"]
_NAMES_PKG = [b"vc45pkg", b"os.system", b"vc45pkg.f", b"vc45pkg.ok_sub.f", b"vc45pkg.hidden_sub.f",
              b"vc45pkg.hidden_sub.Cls", b"vc45pkg.ok_sub.Cls", b"vc45mod.Allowed", b"vc45mod.func"]
NAMES = _NAMES_FLAT
# configuration 0 (allowInstancesOf(Allowed), nothing else) additionally names Sub, a subclass of
# Allowed that the policy never allowed: class policy is exact membership, not issubclass
_NAMES_SUB = _NAMES_FLAT + [b"vc45mod.Sub"]
NAMES_BY_CFG = {0: _NAMES_SUB, 1: _NAMES_FLAT, 2: _NAMES_FLAT, 3: _NAMES_PKG}
NCFG = 4
(T_MODULE, T_CLASS, T_FUNCTION, T_CLASSTAG, T_METHOD, T_INSTANCE, T_REFERENCE, T_DEREFERENCE, T_LIST, T_TUPLE,
 T_DICT, T_PERSISTENT, T_UNPERSISTABLE, T_ATOM) = range(14)
NTAGS = 14
BASIC = [b"dictionary", b"list", b"tuple", b"reference", b"dereference", b"unpersistable", b"persistent"]
TYPES_OK = {
    0: BASIC + [b"instance", b"class", b"module", b"vc45mod.Allowed"],
    1: BASIC + [b"instance", b"class", b"module", b"vc45mod.Allowed", b"function", b"method"],
    2: BASIC,
    3: BASIC + [b"function", b"class", b"method"],
}
CLASSES_OK = {0: [Allowed], 1: [Allowed], 2: [], 3: []}
MODS_OK = {0: [MODNAME], 1: [MODNAME], 2: [MODNAME], 3: [PKG, PKG + ".ok_sub"]}


def _taster(cfg):
    t = J.SecurityOptions()
    if cfg in (0, 1):
        t.allowInstancesOf(Allowed)
        if cfg == 1:
            t.allowTypes("function", "method")
    elif cfg == 2:
        t.allowBasicTypes()
        t.allowModules(MODNAME)
    else:
        t.allowBasicTypes()
        t.allowTypes("function", "class", "method")
        t.allowModules(PKG, PKG + ".ok_sub")
    return t


def _owner(x):
    """name of the module that owns a resolved object (None for the dummies)"""
    if isinstance(x, types.ModuleType):
        return x.__name__ if x is not DUMMY_MODULE else None
    if x is _harmless:
        return None
    return getattr(x, "__module__", None)


# twisted.spread.jelly is wrapped in a deprecation proxy: this is the real module namespace
G = J._Unjellier.unjelly.__globals__


def _harmless(*a, **k):
    return None


DUMMY_MODULE = types.ModuleType("vc45_dummy")


class _Recorder:
    """rebinding of jelly's lookup functions for the duration of one harness call"""

    def __init__(self):
        self.rec = []
        self.saved = {}

    def _safe(self, name):
        return any(name == r or name.startswith(r + ".") for r in SAFE_ROOTS)

    def __enter__(self):
        real_any, real_obj, real_blank = G["namedAny"], G["namedObject"], G["_createBlank"]

        def namedAny(name):
            r = real_any(name) if self._safe(name) else _harmless
            self.rec.append(("namedAny", name, _owner(r)))
            return r

        def namedObject(name):
            r = real_obj(name) if self._safe(name) else _harmless
            self.rec.append(("namedObject", name, _owner(r)))
            return r

        def imp(name, *a, **k):
            r = sys.modules[name] if self._safe(name) and name in sys.modules else DUMMY_MODULE
            self.rec.append(("import", name, _owner(r)))
            return r

        def blank(cls):
            if isinstance(cls, type):
                self.rec.append(("blank", cls, None))
            return real_blank(cls)

        for k, v in (("namedAny", namedAny), ("namedObject", namedObject), ("__import__", imp),
                     ("_createBlank", blank)):
            self.saved[k] = G.get(k, self)
            G[k] = v
        del INSTANTIATED[:]
        self.cw = warnings.catch_warnings()
        self.cw.__enter__()
        warnings.simplefilter("ignore")
        return self

    def __exit__(self, *exc):
        self.cw.__exit__(*exc)
        for k, v in self.saved.items():
            if v is self:
                del G[k]
            else:
                G[k] = v
        return False


# ---- symbolic s-expression ----------------------------------------------------------------------------

def _conc(x, n):
    # one path per menu entry: plain ints for the code under test; values below the menu select the
    # first entry, values above it the last
    if x <= 0:
        return 0
    for v in range(1, n - 1):
        if x == v:
            return v
    return n - 1


def _state_atom():
    return [b"dictionary", [b"k", 1]]


# which (node slot, child position) pairs are symbolic nodes, per shape; every other child position
# holds a fixed atom (None, or a small dictionary where the grammar expects instance state)
SYM = {0: (), 1: ((0, 0),), 2: ((0, 1),), 3: ((0, 0), (1, 0)), 4: ((0, 0), (0, 1)), 5: ((0, 0), (1, 1))}
NSLOTS = 5


class _Builder:
    """node slots (heap numbering): 0 root, 1/2 its children, 3/4 the children of node 1"""

    def __init__(self, tg, nm, shape, names=None):
        self.tg, self.nm, self.shape = tg, nm, shape
        self.names = names or NAMES
        self.tags = []        # (tag, name) of every node built

    def child(self, slot, which, state=False):
        if (slot, which) in SYM[self.shape]:
            return self.node(2 * slot + 1 + which)
        return _state_atom() if state else None

    def node(self, slot):
        tag = _conc(self.tg[slot], NTAGS)
        name = None
        if tag in (T_MODULE, T_CLASS, T_FUNCTION, T_CLASSTAG):
            name = self.names[_conc(self.nm[slot], len(self.names))]
        self.tags.append((tag, name))
        if tag == T_MODULE:
            return [b"module", name]
        if tag == T_CLASS:
            return [b"class", name]
        if tag == T_FUNCTION:
            return [b"function", name]
        if tag == T_CLASSTAG:
            return [name, self.child(slot, 0, state=True)]
        if tag == T_METHOD:
            return [b"method", "meth", self.child(slot, 0), self.child(slot, 1)]
        if tag == T_INSTANCE:
            return [b"instance", self.child(slot, 0), self.child(slot, 1, state=True)]
        if tag == T_REFERENCE:
            return [b"reference", 1, self.child(slot, 0)]
        if tag == T_DEREFERENCE:
            return [b"dereference", 1]
        if tag == T_LIST:
            return [b"list", self.child(slot, 0), self.child(slot, 1)]
        if tag == T_TUPLE:
            return [b"tuple", self.child(slot, 0)]
        if tag == T_DICT:
            return [b"dictionary", [self.child(slot, 0), self.child(slot, 1)]]
        if tag == T_PERSISTENT:
            return [b"persistent", b"pid"]
        if tag == T_UNPERSISTABLE:
            return [b"unpersistable", b"why"]
        return None


def _modpart(name):
    return name.rpartition(".")[0]


def _result_ok(x, cfg, depth=0):
    """objects a policy-abiding unjelly may hand back"""
    if depth > 6:
        return True
    if x is None or type(x) in (bool, int, float, bytes, str):
        return True
    if type(x) in (list, tuple, set, frozenset):
        return all(_result_ok(y, cfg, depth + 1) for y in x)
    if type(x) is dict:
        return all(_result_ok(k, cfg, depth + 1) and _result_ok(v, cfg, depth + 1) for k, v in x.items())
    if isinstance(x, types.ModuleType):
        return x.__name__ in MODS_OK[cfg] and b"module" in TYPES_OK[cfg]
    if isinstance(x, type):
        # class objects: allowed classes, or (function tag) any attribute of an allowed module
        return x in CLASSES_OK[cfg] or (b"function" in TYPES_OK[cfg] and _owner(x) in MODS_OK[cfg])
    if isinstance(x, types.MethodType):
        return b"method" in TYPES_OK[cfg] and _result_ok(x.__self__, cfg, depth + 1)
    if isinstance(x, types.FunctionType):
        if x is _harmless or _owner(x) not in MODS_OK[cfg]:
            return False
        return b"function" in TYPES_OK[cfg] or b"method" in TYPES_OK[cfg]
    if isinstance(x, (J.Unpersistable, crefutil.NotKnown)):
        return True
    if type(x) in CLASSES_OK[cfg] or type(x) is Reg:
        return _result_ok(getattr(x, "__dict__", None), cfg, depth + 1)
    return False


def _records_ok(rec, cfg, tags):
    """every import / lookup is for a tag type the policy allows and lands in a module the policy
    allows: both the module named and the module that actually owns what came back"""
    dotted = any(t == T_CLASSTAG for t, _ in tags)
    for kind, what, owner in rec:
        if kind == "import":
            if what not in MODS_OK[cfg] or owner not in MODS_OK[cfg] or b"module" not in TYPES_OK[cfg]:
                return False
        elif kind == "namedAny":
            if owner not in MODS_OK[cfg] or b"function" not in TYPES_OK[cfg]:
                return False
        elif kind == "namedObject":
            if owner not in MODS_OK[cfg] or _modpart(what) not in MODS_OK[cfg]:
                return False
            if b"class" not in TYPES_OK[cfg] and not dotted:
                return False
        elif kind == "blank":
            if what not in CLASSES_OK[cfg] and what is not Reg:
                return False
    for cls in INSTANTIATED:
        if cls not in CLASSES_OK[cfg] and cls is not Reg:
            return False
    return True


def policy(cfg: int, shape: int, tg: List[int], nm: List[int]) -> bool:
    """
    pre: 0 <= cfg <= 3 and len(tg) == NSLOTS and len(nm) == NSLOTS
    pre: 0 <= shape <= B['smax'] or (cfg == 1 and 0 <= shape <= B['smax1'])
    post: _
    """
    cfg = _conc(cfg, NCFG)
    shape = _conc(shape, 6)
    bld = _Builder(tg, nm, shape, NAMES_BY_CFG[cfg])
    sexp = bld.node(0)
    taster = _taster(cfg)
    raised = None
    result = None
    with _Recorder() as r:
        try:
            result = J.unjelly(sexp, taster)
        except J.InsecureJelly as e:
            raised = e
        except Exception as e:   # any other refusal (TypeError, AssertionError, KeyError, ...) is acceptable
            raised = e
        rec = list(r.rec)
    cover()
    if not _records_ok(rec, cfg, bld.tags):
        return False
    # a root whose type tag the policy does not allow must be refused outright
    rtag = sexp[0] if type(sexp) is list else None
    if rtag is not None and rtag not in TYPES_OK[cfg] and b"." not in rtag:
        if not isinstance(raised, J.InsecureJelly) or rec:
            return False
    if raised is None and not _result_ok(result, cfg):
        return False
    return True


# ---- round trip -----------------------------------------------------------------------------------------

STRS = ["", "k", "\u00e9\u20ac"]


def _no_placeholder(x, seen=None):
    """no unresolved crefutil placeholder (NotKnown: _Dereference, _Tuple, ...) anywhere in the graph"""
    seen = [] if seen is None else seen
    if any(x is y for y in seen):
        return True
    if isinstance(x, crefutil.NotKnown):
        return False
    if type(x) in (list, tuple, set, frozenset):
        seen.append(x)
        return all(_no_placeholder(y, seen) for y in x)
    if type(x) is dict:
        seen.append(x)
        return all(_no_placeholder(k, seen) and _no_placeholder(v, seen) for k, v in x.items())
    if type(x) in (Allowed, Bag):
        seen.append(x)
        return _no_placeholder(x.__dict__, seen)
    return True


def _same(objs):
    return all(o is objs[0] for o in objs)


def roundtrip(g: int, x: int, si: int) -> bool:
    """
    pre: 0 <= g <= 9
    post: _
    """
    g = _conc(g, 10)
    s = STRS[_conc(si, len(STRS))]
    taster = _taster(0)
    if g >= 4:
        # shared / cyclic nodes that are FALSY: every later reference must still be the same object
        taster.allowInstancesOf(Bag)
        if g == 4:      # empty list, referenced four times
            e = []
            r = J.unjelly(J.jelly([e, e, {"k": e}, (e,)]), taster)
            cover()
            return (_no_placeholder(r) and type(r) is list and len(r) == 4 and type(r[0]) is list and r[0] == []
                    and type(r[2]) is dict and type(r[3]) is tuple and _same([r[0], r[1], r[2]["k"], r[3][0]]))
        if g == 5:      # empty dict, referenced three times
            e = {}
            r = J.unjelly(J.jelly([e, [x, e], e]), taster)
            cover()
            return (_no_placeholder(r) and type(r) is list and len(r) == 3 and type(r[0]) is dict and r[0] == {}
                    and type(r[1]) is list and r[1][0] == x and _same([r[0], r[1][1], r[2]]))
        if g == 6:      # the empty tuple, referenced three times
            e = ()
            r = J.unjelly(J.jelly([e, [e], e, s]), taster)
            cover()
            return (_no_placeholder(r) and type(r) is list and len(r) == 4 and r[0] == () and type(r[0]) is tuple
                    and type(r[1]) is list and _same([r[0], r[1][0], r[2]]) and r[3] == s)
        if g == 7:      # empty set, referenced twice
            e = set()
            r = J.unjelly(J.jelly([e, e]), taster)
            cover()
            return (_no_placeholder(r) and type(r) is list and len(r) == 2 and type(r[0]) is set and r[0] == set()
                    and r[0] is r[1])
        if g == 8:      # allowed instance that is falsy (len 0), referenced three times
            b = Bag()
            b.items = []
            b.tag = x
            r = J.unjelly(J.jelly([b, (b,), b], taster), taster)
            cover()
            return (_no_placeholder(r) and type(r) is list and len(r) == 3 and type(r[0]) is Bag
                    and type(r[1]) is tuple and _same([r[0], r[1][0], r[2]]) and r[0].items == []
                    and r[0].tag == x and sorted(r[0].__dict__) == ["items", "tag"])
        # falsy instance on a cycle through itself and its own (empty, shared) items list
        b = Bag()
        b.items = []
        b.me = b
        b.also = b.items
        r = J.unjelly(J.jelly([b, b, b.items], taster), taster)
        cover()
        return (_no_placeholder(r) and type(r) is list and len(r) == 3 and type(r[0]) is Bag and r[0] is r[1]
                and r[0].me is r[0] and type(r[0].items) is list and r[0].items == []
                and _same([r[0].items, r[0].also, r[2]]) and sorted(r[0].__dict__) == ["also", "items", "me"])
    if g == 0:      # shared reference
        a = [x, s]
        top = [a, a, {"k": a}, (a,)]
        r = J.unjelly(J.jelly(top), taster)
        cover()
        return (type(r) is list and len(r) == 4 and r[0] == [x, s] and r[0] is r[1] and r[2]["k"] is r[0]
                and type(r[3]) is tuple and r[3][0] is r[0] and list(r[2].keys()) == ["k"])
    if g == 1:      # list cycle
        a = [x]
        a.append(a)
        a.append(s)
        r = J.unjelly(J.jelly(a), taster)
        cover()
        return type(r) is list and len(r) == 3 and r[0] == x and r[1] is r and r[2] == s
    if g == 2:      # instance cycle through an allowed class, shared by two containers
        o = Allowed()
        o.me = o
        o.v = [x, {"s": s}]
        o.pair = (o.v, o.v)
        r = J.unjelly(J.jelly([o, o], taster), taster)
        cover()
        return (type(r) is list and len(r) == 2 and r[0] is r[1] and type(r[0]) is Allowed and r[0].me is r[0]
                and r[0].v == [x, {"s": s}] and r[0].pair[0] is r[0].v and r[0].pair[1] is r[0].v
                and sorted(r[0].__dict__) == ["me", "pair", "v"])
    # nested containers
    top = (1, [x, {"a": (x, s)}, []], {"b": [s, [x]]}, b"raw", None, True)
    r = J.unjelly(J.jelly(top), taster)
    cover()
    return r == top and type(r) is tuple and type(r[1]) is list and type(r[1][1]["a"]) is tuple and r[5] is True


def _policy_shards(tier):
    b = BOUNDS[tier]
    containers = (T_METHOD, T_INSTANCE, T_REFERENCE, T_LIST, T_TUPLE, T_DICT)
    out = []
    for c in range(NCFG):
        top = b["smax1"] if c == 1 else b["smax"]
        for sh in range(top + 1):
            base = ("cfg == %d" % c, "shape == %d" % sh)
            if sh == 3:      # case split over the root
                out += [base + ("tg[0] == %d" % T_CLASSTAG, "nm[0] <= 0")]
                out += [base + ("tg[0] == %d" % T_CLASSTAG, "nm[0] == %d" % k) for k in range(1, len(NAMES) - 1)]
                out += [base + ("tg[0] == %d" % T_CLASSTAG, "nm[0] >= %d" % (len(NAMES) - 1))]
                out += [base + ("tg[0] == %d" % t,) for t in containers]
                out += [base + ("tg[0] not in %r" % ((T_CLASSTAG,) + containers,),)]
            elif sh == 4:
                wide = (T_METHOD, T_INSTANCE, T_LIST, T_DICT)
                out += [base + ("tg[0] == %d" % t,) for t in wide]
                out += [base + ("tg[0] not in %r" % (wide,),)]
            else:
                out.append(base)
    return out


HARNESSES = [
    H(policy, shards=_policy_shards, timeout={"quick": 90, "thorough": 600}),
    H(roundtrip, timeout={"quick": 60, "thorough": 300}),
]
