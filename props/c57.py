"""C57 log publisher fan-out, level filter namespace hierarchy, limited history replay."""
from typing import List

from twisted.logger import (FilteringLogObserver, LimitedHistoryLogObserver, LogLevel,
                            LogLevelFilterPredicate, LogPublisher, PredicateResult)
from twisted.logger._observer import OBSERVER_DISABLED
from twisted.python.failure import Failure

from vlib import api
from vlib.api import H, cover
from vlib.lbytes import SymDict

PROPERTY = "C57"
LEVEL = "model_checking"
ENCODED = ["twisted.logger._observer:LogPublisher.__call__", "twisted.logger._observer:LogPublisher.addObserver",
           "twisted.logger._observer:LogPublisher.removeObserver",
           "twisted.logger._observer:LogPublisher._errorLoggerForObserver",
           "twisted.logger._logger:Logger.failure", "twisted.logger._logger:Logger.emit",
           "twisted.logger._filter:LogLevelFilterPredicate.logLevelForNamespace",
           "twisted.logger._filter:LogLevelFilterPredicate.setLogLevelForNamespace",
           "twisted.logger._filter:LogLevelFilterPredicate.clearLogLevels",
           "twisted.logger._filter:LogLevelFilterPredicate.__call__",
           "twisted.logger._filter:FilteringLogObserver.__call__", "twisted.logger._filter:shouldLogEvent",
           "twisted.logger._buffer:LimitedHistoryLogObserver.__call__",
           "twisted.logger._buffer:LimitedHistoryLogObserver.replayTo"]
BOUNDS = {"quick": {"obs": 3, "ev": 3, "slots": 2, "ns": 4, "pfx": 3, "buf": 4},
          "thorough": {"obs": 3, "ev": 4, "slots": 3, "ns": 5, "pfx": 3, "buf": 6}}
B = {}
BOUNDS_TEXT = ("publisher: <= obs observers (optionally one removed again, first and last registered twice; observers "
               "either callable instances or bound methods obtained afresh at each add/remove), <= ev events, "
               "every observer has independent symbolic raise flags for each of the first slots-1 events, for all "
               "later events together, and for failure reports; filter: namespace "
               "any string of <= ns characters, two configured prefixes any strings of <= pfx characters "
               "(any characters, not only a/b/.) with three pairwise distinct levels and event levels info and error, "
               "events lacking level or namespace on short strings, and "
               "separately every (level, level, default, event level) combination on 6 fixed namespace "
               "configurations, and set/query/set/query/clear/query/set/query orderings with namespace and two "
               "prefixes from the menu {a, a.b, a.b.c, ab, ''} x all 5^2 configured levels x default info/error x every event level; history: size 0..buf or None, 0..buf+2 events")
OUTSIDE = ["more observers / events / longer namespaces than the bounds",
           "the full product (symbolic namespace strings) x (all 5^4 level assignments): string selection is "
           "checked with pairwise distinct levels, level comparison with fixed strings",
           "observers that mutate the event or (un)register observers while being called; log_trace bookkeeping",
           "more than two configured namespaces"]
ASSUMPTIONS = ["LogLevelFilterPredicate._logLevelsByNamespace is replaced, right after construction, by a "
               "vlib.lbytes.SymDict view initialised from the real dict (same mapping, keys compared with == "
               "instead of hashed); it is then populated only through the real setLogLevelForNamespace; the "
               "replay of a counterexample uses the real dict",
               "observers are plain callables that record what they are given and raise a harness exception "
               "when told to",
               "Logger.failure/emit stamp events with the wall clock (not inspected)"]
EXPLANATION = ("real LogPublisher with symbolic raise plans compared against a fan-out reference model; real "
               "LogLevelFilterPredicate/FilteringLogObserver on symbolic namespace and prefix strings compared "
               "against a longest-dotted-prefix reference; real LimitedHistoryLogObserver with symbolic size/count")

LEVELS = [LogLevel.debug, LogLevel.info, LogLevel.warn, LogLevel.error, LogLevel.critical]


def _conc(x, lo, hi):
    # one path per value: hand a plain int to the code under test
    for v in range(lo, hi + 1):
        if x == v:
            return v
    raise AssertionError("out of range")


# ---- (a) publisher ------------------------------------------------------------------------------

class _Boom(Exception):
    def __init__(self, who, desc):
        Exception.__init__(self)
        self.who = who
        self.desc = desc


class _Obs:
    def __init__(self, i, world):
        self.i = i
        self.world = world

    def __call__(self, event):
        return self.emit(event)

    def emit(self, event):
        # also used as a BOUND METHOD observer: `obs.emit` is a fresh (equal, not identical) object
        # on every attribute access
        w = self.world
        if "idx" in event:
            desc = ("ev", event["idx"])
            if event is not w.events[event["idx"]]:
                w.bad = True
        else:
            f = event.get("log_failure")
            ob = event.get("observer")
            ob = getattr(ob, "__self__", ob)      # the instance behind a bound method observer
            if (not isinstance(f, Failure) or not isinstance(f.value, _Boom) or not isinstance(ob, _Obs)
                    or f.value.who != ob.i or event.get("log_format") != OBSERVER_DISABLED
                    or event.get("log_level") is not LogLevel.critical):
                w.bad = True
                desc = ("garbled",)
            else:
                desc = ("fail", ob.i, f.value.desc)
        w.log.append((self.i, desc))
        if w.raises(self.i, desc):
            raise _Boom(self.i, desc)


class _PubWorld:
    def __init__(self, rz, nev):
        self.rz = rz
        self.log = []
        self.bad = False
        self.events = [{"idx": k, "log_level": LogLevel.info, "log_namespace": "n"} for k in range(nev)]

    def raises(self, i, desc):
        # plan of observer i: rz[4*i + k] for primary event k (events from number slots-1 on share
        # one flag), rz[4*i + 3] for any failure report
        slot = 4 * i + (min(desc[1], B["slots"] - 1) if desc[0] == "ev" else 3)
        return self.rz[slot] == 1


def _model_publish(w, members, desc, out):
    broken = []
    for i in members:
        out.append((i, desc))
        if w.raises(i, desc):
            broken.append(i)
    for b in broken:
        _model_publish(w, [x for x in members if x != b], ("fail", b, desc), out)


def _run_pub(nobs, nev, rz, rem, dup, bm=False):
    w = _PubWorld(rz, nev)
    obs = [_Obs(i, w) for i in range(nobs)]

    def handle(o):
        # what is handed to addObserver/removeObserver: the callable instance itself, or (bm) its
        # bound method, obtained afresh at every registry operation
        return o.emit if bm else o

    pub = LogPublisher()
    for o in obs:
        pub.addObserver(handle(o))
    members = list(range(nobs))
    if dup and nobs > 0:
        pub.addObserver(handle(obs[0]))          # registering twice must not deliver twice
        if nobs > 1:
            pub.addObserver(handle(obs[nobs - 1]))
    if 0 <= rem < nobs:
        pub.removeObserver(handle(obs[rem]))     # ... and one removal removes it altogether
        members.remove(rem)
    elif rem >= nobs:
        pub.removeObserver(handle(_Obs(9, w)))   # removing a stranger is a no-op
    for e in w.events:
        pub(e)
    cover()
    if w.bad:
        return False
    exp = []
    for k in range(nev):
        _model_publish(w, members, ("ev", k), exp)
    return w.log == exp


def publisher(nobs: int, nev: int, rz: List[int]) -> bool:
    """
    pre: 0 <= nobs <= B['obs'] and 0 <= nev <= B['ev'] and len(rz) == 12
    post: _
    """
    return _run_pub(_conc(nobs, 0, B["obs"]), _conc(nev, 0, B["ev"]), rz, -1, False)


def pub_registry(nobs: int, rz: List[int], rem: int, dup: bool, bm: bool) -> bool:
    """
    pre: 0 <= nobs <= B['obs'] and len(rz) == 12 and -1 <= rem <= 2
    post: _
    """
    # one event; observers registered twice / removed again / a stranger removed; bm: observers are
    # bound methods looked up afresh for every add/remove (equal but not identical objects)
    return _run_pub(_conc(nobs, 0, B["obs"]), 1, rz, _conc(rem, -1, 2), dup, bm)


# ---- (b) level filter -----------------------------------------------------------------------------

def _match(p, lp, ns, ln):
    # p is a whole-component dotted prefix of ns (lp, ln: the concrete lengths)
    if lp > ln:
        return False
    if lp == ln:
        return p == ns
    return ns[lp] == "." and ns[:lp] == p


def _ref_level(ns, ln, p1, n1, l1, p2, n2, l2, dflt):
    """level of the longest configured dotted prefix; the empty prefix is the default; the later
    setting wins for equal keys"""
    if n1 == 0:
        dflt = l1
    if n2 == 0:
        dflt = l2
    m1 = n1 > 0 and _match(p1, n1, ns, ln)
    m2 = n2 > 0 and _match(p2, n2, ns, ln)
    if m1 and m2:
        return l2 if n2 >= n1 else l1
    if m2:
        return l2
    if m1:
        return l1
    return dflt


def _mkpred(dflt, p1, l1, p2, l2):
    pred = LogLevelFilterPredicate(defaultLogLevel=dflt)
    if api.MODE != "real":
        pred._logLevelsByNamespace = SymDict(pred._logLevelsByNamespace)
    pred.setLogLevelForNamespace(p1, l1)
    pred.setLogLevelForNamespace(p2, l2)
    return pred


def _check_filter(pred, ns, hasl, hasn, elevel, exp_level, fan=True):
    event = {"k": 1}
    if hasl:
        event["log_level"] = elevel
    if hasn:
        event["log_namespace"] = ns
    got = pred(event)
    cover()
    if not hasl or not hasn or len(ns) == 0:
        want_pass = False        # documented: events without level or namespace are dropped
    else:
        want_pass = not (elevel < exp_level)
    if got is not (PredicateResult.maybe if want_pass else PredicateResult.no):
        return False
    if not fan:
        return True
    pos, neg = [], []
    FilteringLogObserver(pos.append, [pred], neg.append)(event)
    if want_pass:
        return len(pos) == 1 and pos[0] is event and neg == []
    return len(neg) == 1 and neg[0] is event and pos == []


def flt_select(ns: str, p1: str, p2: str) -> bool:
    """
    pre: len(ns) <= B['ns'] and len(p1) <= B['pfx'] and len(p2) <= B['pfx']
    post: _
    """
    # three pairwise distinct levels: which one comes back identifies the entry that was selected;
    # event levels info / error separate debug, warn, critical
    ln = _conc(len(ns), 0, B["ns"])
    n1 = _conc(len(p1), 0, B["pfx"])
    n2 = _conc(len(p2), 0, B["pfx"])
    l1, l2, dflt = LogLevel.debug, LogLevel.warn, LogLevel.critical
    pred = _mkpred(dflt, p1, l1, p2, l2)
    exp = _ref_level(ns, ln, p1, n1, l1, p2, n2, l2, dflt)
    if ln > 0 and pred.logLevelForNamespace(ns) is not exp:
        return False
    return (_check_filter(pred, ns, True, True, LogLevel.info, exp, fan=False) and
            _check_filter(pred, ns, True, True, LogLevel.error, exp, fan=False))


def flt_missing(ns: str, p1: str, hasl: bool, hasn: bool, ev: int) -> bool:
    """
    pre: len(ns) <= 2 and len(p1) <= 1 and 0 <= ev <= 4
    post: _
    """
    # events without level / namespace (or with an empty namespace) are dropped
    ln = _conc(len(ns), 0, 2)
    n1 = _conc(len(p1), 0, 1)
    ev = _conc(ev, 0, 4)
    l1, l2, dflt = LogLevel.debug, LogLevel.info, LogLevel.warn
    pred = _mkpred(dflt, p1, l1, "zz", l2)
    exp = _ref_level(ns, ln, p1, n1, l1, "zz", 2, l2, dflt)
    return _check_filter(pred, ns, hasl, hasn, LEVELS[ev], exp)


_CFG = [("a.b.c", "a", "a.b"), ("a.b.c", "a.b", "a"), ("a.bc", "a.b", "a"), ("a", "", "a.b"),
        ("b.a", "a", ""), ("a.b", "a.b", "a.b")]


def flt_levels(cfg: int, l1: int, l2: int, d: int, ev: int) -> bool:
    """
    pre: 0 <= cfg < len(_CFG) and 0 <= l1 <= 4 and 0 <= l2 <= 4 and 0 <= d <= 4 and 0 <= ev <= 4
    post: _
    """
    cfg = _conc(cfg, 0, len(_CFG) - 1)
    l1, l2, d, ev = _conc(l1, 0, 4), _conc(l2, 0, 4), _conc(d, 0, 4), _conc(ev, 0, 4)
    ns, p1, p2 = _CFG[cfg]
    pred = _mkpred(LEVELS[d], p1, LEVELS[l1], p2, LEVELS[l2])
    exp = _ref_level(ns, len(ns), p1, len(p1), LEVELS[l1], p2, len(p2), LEVELS[l2], LEVELS[d])
    return _check_filter(pred, ns, True, True, LEVELS[ev], exp)


_MENU = ["a", "a.b", "a.b.c", "ab", ""]


def _ref_current(ns, cfg, dflt):
    """longest whole-component dotted prefix of ns among the settings made so far (cfg: list of
    (prefix, level) in the order they were set; '' sets the default; later settings win)"""
    table = {}
    for p, lv in cfg:
        if p == "":
            dflt = lv
        else:
            table[p] = lv
    best = None
    for p in table:
        if (p == ns or ns.startswith(p + ".")) and (best is None or len(p) > len(best)):
            best = p
    return dflt if best is None else table[best]


def _query_ok(pred, ns, exp, events=True):
    # the level reported for ns and (events=True) the verdict for an event of every level from ns
    if pred.logLevelForNamespace(ns) is not exp:
        return False
    for lv in (LEVELS if events else ()):
        got = pred({"log_level": lv, "log_namespace": ns})
        want = PredicateResult.no if (ns == "" or lv < exp) else PredicateResult.maybe
        if got is not want:
            return False
    return True


def flt_order(ins: int, ip1: int, ip2: int, l1: int, l2: int, d: int) -> bool:
    """
    pre: 0 <= ins <= 4 and 0 <= ip1 <= 4 and 0 <= ip2 <= 4 and 0 <= l1 <= 4 and 0 <= l2 <= 4 and (d == 1 or d == 3)
    post: _
    """
    # ordering: configure, query, reconfigure (ancestor / root / unrelated / the namespace itself),
    # query again, clear, query, configure again, query - each query judged against the
    # configuration current at that moment.  Concrete menu strings on the REAL dict (no SymDict).
    ns, p1, p2 = _MENU[_conc(ins, 0, 4)], _MENU[_conc(ip1, 0, 4)], _MENU[_conc(ip2, 0, 4)]
    L1, L2, D = LEVELS[_conc(l1, 0, 4)], LEVELS[_conc(l2, 0, 4)], LEVELS[_conc(d, 0, 4)]
    pred = LogLevelFilterPredicate(defaultLogLevel=D)
    if not _query_ok(pred, ns, D, events=False):
        return False
    pred.setLogLevelForNamespace(p1, L1)
    if not _query_ok(pred, ns, _ref_current(ns, [(p1, L1)], D), events=False):
        return False
    pred.setLogLevelForNamespace(p2, L2)
    cover()
    if not _query_ok(pred, ns, _ref_current(ns, [(p1, L1), (p2, L2)], D)):
        return False
    pred.clearLogLevels()
    if not _query_ok(pred, ns, D):
        return False
    pred.setLogLevelForNamespace(p2, L1)
    return _query_ok(pred, ns, _ref_current(ns, [(p2, L1)], D), events=False)


# ---- (c) limited history ----------------------------------------------------------------------------

def history_replay(size: int, n: int, unbounded: bool) -> bool:
    """
    pre: 0 <= size <= B['buf'] and 0 <= n <= B['buf'] + 2
    post: _
    """
    size = _conc(size, 0, B["buf"])
    n = _conc(n, 0, B["buf"] + 2)
    h = LimitedHistoryLogObserver(None if unbounded else size)
    events = [{"n": i} for i in range(n)]
    for e in events:
        h(e)
    out = []
    h.replayTo(out.append)
    again = []
    h.replayTo(again.append)      # replaying does not consume
    cover()
    if unbounded:
        exp = events
    else:
        exp = events[n - size:] if size < n else events
        if size == 0:
            exp = []
    if len(out) != len(exp) or len(again) != len(exp):
        return False
    for x, y, z in zip(out, exp, again):
        if x is not y or z is not y:
            return False
    return True


def _pub_shards(tier):
    no, ne = BOUNDS[tier]["obs"], BOUNDS[tier]["ev"]
    out = [("nobs == %d" % k,) for k in range(no)]
    split = () if tier == "quick" else (ne - 1, ne)
    for e in range(ne + 1):
        if e not in split:
            out.append(("nobs == %d" % no, "nev == %d" % e))
            continue
        for m in range(8):     # thorough: case split over the first-event flags of the three observers
            out.append(("nobs == %d" % no, "nev == %d" % e) + tuple(
                "rz[%d] %s 1" % (4 * i, "==" if (m >> i) & 1 else "!=") for i in range(3)))
    return out


HARNESSES = [
    H(publisher, shards=_pub_shards, timeout={"quick": 90, "thorough": 900}),
    H(pub_registry, timeout={"quick": 90, "thorough": 300}),
    H(flt_select, shards=lambda tier: [("len(ns) == %d" % k, "len(p1) == %d" % j)
                                       for k in range(BOUNDS[tier]["ns"] + 1)
                                       for j in range(BOUNDS[tier]["pfx"] + 1)],
      timeout={"quick": 90, "thorough": 900}),
    H(flt_missing, timeout={"quick": 60, "thorough": 300}),
    H(flt_levels, shards=lambda tier: [("cfg == %d" % k,) for k in range(len(_CFG))],
      timeout={"quick": 90, "thorough": 300}),
    H(flt_order, shards=[("ins == %d" % k,) for k in range(5)], timeout={"quick": 90, "thorough": 300}),
    H(history_replay, timeout={"quick": 60, "thorough": 300}),
]
