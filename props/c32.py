"""C32 DNS wire format round trip (twisted.names.dns).

Engine E2: the WHOLE module twisted/names/dns.py is recompiled from /repo's source onto LBytes (bytes
literals, struct, BytesIO, ord, bit operations -> shims); names, labels, record fields, header flags,
TXT strings and the size limit are symbolic; section shapes / record kinds / name menus are case split.
"""
from typing import List

from vlib import api, lbytes, lift
from vlib.api import H, cover
from vlib.lift import b, t

PROPERTY = "C32"
LEVEL = "model_checking"


# ---- DNS specific shims (also used by props/c33.py) ---------------------------------------------------

class DnsIO(lbytes.LBytesIO):
    """LBytesIO whose symbolic seek offsets / read counts are turned into one path per concrete value
    (a symbolic slice index on a z3 sequence does not finish); contents stay symbolic"""

    def read(self, n=-1):
        if n is None:
            n = -1
        if not lbytes._is_conc(n):
            rem = len(self.s) - self.pos
            if rem < 0:
                rem = 0
            if n < 0:
                n = -1
            else:
                got = rem            # n > rem: short read (the caller sees fewer bytes than asked)
                for k in range(rem + 1):
                    if n == k:
                        got = k
                        break
                n = got
        return lbytes.LBytesIO.read(self, n)

    def seek(self, off, whence=0):
        if whence == 0 and not lbytes._is_conc(off):
            if off < 0:
                raise ValueError("negative seek value")
            n = len(self.s)
            pos = n + 1              # beyond the end: every later read is empty, like the real one
            for k in range(n + 1):
                if off == k:
                    pos = k
                    break
            self.pos = pos
            return pos
        return lbytes.LBytesIO.seek(self, off, whence)


def l_ord(x):
    if isinstance(x, lbytes._LBase):
        if len(x.s) != 1:
            raise TypeError("ord() expected a character, but string of length %d found" % len(x.s))
        return ord(x.s)
    return ord(x)


def l_bytes_checked(x=b"", *a):
    """bytes(iterable of ints) with the range check of the real constructor"""
    if not a and isinstance(x, (list, tuple)):
        for i in x:
            if not (0 <= i < 256):
                raise ValueError("bytes must be in range(0, 256)")
    return lbytes.l_bytes(x, *a)


class _Log:
    """twisted.python.log stand-in: formatting symbolic values for a log line would realise them"""
    @staticmethod
    def msg(*a, **k):
        pass

    @staticmethod
    def err(*a, **k):
        pass


def lift_dns(extra=None):
    sh = {"BytesIO": DnsIO, "ord": l_ord, "_vl_bytes": l_bytes_checked, "set": lbytes.SymSet}
    if extra:
        sh.update(extra)
    L = lift.lift("twisted.names.dns", names=None, overrides={"log": _Log}, extra_shims=sh, bitops=True)
    if not L.__real__:
        # record type table: symbolic type numbers are compared, not hashed
        L.Message._recordTypes = lbytes.SymDict(L.Message._recordTypes)
    return L


L = lift_dns()
