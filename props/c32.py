"""C32 DNS wire format round trip (twisted.names.dns).

Engine E2: the WHOLE module twisted/names/dns.py is recompiled from /repo's source onto LBytes (bytes
literals, struct, BytesIO, ord, bit operations -> shims); names, labels, record fields, header flags,
TXT strings and the size limit are symbolic; section shapes / record kinds / name menus are case split.
"""
from typing import List

from vlib import api, lbytes, lift
from vlib.api import H, cover
from vlib.lift import b, t

PROPERTY = "C32"
LEVEL = "model_checking"


# ---- DNS specific shims (also used by props/c33.py) ---------------------------------------------------

class CLBytes(lbytes.LBytes):
    """LBytes that remembers its characters as a Python list (concrete length, symbolic contents)"""
    __slots__ = ("chars",)


def _chars_of(x):
    cs = getattr(x, "chars", None)
    if cs is not None:
        return cs
    s = lbytes._s(x)
    return [s[i] for i in range(len(s))]


def _bisect_value(v, lo, hi):
    """the concrete value of the symbolic int v (known to lie in lo..hi): one path per value, found with
    log2(hi - lo) solver decisions instead of a linear scan"""
    while lo < hi:
        mid = (lo + hi) // 2
        if v <= mid:
            hi = mid
        else:
            lo = mid + 1
    return lo


class DnsIO:
    """BytesIO stand-in for the DNS code: the buffer is a Python list of one-character strings, so its
    length and every position are concrete while the contents may be symbolic (nested slices of
    symbolic strings get symbolic bounds and every access becomes a solver query).  Symbolic seek
    offsets / read counts are turned into one path per concrete value."""

    def __init__(self, initial=b""):
        self.chars = list(_chars_of(initial))
        self.pos = 0
        self.closed = False

    def _mk(self, cs):
        r = CLBytes("".join(cs))
        r.chars = cs
        return r

    def read(self, n=-1):
        if n is None:
            n = -1
        rem = len(self.chars) - self.pos
        if rem < 0:
            rem = 0
        if not lbytes._is_conc(n):
            if n < 0:
                n = rem
            else:
                # n > rem: short read (the caller sees fewer bytes than asked)
                n = rem if n > rem else _bisect_value(n, 0, rem)
        elif n < 0 or n > rem:
            n = rem
        r = self.chars[self.pos:self.pos + n]
        self.pos = self.pos + n
        return self._mk(r)

    def write(self, data):
        d = _chars_of(data)
        n = len(self.chars)
        if self.pos > n:
            self.chars.extend(["\0"] * (self.pos - n))
        self.chars[self.pos:self.pos + len(d)] = d
        self.pos = self.pos + len(d)
        return len(d)

    def seek(self, off, whence=0):
        n = len(self.chars)
        if whence == 0:
            if off < 0:
                raise ValueError("negative seek value")
            if not lbytes._is_conc(off):
                # beyond the end: every later read is empty, like the real one
                off = n + 1 if off > n else _bisect_value(off, 0, n)
            self.pos = off
        elif whence == 1:
            self.pos = max(0, self.pos + off)
        else:
            self.pos = max(0, n + off)
        return self.pos

    def tell(self):
        return self.pos

    def getvalue(self):
        return self._mk(list(self.chars))

    def truncate(self, size=None):
        if size is None:
            size = self.pos
        del self.chars[size:]
        return size

    def close(self):
        self.closed = True


class DnsStruct(lbytes.l_struct):
    """l_struct with pack() written as a chain of quotient/remainder steps: the same bytes, but z3 sees
    nested small divisions instead of (v >> 24) & 255 etc. on one wide term (20x faster in context)"""

    @staticmethod
    def pack(fmt, *vals):
        order, items = lbytes._parse_struct(fmt)
        if order != ">" or len(vals) != len(items) or any(c not in "BHILQbhilq" for c, _ in items):
            return lbytes.l_struct.pack(fmt, *vals)
        out = []
        for (code, sz), v in zip(items, vals):
            if not isinstance(v, int) or isinstance(v, bool):
                return lbytes.l_struct.pack(fmt, *vals)
            if code in "bhilq":
                lo, hi = -(1 << (8 * sz - 1)), (1 << (8 * sz - 1)) - 1
                if not (lo <= v <= hi):
                    raise lbytes.l_struct.error("'%s' format requires %d <= number <= %d" % (code, lo, hi))
                if v < 0:
                    v = v + (1 << (8 * sz))
            elif not (0 <= v < (1 << (8 * sz))):
                raise lbytes.l_struct.error("'%s' format requires 0 <= number <= %d" % (code, (1 << (8 * sz)) - 1))
            r = v
            for k in range(sz):
                p = 1 << (8 * (sz - 1 - k))
                if p == 1:
                    out.append(chr(r))
                else:
                    out.append(chr(r // p))
                    r = r % p
        return lbytes.LBytes("".join(out))


def l_ord(x):
    if isinstance(x, lbytes._LBase):
        if len(x.s) != 1:
            raise TypeError("ord() expected a character, but string of length %d found" % len(x.s))
        return lbytes.note_bits(ord(x.s[0]), 255)
    return ord(x)


def l_bytes_checked(x=b"", *a):
    """bytes(iterable of ints) with the range check of the real constructor"""
    if not a and isinstance(x, (list, tuple)):
        for i in x:
            if not (0 <= i < 256):
                raise ValueError("bytes must be in range(0, 256)")
    return lbytes.l_bytes(x, *a)


def _lazy_range(n):
    i = 0
    while i < n:
        yield i
        i += 1


def l_range(*a):
    """range(n) for a symbolic n decides `i < n` one iteration at a time (a loop that leaves early never
    fixes the exact count); the real range would realise n: one path per value"""
    if len(a) == 1 and not lbytes._is_conc(a[0]):
        return _lazy_range(a[0])
    return range(*a)


class _Log:
    """twisted.python.log stand-in: formatting symbolic values for a log line would realise them"""
    @staticmethod
    def msg(*a, **k):
        pass

    @staticmethod
    def err(*a, **k):
        pass


def lift_dns(extra=None):
    sh = {"BytesIO": DnsIO, "ord": l_ord, "struct": DnsStruct, "_vl_bytes": l_bytes_checked, "set": lbytes.SymSet, "range": l_range}
    if extra:
        sh.update(extra)
    L = lift.lift("twisted.names.dns", names=None, overrides={"log": _Log}, extra_shims=sh, bitops=True)
    if not L.__real__:
        # record type table: symbolic type numbers are compared, not hashed
        L.Message._recordTypes = lbytes.SymDict(L.Message._recordTypes)
    return L


L = lift_dns()

HS = 12     # Message.headerSize: compression offsets are relative to the start of the message


def _enc_names(names, comp):
    """encode Names one after the other behind a 12 byte header; -> (stream text, [start offsets])"""
    io = L.BytesIO()
    cd = None
    if comp:
        cd = {} if L.__real__ else lbytes.SymDict()
    starts = []
    for nm in names:
        starts.append(io.tell() + HS)
        L.Name(b(nm)).encode(io, cd)
    return "\0" * HS + t(io.getvalue()), starts


def _dec_names(stream, count):
    io = L.BytesIO(b(stream))
    io.seek(HS)
    out = []
    for _ in range(count):
        n = L.Name()
        n.decode(io)
        out.append(t(n.name))
    return out, io.tell()


def name_rt(l1: str, l2: str, l3: str) -> bool:
    """
    pre: 1 <= len(l1) <= B['lab'] and len(l2) <= B['lab'] and len(l3) <= 1
    pre: all(ord(c) < 256 and c != "." for c in l1 + l2 + l3)
    post: _
    """
    name = l1 + ("." + l2 if len(l2) > 0 else "") + ("." + l3 if len(l3) > 0 else "")
    stream, _ = _enc_names([name], False)
    api.obs(stream)
    cover()
    if len(stream) != HS + len(name) + 2:
        return False
    out, end = _dec_names(stream, 1)
    return out == [name] and end == len(stream)


def names_comp(l1: str, l2: str, l3: str) -> bool:
    """
    pre: 1 <= len(l1) <= B['lab'] and 1 <= len(l2) <= B['lab'] and len(l3) == 1
    pre: all(ord(c) < 256 and c != "." for c in l1 + l2 + l3)
    post: _
    """
    names = [l1 + "." + l3 + ".tld", l2 + "." + l3 + ".tld", l3 + ".tld", l1 + "." + l3 + ".tld"]
    stream, starts = _enc_names(names, True)
    api.obs(stream)
    cover()
    plain = sum(len(n) + 2 for n in names)
    if len(stream) - HS > plain:
        return False
    # the fourth name repeats the first: it must have become a single pointer to it
    if stream[starts[3]:] != chr(0xC0) + chr(starts[0]):
        return False
    out, end = _dec_names(stream, 4)
    return out == names and end == len(stream)



MENU = ["ex.org", "www.ex.org", "EX.org", "org"]


def _pick(i, menu):
    for k in range(len(menu)):
        if i == k:
            return menu[k]
    return menu[-1]


def query_rt(ni: int, typ: int, cls: int) -> bool:
    """
    pre: 0 <= ni < 4 and 0 <= typ < 65536 and 0 <= cls < 65536
    post: _
    """
    name = _pick(ni, MENU)
    q = L.Query(b(name), typ, cls)
    io = L.BytesIO()
    q.encode(io, None)
    enc = t(io.getvalue())
    api.obs(enc)
    cover()
    q2 = L.Query()
    io2 = L.BytesIO(b(enc))
    q2.decode(io2)
    return (t(q2.name.name) == name and q2.type == typ and q2.cls == cls and q2 == q
            and io2.tell() == len(enc) == len(name) + 2 + 4)



KINDS = ["A", "NS", "CNAME", "SOA", "MX", "TXT", "SRV", "AAAA"]
_V6TAIL = "\x00\x01\x02\x03\x04\x05\x06\x07\x08\x09\x0a\x0b\xfe\xff"


def _payload(kind, ttl, pi, x1, x2, x3, x4, x5, s1, s2):
    """a Record_* of the given kind built from the symbolic fields (ttl = the header's ttl, because
    that is what decoding gives the payload)"""
    if kind == "A":
        r = L.Record_A(ttl=ttl)
        r.address = b((s1 + s2 + "\x7f\x00\x00\x01")[:4])
        return r
    if kind == "AAAA":
        r = L.Record_AAAA(ttl=ttl)
        r.address = b((s1 + "\x20\x01")[:2] + _V6TAIL)
        return r
    if kind == "NS":
        return L.Record_NS(b(_pick(pi, MENU)), ttl)
    if kind == "CNAME":
        return L.Record_CNAME(b(_pick(pi, MENU)), ttl)
    if kind == "SOA":
        return L.Record_SOA(b(_pick(pi, MENU)), b(_pick(3 - pi, MENU)), x1, x2, x3, x4, x5, ttl)
    if kind == "MX":
        return L.Record_MX(x1, b(_pick(pi, MENU)), ttl)
    if kind == "TXT":
        return L.Record_TXT(b(s1), b(s2), ttl=ttl)
    if kind == "SRV":
        return L.Record_SRV(x1, x3, x5, b(_pick(pi, MENU)), ttl)
    raise AssertionError(kind)


def _same_payload(kind, p, q):
    """field by field (texts compared exactly; names as bytes, not only case-insensitively)"""
    if type(p) is not type(q) or p.ttl != q.ttl:
        return False
    if kind in ("A", "AAAA"):
        return t(p.address) == t(q.address)
    if kind in ("NS", "CNAME"):
        return t(p.name.name) == t(q.name.name)
    if kind == "SOA":
        return (t(p.mname.name) == t(q.mname.name) and t(p.rname.name) == t(q.rname.name)
                and p.serial == q.serial and p.refresh == q.refresh and p.retry == q.retry
                and p.expire == q.expire and p.minimum == q.minimum)
    if kind == "MX":
        return p.preference == q.preference and t(p.name.name) == t(q.name.name)
    if kind == "TXT":
        return [t(d) for d in p.data] == [t(d) for d in q.data]
    if kind == "SRV":
        return (p.priority == q.priority and p.weight == q.weight and p.port == q.port
                and t(p.target.name) == t(q.target.name))
    return False


def _same_rr(kind, h, g):
    return (t(h.name.name) == t(g.name.name) and h.type == g.type and h.cls == g.cls and h.ttl == g.ttl
            and _same_payload(kind, h.payload, g.payload) and h.payload == g.payload)


_NOSTR = 'len(s1) == 0 and len(s2) == 0'
_RR_SHARDS = [
    ("ki == 0", "pi == 0 and len(s1) == 2 and len(s2) == 2"),                  # A: 4 symbolic address bytes
    ("ki == 1", _NOSTR), ("ki == 2", _NOSTR), ("ki == 3", _NOSTR),             # NS, CNAME, SOA
    ("ki == 4", _NOSTR + " and x1 < 65536"),                                   # MX
    ("ki == 5", "pi == 0"),                                                    # TXT: two strings of 0..2 bytes
    ("ki == 6", _NOSTR + " and x1 < 65536 and 0 <= x3 < 65536 and x5 < 65536"),  # SRV
    ("ki == 7", "pi == 0 and len(s1) == 2 and len(s2) == 0"),                  # AAAA: 2 symbolic + 14 fixed bytes
]


def _kind_of(ki):
    return _pick(ki, KINDS)


def rr_rt(ki: int, ni: int, cls: int, ttl: int, pi: int, x1: int, x2: int, x3: int, x4: int, x5: int,
          s1: str, s2: str, comp: bool) -> bool:
    """
    pre: 0 <= ki < 8 and 0 <= ni < 4 and 0 <= pi < 4 and 0 <= cls < 65536 and 0 <= ttl < 2 ** 32
    pre: 0 <= x1 < 2 ** 32 and 0 <= x5 < 2 ** 32
    pre: -2 ** 31 <= x2 < 2 ** 31 and -2 ** 31 <= x3 < 2 ** 31 and -2 ** 31 <= x4 < 2 ** 31
    pre: len(s1) <= 2 and len(s2) <= 2 and all(ord(c) < 256 for c in s1 + s2)
    post: _
    """
    kind = _kind_of(ki)
    pay = _payload(kind, ttl, pi, x1, x2, x3, x4, x5, s1, s2)
    h = L.RRHeader(b(_pick(ni, MENU)), pay.TYPE, cls, ttl, pay)
    io = L.BytesIO()      # the body is encoded on its own, offsets are relative to the message start
    cd = None
    if comp:
        cd = {}
    h.encode(io, cd)
    enc = "\0" * HS + t(io.getvalue())
    api.obs(enc)
    cover()
    m = L.Message()
    got = []
    io2 = L.BytesIO(b(enc))
    io2.seek(HS)
    m.parseRecords(got, 1, io2)
    if len(got) != 1 or io2.tell() != len(enc):
        return False
    g = got[0]
    # rdlength is the real length of the rdata
    return _same_rr(kind, h, g) and g.rdlength + HS + len(_pick(ni, MENU)) + 2 + 10 == len(enc)



M3 = ["ex.org", "www.ex.org", "org", "EX.org"]
_FLAGS = ("answer", "opCode", "recDes", "recAv", "auth", "rCode", "trunc", "authenticData", "checkingDisabled")


def _build_msg(mid, auth, nq, na, nns, nadd, ia, ib, ic, t1, c1, ttl, x1, s1, s2, maxSize):
    m = L.Message(id=mid, answer=1, recDes=1, auth=auth, opCode=2, rCode=3, maxSize=maxSize)
    na1, nb, nc = _pick(ia, M3), _pick(ib, M3), _pick(ic, M3)
    if nq >= 1:
        m.queries.append(L.Query(b(na1), t1, c1))
    if nq >= 2:
        m.queries.append(L.Query(b(nb), c1, t1))
    kinds = []
    if na >= 1:
        m.answers.append(L.RRHeader(b(na1), L.MX, c1, ttl, L.Record_MX(x1, b(nc), ttl)))
        kinds.append("MX")
    if na >= 2:
        r = L.Record_A(ttl=x1)
        r.address = b(s1 + "\x00\x01")
        m.answers.append(L.RRHeader(b(nb), L.A, 1, x1, r))
        kinds.append("A")
    if nns >= 1:
        m.authority.append(L.RRHeader(b("org"), L.NS, 1, ttl, L.Record_NS(b(nc), ttl)))
        kinds.append("NS")
    if nadd >= 1:
        m.additional.append(L.RRHeader(b(na1), L.TXT, 1, ttl, L.Record_TXT(b(s2), ttl=ttl)))
        kinds.append("TXT")
    return m, kinds


def _same_header(m, d):
    for k in ("id",) + _FLAGS:
        if getattr(m, k) != getattr(d, k):
            return False
    return True


def _same_queries(qs, ds):
    if len(qs) != len(ds):
        return False
    for q, d in zip(qs, ds):
        if not (t(q.name.name) == t(d.name.name) and q.type == d.type and q.cls == d.cls and q == d):
            return False
    return True


def _prefix_rrs(kinds, hs, gs, exact):
    """decoded records gs are the first len(gs) of hs (all of them when exact)"""
    if len(gs) > len(hs) or (exact and len(gs) != len(hs)):
        return False
    for k, h, g in zip(kinds, hs, gs):
        if not _same_rr(k, h, g):
            return False
    return True


def hdr_rt(mid: int, answer: int, op: int, recDes: int, recAv: int, auth: int, rc: int, trunc: int, ad: int,
           cdis: int) -> bool:
    """
    pre: 0 <= mid < 65536 and 0 <= op < 16 and 0 <= rc < 16
    pre: 0 <= answer <= 1 and 0 <= recDes <= 1 and 0 <= recAv <= 1 and 0 <= auth <= 1
    pre: 0 <= trunc <= 1 and 0 <= ad <= 1 and 0 <= cdis <= 1
    post: _
    """
    m = L.Message(id=mid, answer=answer, opCode=op, recDes=recDes, recAv=recAv, auth=auth, rCode=rc, trunc=trunc,
                  authenticData=ad, checkingDisabled=cdis)
    enc = t(m.toStr())
    api.obs(enc)
    cover()
    if len(enc) != HS or enc[4:] != "\0" * 8:
        return False
    d = L.Message()
    d.fromStr(b(enc))
    return (_same_header(m, d) and d.queries == [] and d.answers == [] and d.authority == []
            and d.additional == [] and m.trunc == trunc)


def msg_rt(mid: int, auth: int, nq: int, na: int, nns: int, nadd: int, ia: int, ib: int, ic: int,
           t1: int, c1: int, ttl: int, x1: int, s1: str, s2: str) -> bool:
    """
    pre: 0 <= mid < 65536 and 0 <= auth <= 1
    pre: 0 <= nq <= 2 and 0 <= na <= 2 and 0 <= nns <= 1 and 0 <= nadd <= 1
    pre: 0 <= ia < B['names'] and 0 <= ib < B['names'] and 0 <= ic < B['names']
    pre: 0 <= t1 < 65536 and 0 <= c1 < 65536 and 0 <= ttl < 2 ** 32 - 1 and 0 <= x1 < 65536
    pre: len(s1) == 2 and len(s2) == B['txt'] and all(ord(c) < 256 for c in s1 + s2)
    post: _
    """
    m, kinds = _build_msg(mid, auth, nq, na, nns, nadd, ia, ib, ic, t1, c1, ttl, x1, s1, s2, 512)
    tr0 = m.trunc
    enc = t(m.toStr())
    api.obs(enc)
    cover()
    d = L.Message()
    d.fromStr(b(enc))
    if m.trunc != tr0:
        return False        # far below the size limit: encoding must not set TC
    ka = kinds[:len(m.answers)]
    kn = kinds[len(m.answers):len(m.answers) + len(m.authority)]
    kd = kinds[len(m.answers) + len(m.authority):]
    return (_same_header(m, d) and _same_queries(m.queries, d.queries)
            and _prefix_rrs(ka, m.answers, d.answers, True) and _prefix_rrs(kn, m.authority, d.authority, True)
            and _prefix_rrs(kd, m.additional, d.additional, True))


def _split_cases(lo, hi, v):
    """turn the symbolic int v into one concrete-value path per value in lo..hi"""
    for k in range(lo, hi + 1):
        if v == k:
            return k
    return hi


def trunc(mid: int, lim: int, nq: int, ttl: int, x1: int, c1: int, s1: str, s2: str) -> bool:
    """
    pre: 0 <= mid < 65536 and 12 <= lim and 0 <= nq <= 1
    pre: 0 <= ttl < 2 ** 32 - 1 and 0 <= x1 < 65536 and 0 <= c1 < 65536
    pre: len(s1) == 2 and len(s2) == 1 and all(ord(c) < 256 for c in s1 + s2)
    post: _
    """
    # the same message without a size limit: its encoding and the untouched flag
    full_m, kinds = _build_msg(mid, 0, nq, 2, 1, 1, 0, 1, 0, 15, c1, ttl, x1, s1, s2, 0)
    full = t(full_m.toStr())
    size = _split_cases(HS, len(full) + 1, lim)
    m, kinds = _build_msg(mid, 0, nq, 2, 1, 1, 0, 1, 0, 15, c1, ttl, x1, s1, s2, size)
    enc = t(m.toStr())
    api.obs((size, enc))
    cover()
    d = L.Message()
    d.fromStr(b(enc))          # decoding a truncated message raises nothing
    if size >= len(full):
        return enc == full and m.trunc == 0 and d.trunc == 0
    if len(enc) > size or m.trunc != 1 or d.trunc != 1:
        return False
    if enc[4:] != full[4:size] or enc[:2] != full[:2]:
        return False                        # the body is a prefix of the full body, counts unchanged
    allrr = m.answers + m.authority + m.additional
    got = d.answers + d.authority + d.additional
    if len(d.authority) > 0 and len(d.answers) != 2:
        return False
    if len(d.additional) > 0 and len(d.authority) != 1:
        return False
    return (len(d.queries) <= len(m.queries) and _same_queries(m.queries[:len(d.queries)], d.queries)
            and (len(got) == 0 or len(d.queries) == len(m.queries)) and _prefix_rrs(kinds, allrr, got, False))


LABS = [1, 2] + list(range(60, 68)) + [128] + list(range(190, 194)) + [255, 256, 257, 300]
TOTALS = [t_ for t_ in [100] + list(range(248, 262)) + [300, 400] if t_ % 64 != 0]


def _longname(total):
    """dotted name of exactly `total` characters made of labels of at most 63 bytes"""
    parts = []
    rem = total
    while rem > 63:
        parts.append("a" * 63)
        rem -= 64
    parts.append("b" * rem)
    return ".".join(parts)


POSITIONS = ["first", "middle", "last", "only"]


def overlong(kind: int, i: int, pos: int, dot: bool, comp: bool, mx: bool) -> bool:
    """
    pre: 0 <= kind <= 1 and 0 <= i < 20 and 0 <= pos <= 3
    post: _
    """
    if kind == 0:
        # one label of n bytes as the first / a middle / the last / the only label of the name
        n = _pick(i, LABS)
        where = _pick(pos, POSITIONS)
        lab = "a" * n
        if where == "first":
            name = lab + ".x.org"
        elif where == "middle":
            name = "x." + lab + ".org"
        elif where == "last":
            name = "x.y." + lab
        else:
            name = lab
        ok = n <= 63
        want = name
        name = name + ("." if dot else "")
    else:
        total = _pick(i, TOTALS)
        name = _longname(total) + ("." if dot else "")
        # wire length = sum(len(label) + 1) + 1 = dotted length without trailing dot + 2 must be <= 255
        ok = total + 2 <= 255
        want = name[:total]
    io = L.BytesIO()
    cd = None
    if comp:
        cd = {}
    skip = 0
    try:
        if mx:
            # the same name as the exchange of an MX record (2 bytes of preference first)
            L.Record_MX(10, b(name), 5).encode(io, cd)
            skip = 2
        else:
            L.Name(b(name)).encode(io, cd)
        refused = False
    except Exception:
        refused = True
    cover()
    api.obs((len(name), refused))
    if not ok:
        return refused
    if refused:
        return False
    io2 = L.BytesIO(b("\0" * HS + t(io.getvalue())))
    io2.seek(HS + skip)
    nm = L.Name()
    nm.decode(io2)
    return t(nm.name) == want and io2.tell() == HS + skip + len(want) + 2


def _stream_io(parts):
    """BytesIO of the current world over the concatenation of the text parts; concrete padding stays a
    plain Python list of characters (no symbolic string of 16 K characters is ever built)"""
    if L.__real__:
        return L.BytesIO("".join(parts).encode("latin-1"))
    chars = []
    for p in parts:
        if lbytes._is_conc(p):
            chars.extend(p)
        else:
            chars.extend([p[i] for i in range(len(p))])
    io = DnsIO()
    io.chars = chars
    return io


SUF = "ex.org"
SUF_WIRE = "\x02ex\x03org\x00"


def _enc_with_known(name, known, o):
    """Name(name).encode with a compression dict that already holds `known` at message offset o"""
    cd = {} if L.__real__ else lbytes.SymDict()
    cd[b(known)] = o
    io = L.BytesIO()
    L.Name(b(name)).encode(io, cd)
    return t(io.getvalue())


def ptr_bytes(o: int, l1: str, whole: bool) -> bool:
    """
    pre: 12 <= o <= 16383 and len(l1) == 2 and all(ord(c) < 256 and c != "." for c in l1)
    post: _
    """
    # the name (or its suffix) was first written at ANY representable message offset o (14 bits)
    name = l1 + "." + SUF
    enc = _enc_with_known(name, name if whole else SUF, o)
    api.obs(enc)
    cover()
    ptr = chr(192 + o // 256) + chr(o % 256)
    if whole:
        return enc == ptr
    return enc == chr(len(l1)) + l1 + ptr


OFFS = [12, 13, 255, 256, 1011, 1012, 1023, 1024, 1025, 2048, 4095, 4096, 8191, 8192, 16371, 16383]


def ptr_decode(oi: int, l1: str, whole: bool) -> bool:
    """
    pre: 0 <= oi < 16 and len(l1) == 2 and all(ord(c) < 256 and c != "." for c in l1)
    post: _
    """
    o = _pick(oi, OFFS)
    name = l1 + "." + SUF
    enc = _enc_with_known(name, name if whole else SUF, o)
    api.obs((o, enc))
    cover()
    # a message in which the referenced name really sits at offset o (zero padding before it)
    target = (chr(len(l1)) + l1 if whole else "") + SUF_WIRE
    io = _stream_io(["\0" * o, target, enc])
    start = o + len(target)
    io.seek(start)
    n = L.Name()
    n.decode(io)
    return t(n.name) == name and io.tell() == start + len(enc)


STARTS = [16370, 16375, 16377, 16378, 16379, 16380, 16381, 16382, 16383, 16384, 16385, 16390]


def ptr_boundary(si: int, l1: str, c: str) -> bool:
    """
    pre: 0 <= si < 12 and len(l1) == 2 and len(c) == 1 and all(ord(x) < 256 and x != "." for x in l1 + c)
    post: _
    """
    # the RECORDING side at the 14 bit boundary: a name written at message offset `start` (labels at
    # start, start+3, start+6), written again, and a sibling sharing its suffix
    start = _pick(si, STARTS)
    io = L.BytesIO()
    io.seek(start - HS)
    cd = {} if L.__real__ else lbytes.SymDict()
    names = [l1 + "." + SUF, l1 + "." + SUF, c + "." + SUF]
    pos = []
    for nm in names:
        pos.append(io.tell() + HS)
        L.Name(b(nm)).encode(io, cd)
    end = io.tell() + HS
    cover()
    api.obs((start, pos))
    lens = [pos[1] - pos[0], pos[2] - pos[1], end - pos[2]]
    want2 = 2 if start <= 16383 else 11
    want3 = 2 + (2 if start + 3 <= 16383 else (3 + (2 if start + 6 <= 16383 else 5)))
    if lens != [11, want2, want3]:
        return False
    if L.__real__:
        io2 = L.BytesIO(b"\0" * HS + io.getvalue())
    else:
        io2 = DnsIO()
        io2.chars = ["\0"] * HS + list(io.chars)
    io2.seek(start)
    out = []
    for _ in names:
        n = L.Name()
        n.decode(io2)
        out.append(t(n.name))
    return out == names and io2.tell() == end


NPADS = [3, 4, 5, 17, 70]


def msg_big(npi: int, ttl: int, s1: str) -> bool:
    """
    pre: 0 <= npi < B['npads'] and 0 <= ttl < 2 ** 32 and len(s1) == 2 and all(ord(c) < 256 for c in s1)
    post: _
    """
    # concrete padding records push a reused name beyond 1 KiB / 4 KiB / 16 KiB
    npad = _pick(npi, NPADS)
    m = L.Message(id=7, answer=1, maxSize=0)
    for i in range(npad):
        m.answers.append(L.RRHeader(b("p%d.pad.org" % i), L.TXT, 1, 5, L.Record_TXT(b("x" * 250), ttl=5)))
    for k in range(2):
        r = L.Record_A(ttl=ttl)
        r.address = b(s1 + "\x00" + chr(k))
        m.answers.append(L.RRHeader(b("late.example.net"), L.A, 1, ttl, r))
    enc = m.toStr()
    api.obs(len(enc))
    cover()
    d = L.Message()
    d.fromStr(enc)
    if len(d.answers) != npad + 2:
        return False
    for h, g in zip(m.answers[:npad], d.answers[:npad]):
        if not _same_rr("TXT", h, g):
            return False
    return _same_rr("A", m.answers[npad], d.answers[npad]) and _same_rr("A", m.answers[npad + 1], d.answers[npad + 1])


BOUNDS = {"quick": {"lab": 2, "names": 2, "txt": 1, "npads": 5}, "thorough": {"lab": 3, "names": 4, "txt": 2, "npads": 5}}
B = {}
ENCODED = ["twisted.names.dns:" + n for n in (
    "Name.encode", "Name.decode", "Query.encode", "Query.decode", "RRHeader.encode", "RRHeader.decode",
    "Message.encode", "Message.decode", "Message.parseRecords", "Message.toStr", "Message.fromStr",
    "Message.lookupRecordType", "readPrecisely", "_ord2bytes", "SimpleRecord.encode", "SimpleRecord.decode",
    "Record_A.encode", "Record_A.decode", "Record_SOA.encode", "Record_SOA.decode", "Record_MX.encode",
    "Record_MX.decode", "Record_TXT.encode", "Record_TXT.decode", "Record_SRV.encode", "Record_SRV.decode",
    "Record_AAAA.encode", "Record_AAAA.decode", "Name.__eq__")]
BOUNDS_TEXT = ("names of 1-3 labels with 1..lab symbolic bytes per label (any byte but '.'), compression with a "
               "shared symbolic suffix; Query/RRHeader type, class, ttl and all numeric record fields any in-range "
               "integer; A/AAAA address and TXT strings symbolic bytes; header id, opCode, rCode and the seven "
               "flags symbolic; messages with 0-2 queries, 0-2 answers, 0-1 authority, 0-1 additional records "
               "with names from a menu of `names` names; every size limit from 12 to the full size + 1")
OUTSIDE = ["the dnspython differential (no second decoder is consulted)",
           "record types other than A, NS, CNAME, SOA, MX, TXT, SRV, AAAA; EDNS (_EDNSMessage / OPT)",
           "names in whole messages come from a concrete menu (Message.encode hashes them in its compression "
           "dict); symbolic label bytes are covered by name_rt / names_comp, which pass a comparing dict",
           "labels longer than lab symbolic bytes (longer labels appear with concrete content in `overlong`)",
           "size limits below 12 (the header alone is 12 bytes: the limit cannot be met)",
           "names with a trailing dot are only checked to be encoded without it",
           "RRHeader.auth / payload.ttl are taken from the message header / record header when decoding: the "
           "originals are built accordingly"]
ASSUMPTIONS = ["LBytes, the struct/BytesIO/ord/bit-operation shims reproduce the real semantics for the operations "
               "used (differentially tested on every run: selftest) and the lifted module agrees with the real "
               "one on the concrete vectors (results and encoded bytes compared)"]
EXPLANATION = ("whole dns.py lifted onto symbolic text; encode then decode with symbolic labels, fields, flags and "
               "size limit; shapes, record kinds and name menus case-split")


def _rr_shards(tier):
    if tier != "quick":
        return _RR_SHARDS
    out = []
    for sh in _RR_SHARDS:
        if sh[0] == "ki == 3":      # SOA: 2 sign cases per signed field; smaller name menu in the quick tier
            out.append(sh + ("ni <= 1 and pi <= 1 and comp",))
            out.append(sh + ("ni <= 1 and pi <= 1 and not comp",))
        else:
            out.append(sh)
    return out


HARNESSES = [
    H(name_rt, shards=lambda tier: [("len(l1) == %d" % a, "len(l2) == %d" % c, "len(l3) == 1")
                                    for a in range(1, BOUNDS[tier]["lab"] + 1) for c in (0, BOUNDS[tier]["lab"])],
      timeout={"quick": 60, "thorough": 900}),
    H(names_comp, shards=lambda tier: [("len(l1) == %d" % a, "len(l2) == %d" % c)
                                       for a in range(1, BOUNDS[tier]["lab"] + 1) for c in range(a, BOUNDS[tier]["lab"] + 1)],
      timeout={"quick": 90, "thorough": 1200}),
    H(query_rt),
    H(rr_rt, shards=_rr_shards, timeout={"quick": 90, "thorough": 900}),
    H(hdr_rt),
    H(msg_rt, shards=[("nq == %d" % a, "na == %d" % c) for a in range(3) for c in range(3)],
      timeout={"quick": 90, "thorough": 1200}),
    H(trunc, shards=lambda tier: [("nq == 1",)] if tier == "quick" else [("nq == 0",), ("nq == 1",)],
      timeout={"quick": 120, "thorough": 900}),
    H(overlong, shards=[("kind == 0", "pos <= 1"), ("kind == 0", "pos >= 2"),
                        ("kind == 1", "pos == 0", "i < %d" % len(TOTALS))]),
    H(ptr_bytes, shards=[("whole",), ("not whole",)]),
    H(ptr_decode, shards=[("whole",), ("not whole",)], timeout={"quick": 90, "thorough": 600}),
    H(ptr_boundary, timeout={"quick": 90, "thorough": 600}),
    H(msg_big, timeout={"quick": 120, "thorough": 900}),
]

VECTORS = {
    "name_rt": [("ab", "cd", "e"), ("a", "", ""), ("\xff\x00", "\xc0", "x"), ("A", "b", "")],
    "names_comp": [("ab", "ab", "c"), ("ab", "cd", "e"), ("a", "bc", "\x00"), ("xy", "XY", "z")],
    "query_rt": [(0, 1, 1), (1, 255, 255), (2, 65535, 0), (3, 28, 1)],
    "rr_rt": [(0, 0, 1, 3600, 0, 0, 0, 0, 0, 0, "\x01\x02", "\x03\x04", True),
              (1, 1, 1, 0, 0, 0, 0, 0, 0, 0, "", "", True), (2, 0, 1, 7, 1, 0, 0, 0, 0, 0, "", "", False),
              (3, 3, 1, 4294967295, 3, 4294967295, -2147483648, 2147483647, -1, 4294967295, "", "", True),
              (3, 0, 1, 5, 1, 2024010101, 7200, 3600, 1209600, 3600, "", "", False),
              (4, 0, 1, 300, 1, 10, 0, 0, 0, 0, "", "", True), (5, 2, 1, 9, 0, 0, 0, 0, 0, 0, "hi", "", True),
              (5, 0, 3, 9, 0, 0, 0, 0, 0, 0, "\x00", "\xff\xc0", False),
              (6, 1, 1, 60, 0, 1, 0, 65535, 0, 443, "", "", True), (7, 0, 1, 60, 0, 0, 0, 0, 0, 0, "\x20\x01", "", True)],
    "hdr_rt": [(4660, 1, 2, 1, 1, 1, 3, 0, 1, 1), (0, 0, 0, 0, 0, 0, 0, 0, 0, 0), (65535, 1, 15, 1, 1, 1, 15, 1, 1, 1),
               (1, 0, 5, 1, 0, 0, 10, 0, 1, 0), (2, 0, 0, 0, 1, 0, 0, 0, 0, 1)],
    "msg_rt": [(1, 1, 2, 2, 1, 1, 0, 1, 0, 1, 1, 3600, 10, "\x0a\x00", "t"), (2, 0, 0, 0, 0, 0, 0, 0, 0, 0, 0, 0, 0, "ab", "c"),
               (3, 0, 1, 1, 0, 1, 1, 1, 1, 255, 255, 4294967294, 65535, "\xff\xc0", "\x00"),
               (4, 1, 2, 0, 1, 0, 0, 0, 1, 15, 3, 1, 1, "zz", "z")],
    "trunc": [(7, 12, 1, 300, 10, 1, "\x01\x02", "t"), (7, 40, 1, 300, 10, 1, "\x01\x02", "t"),
              (7, 64, 0, 300, 10, 1, "\x01\x02", "t"), (7, 95, 1, 300, 10, 1, "\x01\x02", "t"),
              (7, 4000, 1, 300, 10, 1, "\x01\x02", "t"), (9, 77, 1, 1, 2, 3, "ab", "c")],
    "ptr_bytes": [(12, "ab", True), (1024, "ab", False), (16383, "\xff\x00", False), (4660, "zz", True)],
    "ptr_decode": [(0, "ab", True), (7, "ab", False), (8, "ab", True), (15, "\xc0\x0c", False), (11, "q\x00", False)],
    "ptr_boundary": [(0, "ab", "c"), (6, "ab", "c"), (8, "ab", "c"), (9, "ab", "c"), (3, "\xc0\x00", "\xff"), (11, "ab", "a")],
    "msg_big": [(0, 300, "\x0a\x00"), (2, 4294967295, "ab"), (3, 1, "ab"), (4, 5, "\x01\x02")],
    "overlong": [(0, 3, 1, False, True, False), (0, 5, 1, False, False, False), (0, 6, 1, False, True, True),
                 (0, 14, 0, False, True, False), (0, 17, 3, False, False, False), (0, 5, 2, False, True, False),
                 (0, 6, 2, False, True, False), (0, 6, 3, False, False, False), (0, 6, 2, True, False, True),
                 (0, 13, 3, True, True, False), (0, 16, 2, False, False, True), (0, 5, 3, True, True, True),
                 (0, 6, 0, False, False, True), (1, 0, 0, False, True, False), (1, 5, 0, False, True, False),
                 (1, 5, 0, True, False, True), (1, 6, 0, False, True, False), (1, 6, 0, True, True, False),
                 (1, 15, 0, False, False, False)],
}


def selftest():
    """shims of this module vs the real struct / BytesIO, plus the shared LBytes self-test"""
    import io as _io
    import struct as _st
    n = lbytes.selftest()
    for fmt, vals in [("!H", (0,)), ("!H", (65535,)), ("!HH", (1, 515)), ("!HHIH", (1, 2, 4294967295, 4)),
                      ("!HHIH", (65535, 0, 16909060, 0)), ("!LlllL", (4294967295, -2147483648, 2147483647, -1, 0)),
                      ("!LlllL", (1, 2, 3, 4, 5)), ("!B", (255,)), ("!HHH", (1, 2, 3)), ("!H2B4H", (4660, 145, 3, 1, 2, 3, 4)),
                      ("!Q", (2 ** 64 - 1,)), ("!BB", (1, 2)), ("!i", (-5,))]:
        assert lbytes._s(DnsStruct.pack(fmt, *vals)) == _st.pack(fmt, *vals).decode("latin-1"), (fmt, vals)
        assert tuple(DnsStruct.unpack(fmt, DnsStruct.pack(fmt, *vals))) == vals
        n += 2
    for fmt, vals in [("!H", (65536,)), ("!H", (-1,)), ("!I", (2 ** 32,)), ("!l", (2 ** 31,)), ("!B", (256,))]:
        try:
            DnsStruct.pack(fmt, *vals)
            raise AssertionError((fmt, vals))
        except _st.error:
            n += 1
    a, r = DnsIO(lbytes.LBytes("hello")), _io.BytesIO(b"hello")
    for op, arg in [("read", 2), ("tell", None), ("write", "XY"), ("seek", 1), ("read", 10), ("seek", 8), ("write", "Z"),
                    ("seek", 0), ("read", -1), ("seek", 3), ("truncate", None), ("seek", 0), ("read", None), ("read", 1),
                    ("seek", 2), ("write", "abcdef"), ("tell", None), ("seek", 20), ("read", 1), ("tell", None)]:
        if op == "write":
            x, y = a.write(lbytes.LBytes(arg)), r.write(arg.encode("latin-1"))
        elif arg is None and op != "read":
            x, y = getattr(a, op)(), getattr(r, op)()
        else:
            x, y = getattr(a, op)(arg), getattr(r, op)(arg)
        if op == "read":
            x, y = lbytes._s(x), y.decode("latin-1")
        assert x == y and lbytes._s(a.getvalue()) == r.getvalue().decode("latin-1"), (op, arg, x, y)
        n += 1
    for v in (0, 65, 255):
        assert l_ord(lbytes.LBytes(chr(v))) == v
    try:
        l_bytes_checked([256])
        raise AssertionError("bytes([256])")
    except ValueError:
        n += 1
    return n
