"""C16 framed-message receivers: segmentation invariance, exact length limits, send/receive round trip.

Engine E2: LineReceiver (+_PauseableMixin), LineOnlyReceiver, NetstringReceiver and
IntNStringReceiver/Int8/Int16/Int32StringReceiver are recompiled from /repo's basic.py onto LBytes.
The harness subclasses record every callback; the transport is a recording fake.  MAX_LENGTH is set
to 2 on the instance, so that both sides of the limit lie inside the bound.  The byte stream is
symbolic text (all 256 values per byte), the split index is a symbolic int turned into one path per
position, the mode switch (raw mode / pause at the k-th line) is a symbolic menu value.
Oracle = a reference framer written in this file from the framing definitions (not from the code).
"""
import operator as _operator

from vlib import api, lbytes, lift
from vlib.api import H, cover
from vlib.lift import b, t

PROPERTY = "C16"
LEVEL = "model_checking"
ENCODED = ["twisted.protocols.basic:LineReceiver.dataReceived", "twisted.protocols.basic:LineReceiver.setLineMode",
           "twisted.protocols.basic:LineReceiver.setRawMode", "twisted.protocols.basic:LineReceiver.sendLine",
           "twisted.protocols.basic:_PauseableMixin", "twisted.protocols.basic:LineOnlyReceiver.dataReceived",
           "twisted.protocols.basic:LineOnlyReceiver.sendLine",
           "twisted.protocols.basic:NetstringReceiver", "twisted.protocols.basic:_formatNetstring",
           "twisted.protocols.basic:IntNStringReceiver.dataReceived",
           "twisted.protocols.basic:IntNStringReceiver.sendString"]
BOUNDS = {"quick": {"n": 4, "ns": 3, "ni": 3}, "thorough": {"n": 7, "ns": 5, "ni": 4}}
B = {}
M = 2   # MAX_LENGTH used throughout
BOUNDS_TEXT = ("MAX_LENGTH=2.  Line receivers: every byte stream of <= n bytes (n=4 quick, 7 thorough), "
               "delimiter CRLF or LF, every split index; LineReceiver additionally with: raw mode from line 1|2, "
               "pause at line 1|2 (resumed after the last delivery), one raw byte after line 1|2 then "
               "setLineMode(rest).  Netstring: every stream of 1-2 length bytes + separator byte + rest with "
               "len(length)+len(rest) <= ns (3 quick, 5 thorough), all bytes symbolic; plus the shapes "
               "'<v>:<v bytes><byte><0-1 byte>' (v = 0..3), two back-to-back strings of 0..2 bytes, and "
               "MAX_LENGTH in {1, 2, 3, 10, 100} x string length MAX_LENGTH-1|MAX_LENGTH|MAX_LENGTH+1 (payload = "
               "one symbolic byte repeated) x every split of the length prefix.  "
               "IntN (N=8,16,32): every stream of <= prefix+ni bytes (ni=3 quick, 4 thorough), pause at string "
               "1|2.  Round trip sendLine/sendString -> dataReceived for payloads of 0..3 bytes.  Two deliveries "
               "at every split index throughout.")
OUTSIDE = ["streams longer than the bound; three or more deliveries (two deliveries at every split index "
           "are explored; the receivers keep all state in one buffer + mode flags)",
           "MAX_LENGTH values other than 2 (the real defaults 16384 / 99999 are scaled down on the instance; "
           "the comparisons in the code are against self.MAX_LENGTH, not against constants)",
           "delimiters other than CRLF and LF",
           "applications whose lineLengthExceeded/lengthLimitExceeded do not close the connection (events "
           "after the first loseConnection are not compared)",
           "the deprecated IntNStringReceiver.recvd attribute"]
ASSUMPTIONS = ["LBytes/LBuf/struct/re/BytesIO shims reproduce the real types for the operations used "
               "(differential selftest on every run) and the lifted receivers agree with the real ones on the "
               "concrete vectors (taken from twisted/protocols/test/test_basic.py) below"]
EXPLANATION = "lifted real receivers on symbolic streams; split index / mode menu case-split by the solver"

_NAMES = ["_formatNetstring", "NetstringReceiver", "LineOnlyReceiver", "_PauseableMixin", "LineReceiver",
          "_RecvdCompatHack", "IntNStringReceiver", "Int32StringReceiver", "Int16StringReceiver",
          "Int8StringReceiver"]


def _l_str(x="", *a):
    """the call str(...) in lifted code: a symbolic int (a length) is turned into one path per value
    instead of a z3 int-to-string term (which z3 does not decide reliably)"""
    if isinstance(x, int) and not isinstance(x, bool) and not lbytes._is_conc(x):
        for k in range(0, 32):
            if x == k:
                return str(k)
    return lbytes.l_str(x, *a)


L = lift.lift("twisted.protocols.basic", names=_NAMES, use_re=True, encode_calls=True,
              call_shims=dict(lift._CALL_SHIMS, str="_vl_str"), extra_shims={"_vl_str": _l_str},
              overrides={"pack": lbytes.l_struct.pack, "unpack": lbytes.l_struct.unpack,
                         "calcsize": lbytes.l_struct.calcsize})


def _fix(s):
    """the same text rebuilt from its characters, so that its length is a plain int: a harness argument
    has a symbolic length expression (even when a precondition pins it) and every index or slice of a
    string containing it then costs solver queries"""
    n = len(s)
    if not lbytes._is_conc(n):
        n = _operator.index(n)
    out = ""
    for i in range(n):
        out = out + s[i]
    return out


def _split_cases(n, split):
    for k in range(n + 1):
        if split == k:
            return k
    return n


def _menu(n, v):
    for k in range(n):
        if v == k:
            return k
    return n


class FakeTransport:
    def __init__(self, ev):
        self.ev = ev
        self.out = []
        self.disconnecting = False

    def write(self, d):
        self.out.append(t(d))

    def writeSequence(self, seq):
        for d in seq:
            self.out.append(t(d))

    def loseConnection(self):
        self.disconnecting = True
        self.ev.append(("lose",))

    def pauseProducing(self):
        pass

    def resumeProducing(self):
        pass

    def stopProducing(self):
        pass


def _teq(x, y):
    """text equality that is robust against a CrossHair 0.0.110 defect: a symbolic str backed by a
    SequenceConcatenation (result of + / join) compared with one backed by the argument array can
    return a concrete False although both are equal (the reverse order is right).  Every check in this
    file requires equality for success, so the defect could only cause false alarms, never a false
    'confirmed'; this helper removes the false alarms."""
    if isinstance(x, int) or isinstance(y, int):
        return x == y
    if x == y:
        return True
    if y == x:
        return True
    n = len(x)
    if n != len(y):
        return False
    for i in range(n):
        if x[i] != y[i]:
            return False
    return True


def _eveq(a, c):
    """equality of two event lists [(kind,), (kind, text-or-int), ...]"""
    if len(a) != len(c):
        return False
    for i in range(len(a)):
        e, f = a[i], c[i]
        if e[0] != f[0] or len(e) != len(f):
            return False
        if len(e) > 1 and not _teq(e[1], f[1]):
            return False
    return True


def _upto_lose(ev):
    out = []
    for e in ev:
        if e[0] == "lose":
            break
        out.append(e)
    return out


def _norm(ev):
    """events up to the first close request; consecutive raw chunks are joined (their chunking is the
    transport's, not the framing's); the data handed to the oversize callback is dropped here (it is
    checked separately: it depends on how much of the stream has arrived)"""
    out = []
    for e in _upto_lose(ev):
        if e[0] == "raw" and out and out[-1][0] == "raw":
            out[-1] = ("raw", out[-1][1] + e[1])
        elif e[0] == "exc":
            out.append(("exc",))
        else:
            out.append(e)
    return out


# ------------------------------------------------------------------------------------------------
# line receivers

class RecLine(L.LineReceiver):
    def __init__(self, act):
        self.ev = []
        self.act = act
        self.nlines = 0
        self.need = 0

    def lineReceived(self, line):
        self.ev.append(("line", t(line)))
        self.nlines += 1
        a = self.act
        if (a == 1 or a == 2) and self.nlines == a:
            self.setRawMode()                       # rest of the stream is raw
        elif (a == 3 or a == 4) and self.nlines == a - 2:
            self.pauseProducing()                   # resumed by the harness after the last delivery
        elif (a == 5 or a == 6) and self.nlines == a - 4:
            self.need = 1                           # one raw byte (a "body"), then line mode again
            self.setRawMode()

    def rawDataReceived(self, data):
        if self.need > 0:
            self.ev.append(("raw", t(data[:1])))
            self.need = 0
            self.setLineMode(data[1:])
        else:
            self.ev.append(("raw", t(data)))

    def lineLengthExceeded(self, line):
        self.ev.append(("exc", t(line)))
        return L.LineReceiver.lineLengthExceeded(self, line)


class RecLineOnly(L.LineOnlyReceiver):
    def __init__(self):
        self.ev = []

    def lineReceived(self, line):
        self.ev.append(("line", t(line)))

    def lineLengthExceeded(self, line):
        self.ev.append(("exc", t(line)))
        return L.LineOnlyReceiver.lineLengthExceeded(self, line)


def _deliver(p, s, k):
    """two deliveries s[:k], s[k:] (empty pieces are not delivered); a real transport stops reading
    once loseConnection was requested"""
    if k > 0:
        p.dataReceived(b(s[:k]))
    if k < len(s) and not p.transport.disconnecting:
        p.dataReceived(b(s[k:]))


def _find(s, d, pos):
    """index of delimiter d (1 or 2 chars) in s at or after pos, -1 if none: character scan"""
    n = len(s)
    i = pos
    if len(d) == 1:
        while i < n:
            if s[i] == d:
                return i
            i += 1
        return -1
    while i + 1 < n:
        if s[i] == d[0] and s[i + 1] == d[1]:
            return i
        i += 1
    return -1


def _valid_prefix(tail, d):
    """tail could still become a line of <= M bytes followed by the delimiter"""
    n = len(tail)
    if n <= M:
        return True
    if len(d) == 2 and n == M + 1 and tail[n - 1] == d[0]:
        return True
    return False


def _ref_lines(s, d, act):
    """reference framing of the whole stream.  Returns (events, tailstate, excstart) where tailstate says
    what may happen for the unterminated rest: 'no' (must not be rejected: it can still become a
    valid line), 'must' (>= M + len(d) bytes without delimiter: cannot be buffered further),
    'may' (already longer than M, rejecting now or after the delimiter arrives are both allowed),
    None when the stream ended in raw mode / by an oversize line; excstart = start offset of the
    oversize line or -1."""
    ev = []
    pos = 0
    nl = 0
    n = len(s)
    while True:
        i = _find(s, d, pos)
        if i < 0:
            tail = s[pos:]
            if len(tail) == 0:
                return ev, "no", -1
            if len(tail) >= M + len(d):
                return ev, "must", pos
            if _valid_prefix(tail, d):
                return ev, "no", -1
            return ev, "may", pos
        if i - pos > M:
            ev.append(("exc",))
            return ev, None, pos
        ev.append(("line", s[pos:i]))
        nl += 1
        pos = i + len(d)
        if (act == 1 or act == 2) and nl == act:
            if pos < n:
                ev.append(("raw", s[pos:]))
            return ev, None, -1
        if (act == 5 or act == 6) and nl == act - 4:
            if pos < n:
                ev.append(("raw", s[pos:pos + 1]))
                pos += 1
            else:
                return ev, None, -1     # still waiting for the raw byte


def _check_lines(s, k, d, act, lineonly):
    evs = []
    for kk in (k, 0):
        ev = []
        p = RecLineOnly() if lineonly else RecLine(act)
        p.ev = ev
        p.MAX_LENGTH = M
        p.delimiter = b(d)
        p.makeConnection(FakeTransport(ev))
        _deliver(p, s, kk)
        if not lineonly and p.paused and not p.transport.disconnecting:
            p.resumeProducing()
        evs.append(ev)
    ev_split, ev_whole = evs
    api.obs((ev_split, ev_whole))
    cover()
    a, w = _norm(ev_split), _norm(ev_whole)
    # (i) split and unsplit delivery give the same events up to the first close request
    if not _eveq(a, w):
        return False
    # (ii) both equal the reference framing
    ref, tailstate, excstart = _ref_lines(s, d, act)
    if tailstate == "must":
        ref = ref + [("exc",)]
    elif tailstate == "may":
        if len(w) == len(ref) + 1 and w[-1] == ("exc",):
            ref = ref + [("exc",)]
    if not _eveq(w, ref):
        return False
    # (iii) is implied by (ii): the reference delivers exactly the lines of <= M bytes and rejects at the
    # first longer one.  Additionally: the oversize callback gets stream data starting at that line
    for ev in (ev_split, ev_whole):
        for e in _upto_lose(ev):
            if e[0] == "exc":
                if excstart < 0 or len(e[1]) <= M or not s[excstart:].startswith(e[1]):
                    return False
    return True


_D = ["\r\n", "\n"]


def linerecv(s: str, split: int, dl: int, act: int) -> bool:
    """
    pre: len(s) <= B['n'] and all(ord(c) < 256 for c in s)
    pre: 0 <= split <= len(s) and 0 <= dl <= 1 and 0 <= act <= 6
    post: _
    """
    s = _fix(s)
    k = _split_cases(len(s), split)
    d = _D[_menu(1, dl)]
    a = _menu(6, act)
    return _check_lines(s, k, d, a, False)


def lineonly(s: str, split: int, dl: int) -> bool:
    """
    pre: len(s) <= B['n'] and all(ord(c) < 256 for c in s)
    pre: 0 <= split <= len(s) and 0 <= dl <= 1
    post: _
    """
    s = _fix(s)
    k = _split_cases(len(s), split)
    d = _D[_menu(1, dl)]
    return _check_lines(s, k, d, 0, True)


def sendline(line: str, dl: int, which: int) -> bool:
    """
    pre: len(line) <= 2 and all(ord(c) < 256 for c in line)
    pre: 0 <= dl <= 1 and 0 <= which <= 1
    post: _
    """
    line = _fix(line)
    d = _D[_menu(1, dl)]
    ev = []
    p = RecLineOnly() if which == 1 else RecLine(0)
    p.ev = ev
    p.MAX_LENGTH = M
    p.delimiter = b(d)
    tr = FakeTransport(ev)
    p.makeConnection(tr)
    p.sendLine(b(line))
    wire = "".join(tr.out)
    p.dataReceived(b(wire))
    api.obs((wire, ev))
    cover()
    if d in line or (len(d) == 2 and len(line) > 0 and line[len(line) - 1] == d[0]):
        return True     # a line containing (or ending in the start of) the delimiter is not a line
    return _eveq(ev, [("line", line)])


# ------------------------------------------------------------------------------------------------
# netstrings

class RecNet(L.NetstringReceiver):
    def __init__(self):
        self.ev = []

    def stringReceived(self, string):
        self.ev.append(("str", t(string)))


def _conc_digits(txt):
    """one path per value for the digits that can be a valid length (0..M); everything else stays
    symbolic (a parsed length then never becomes a symbolic slice bound: it is either concrete or
    provably > MAX_LENGTH)"""
    out = ""
    for ch in txt:
        for h in "012":
            if ch == h:
                ch = h
                break
        out = out + ch
    return out


def _ref_netstring(s, mx=M):
    """netstrings.txt + MAX_LENGTH (mx).  Returns (strings, end): end 'ok' = waiting for more data and
    nothing wrong so far, 'err' = the stream is invalid and the invalid byte has arrived, 'may' = an
    unfinished length that can no longer become valid (leading zero / already > MAX_LENGTH: closing
    now or when the colon arrives are both allowed)"""
    ev = []
    pos = 0
    n = len(s)
    while pos < n:
        i = pos
        v = 0
        while i < n and "0" <= s[i] <= "9":
            if v <= mx:
                v = v * 10 + (ord(s[i]) - 48)
            i += 1
        nd = i - pos
        if nd == 0:
            return ev, "err"
        doomed = (nd > 1 and s[pos] == "0") or v > mx
        if i == n:
            return ev, ("may" if doomed else "ok")
        if doomed or s[i] != ":":
            return ev, "err"
        for c in range(mx + 1):
            if v == c:
                v = c
                break
        start = i + 1
        if n - start < v + 1:
            return ev, "ok"
        if s[start + v] != ",":
            return ev, "err"
        ev.append(("str", s[start:start + v]))
        pos = start + v + 1
    return ev, "ok"


def _run_net(s, k, mx=M):
    ev = []
    p = RecNet()
    p.ev = ev
    p.MAX_LENGTH = mx
    p.makeConnection(FakeTransport(ev))
    _deliver(p, s, k)
    return ev, p


def _check_net(s, k, mx=M):
    """the delivery split at k (k == 0: unsplit) gives exactly the reference framing; since the
    reference is a function of the stream alone, all splits and the unsplit delivery then agree (i).
    Only where the reference leaves the moment of rejection open ('may') the unsplit run is made
    too and compared."""
    ev, _p = _run_net(s, k, mx)
    api.obs(ev)
    cover()
    ref, end = _ref_netstring(s, mx)
    lost = len(ev) > 0 and ev[-1] == ("lose",)
    if not _eveq(_upto_lose(ev), ref):
        return False
    if end == "err":
        return lost
    if end == "ok":
        return not lost
    ev_whole, _p = _run_net(s, 0, mx)
    return _eveq(ev, ev_whole)


def netstring(ld: str, sep: str, rest: str, split: int) -> bool:
    """
    pre: 1 <= len(ld) <= 2 and len(sep) == 1 and len(ld) + len(rest) <= B['ns']
    pre: all(ord(c) < 256 for c in ld + sep + rest)
    pre: 0 <= split <= len(ld) + 1 + len(rest)
    post: _
    """
    ld = _fix(ld)
    sep = _fix(sep)
    rest = _fix(rest)
    s = _conc_digits(ld) + sep + rest
    k = _split_cases(len(s), split)
    return _check_net(s, k)


def netshape(v: int, pay: str, c: str, e: str, split: int) -> bool:
    """
    pre: 0 <= v <= M + 1 and len(pay) == v and len(c) == 1 and len(e) <= 1
    pre: all(ord(x) < 256 for x in pay + c + e)
    pre: 0 <= split <= v + 3 + len(e)
    post: _
    """
    pay = _fix(pay)
    c = _fix(c)
    e = _fix(e)
    n = _menu(M + 1, v)
    s = str(n) + ":" + pay + c + e
    k = _split_cases(len(s), split)
    if not _check_net(s, k):
        return False
    # (iii) spelled out for this shape: delivered iff it fits and is terminated by a comma
    ev, _p = _run_net(s, k)
    if n <= M and c == ",":
        return len(ev) >= 1 and _eveq(ev[:1], [("str", pay)])
    return ev == [("lose",)]


_MAXES = [1, 2, 3, 10, 100]


def netmax(mi: int, dv: int, c: str, split: int) -> bool:
    """
    pre: 0 <= mi <= 4 and 0 <= dv <= 2 and len(c) == 1 and ord(c) < 256
    pre: 0 <= split <= 6
    post: _
    """
    # the limit itself is case split (incl. the powers of ten 1, 10, 100, where the number of digits
    # of MAX_LENGTH changes); string lengths MAX_LENGTH-1, MAX_LENGTH, MAX_LENGTH+1; payload = one
    # symbolic byte repeated; every split index of the length prefix region + two inside the payload
    c = _fix(c)
    mx = _MAXES[_menu(4, mi)]
    n = mx - 1 + _menu(2, dv)
    pay = ""
    for _i in range(n):
        pay = pay + c
    digits = str(n)
    s = digits + ":" + pay + ","
    pl = len(digits) + 1
    ks = list(range(0, pl + 1)) + [pl + 1, len(s) - 1]
    k = ks[_menu(len(ks) - 1, split)]
    if not _check_net(s, k, mx):
        return False
    ev, _p = _run_net(s, k, mx)
    if n <= mx:
        return _eveq(ev, [("str", pay)])    # within the limit: never rejected
    return ev == [("lose",)]                # longer: never delivered


def nettwo(v1: int, v2: int, p1: str, p2: str, split: int) -> bool:
    """
    pre: 0 <= v1 <= M and 0 <= v2 <= M and len(p1) == v1 and len(p2) == v2
    pre: all(ord(x) < 256 for x in p1 + p2)
    pre: 0 <= split <= v1 + v2 + 6
    post: _
    """
    p1 = _fix(p1)
    p2 = _fix(p2)
    n1 = _menu(M, v1)
    n2 = _menu(M, v2)
    s = str(n1) + ":" + p1 + "," + str(n2) + ":" + p2 + ","
    k = _split_cases(len(s), split)
    ev, _p = _run_net(s, k)
    api.obs(ev)
    cover()
    return _eveq(ev, [("str", p1), ("str", p2)])


def netsend(data: str, extra: str, split: int) -> bool:
    """
    pre: len(data) <= M + 1 and len(extra) <= 1 and all(ord(c) < 256 for c in data + extra)
    pre: 0 <= split <= len(data) + 3 + len(extra)
    post: _
    """
    data = _fix(data)
    extra = _fix(extra)
    ev0 = []
    p = RecNet()
    p.makeConnection(FakeTransport(ev0))
    p.sendString(b(data))
    wire = "".join(p.transport.out)
    s = wire + extra
    k = _split_cases(len(s), split)
    ev, _p = _run_net(s, k)
    api.obs((wire, ev))
    cover()
    if not _teq(wire, str(_menu(M + 1, len(data))) + ":" + data + ","):
        return False
    if len(data) > M:
        return ev == [("lose",)]            # longer than MAX_LENGTH: never delivered
    return len(ev) > 0 and _eveq(ev[:1], [("str", data)])


# ------------------------------------------------------------------------------------------------
# length-prefixed strings

def _mk_intn(base):
    class Rec(base):
        def __init__(self, act):
            self.ev = []
            self.act = act
            self.nmsg = 0

        def stringReceived(self, string):
            self.ev.append(("str", t(string)))
            self.nmsg += 1
            if self.act == self.nmsg:
                self.pauseProducing()       # resumed by the harness after the last delivery

        def lengthLimitExceeded(self, length):
            self.ev.append(("exc", length))
            base.lengthLimitExceeded(self, length)
    return Rec


_INTN = {1: _mk_intn(L.Int8StringReceiver), 2: _mk_intn(L.Int16StringReceiver), 4: _mk_intn(L.Int32StringReceiver)}


def _conc_prefixes(s, pl):
    """follow the chain of length prefixes; one path per prefix byte value 0..M, other values stay
    symbolic (the length is then provably > MAX_LENGTH or concrete)"""
    out = list(s)
    n = len(out)
    pos = 0
    while pos + pl <= n:
        v = -1
        for j in range(pos, pos + pl - 1):
            if out[j] == "\x00":
                out[j] = "\x00"
            else:
                v = M + 1       # a non-zero high byte: > MAX_LENGTH whatever follows
                break
        if v < 0:
            j = pos + pl - 1
            v = M + 1
            for c in range(M + 1):
                if out[j] == chr(c):
                    out[j] = chr(c)
                    v = c
                    break
        if v > M:
            break
        pos = pos + pl + v
    return "".join(out)


def _ref_intn(s, pl):
    ev = []
    pos = 0
    n = len(s)
    while n - pos >= pl:
        v = 0
        for j in range(pos, pos + pl):
            v = v * 256 + ord(s[j])
        if v > M:
            ev.append(("exc", v))
            return ev
        for c in range(M + 1):
            if v == c:
                v = c
                break
        if n - pos - pl < v:
            return ev
        ev.append(("str", s[pos + pl:pos + pl + v]))
        pos = pos + pl + v
    return ev


def _run_intn(s, k, pl, act):
    ev = []
    p = _INTN[pl](act)
    p.ev = ev
    p.MAX_LENGTH = M
    p.makeConnection(FakeTransport(ev))
    _deliver(p, s, k)
    if p.paused and not p.transport.disconnecting:
        p.resumeProducing()
    return ev, p


def intn(s: str, split: int, pl: int, act: int) -> bool:
    """
    pre: pl in (1, 2, 4) and len(s) <= pl + B['ni'] and all(ord(c) < 256 for c in s)
    pre: 0 <= split <= len(s) and 0 <= act <= 2
    post: _
    """
    s = _fix(s)
    pl = 1 if pl == 1 else (2 if pl == 2 else 4)
    a = _menu(2, act)
    s = _conc_prefixes(s, pl)
    k = _split_cases(len(s), split)
    ev_split, _p = _run_intn(s, k, pl, a)
    ev_whole, _p = _run_intn(s, 0, pl, a)
    api.obs((ev_split, ev_whole))
    cover()
    if not _eveq(ev_split, ev_whole):
        return False
    ref = _ref_intn(s, pl)
    if not _eveq(_upto_lose(ev_whole), ref):
        return False
    lost = len(ev_whole) > 0 and ev_whole[-1] == ("lose",)
    return lost == (len(ref) > 0 and ref[-1][0] == "exc")


def intnsend(data: str, extra: str, split: int, pl: int) -> bool:
    """
    pre: pl in (1, 2, 4) and len(data) <= M + 1 and len(extra) <= 1 and all(ord(c) < 256 for c in data + extra)
    pre: 0 <= split <= len(data) + pl + len(extra)
    post: _
    """
    data = _fix(data)
    extra = _fix(extra)
    pl = 1 if pl == 1 else (2 if pl == 2 else 4)
    p = _INTN[pl](0)
    p.makeConnection(FakeTransport([]))
    p.sendString(b(data))
    wire = "".join(p.transport.out)
    s = wire + extra
    k = _split_cases(len(s), split)
    ev, _p = _run_intn(s, k, pl, 0)
    api.obs((wire, ev))
    cover()
    if not _teq(wire, "\x00" * (pl - 1) + chr(_menu(M + 1, len(data))) + data):
        return False
    if len(data) > M:
        return _eveq(ev, [("exc", len(data)), ("lose",)])
    return len(ev) > 0 and _eveq(ev[:1], [("str", data)])


def _line_shards(tier):
    out = []
    top = BOUNDS[tier]["n"]
    for dl in (0, 1):
        out.append(("len(s) <= 2", "dl == %d" % dl))
        out.append(("len(s) == 3", "dl == %d" % dl))
        for n in range(4, top + 1):
            for a in range(7):
                out.append(("len(s) == %d" % n, "dl == %d" % dl, "act == %d" % a))
    return out


def _lo_shards(tier):
    out = []
    for dl in (0, 1):
        out.append(("len(s) <= 3", "dl == %d" % dl))
        for n in range(4, BOUNDS[tier]["n"] + 1):
            out.append(("len(s) == %d" % n, "dl == %d" % dl))
    return out


def _net_shards(tier):
    out = []
    for a in (1, 2):
        for r in range(0, BOUNDS[tier]["ns"] - a + 1):
            if a + r <= 1:
                out.append(("len(ld) == %d" % a, "len(rest) == %d" % r))
            elif a + r == 2:
                out.append(("len(ld) == %d" % a, "len(rest) == %d" % r, "split <= 1"))
                out.append(("len(ld) == %d" % a, "len(rest) == %d" % r, "split >= 2"))
            else:
                for k in range(0, a + r + 2):
                    out.append(("len(ld) == %d" % a, "len(rest) == %d" % r, "split == %d" % k))
    return out


def _intn_shards(tier):
    out = []
    for pl in (1, 2, 4):
        out.append(("pl == %d" % pl, "len(s) <= %d" % pl))
        for n in range(pl + 1, pl + BOUNDS[tier]["ni"] + 1):
            out.append(("pl == %d" % pl, "len(s) == %d" % n))
    return out


HARNESSES = [
    H(linerecv, shards=_line_shards, timeout={"quick": 100, "thorough": 1500}),
    H(lineonly, shards=_lo_shards, timeout={"quick": 100, "thorough": 1500}),
    H(sendline, timeout={"quick": 60, "thorough": 300}),
    H(netstring, shards=_net_shards, timeout={"quick": 100, "thorough": 1500}),
    H(netshape, shards=[("v == %d" % v,) for v in range(0, M + 2)], timeout={"quick": 100, "thorough": 600}),
    H(nettwo, shards=[("v1 == %d" % v,) for v in range(0, M + 1)], timeout={"quick": 100, "thorough": 600}),
    H(netmax, shards=[("mi <= 2",), ("mi == 3",), ("mi == 4",)], timeout={"quick": 100, "thorough": 600}),
    H(netsend, shards=[("len(data) == %d" % n,) for n in range(0, M + 2)], timeout={"quick": 60, "thorough": 300}),
    H(intn, shards=_intn_shards, timeout={"quick": 100, "thorough": 1500}),
    H(intnsend, shards=[("pl == %d" % pl,) for pl in (1, 2, 4)], timeout={"quick": 60, "thorough": 300}),
]

# concrete vectors (shapes from twisted/protocols/test/test_basic.py: LineTester buffer with mode
# switches, LineOnly buffer, netstring illegalStrings b"abc" / b"4:abcde" / leading zero, IntN
# illegalStrings b"\x10\x00\x00\x00aaaaaa", partialStrings b"\x00\x00\x00", test_data) scaled to
# MAX_LENGTH=2; run through the lifted and the real classes, results and observations must agree
VECTORS = {
    "linerecv": [("a\r\nb\r\n", 3, 0, 0), ("ab\r\ncd\r\n\r\nxyz\r\nq", 9, 0, 0), ("l1\nl2\nraw\nmore", 4, 1, 2),
                 ("ab\r\ncd\r\nef\r\n", 5, 0, 3), ("a\nXb\nc\n", 3, 1, 5), ("a\r\nXb\r\nc", 3, 0, 5),
                 ("abc\r", 2, 0, 0), ("ab\r", 3, 0, 0), ("abcd", 1, 0, 0), ("\r\n\r\n", 1, 0, 6),
                 ("\xff\x00\n\n\n", 2, 1, 4), ("a\nb\nc\n", 6, 1, 1)],
    "lineonly": [("a\r\nb\r\n", 3, 0), ("fo\nbl\nde\npl\n", 4, 1), ("ab\r\n", 3, 0), ("abc\r\nd", 2, 0),
                 ("a\r\nabc", 4, 0), ("ab\r", 0, 0), ("a\nbcd\ne\n", 1, 1), ("\xff\r\r\n", 2, 0)],
    "sendline": [("ab", 0, 0), ("a\n", 1, 1), ("", 0, 1), ("\r", 0, 0), ("\xff\x00", 1, 0)],
    "netstring": [("2", ":", "ab,", 3), ("a", "b", "c", 1), ("2", ":", "abc", 2), ("0", "0", ":,", 1),
                  ("0", ":", ",1:", 4), ("1", ":", "x,0:,", 5), ("3", ":", "abc,", 0), ("12", ":", "", 1),
                  ("1", ",", "a,", 2), ("2", ":", "a", 3), ("99", "9", "999", 2), ("0", ":", ",,", 3)],
    "netshape": [(2, "ab", ",", "1", 3), (3, "abc", ",", "", 2), (1, "x", "y", "z", 4), (0, "", ",", ":", 0)],
    "netmax": [(0, 1, ",", 0), (0, 0, "x", 1), (0, 2, "x", 2), (3, 1, "a", 1), (3, 0, "a", 2), (3, 2, "\xff", 3),
               (4, 1, "a", 2), (4, 2, "a", 5), (4, 0, ":", 3), (1, 1, "7", 4), (2, 2, "0", 0)],
    "nettwo": [(1, 2, "a", "bc", 5), (0, 0, "", "", 3), (2, 1, ",,", ":", 9)],
    "netsend": [("ab", "", 2), ("", "x", 0), ("abc", "", 1), (",:", "1", 5), ("\xff", "", 3)],
    "intn": [("\x01a\x02bc", 2, 1, 0), ("\x00\x01a\x00\x00", 3, 2, 1), ("\x00\x00\x00\x02ub", 4, 4, 0),
             ("\x10\x00\x00\x00aaaaaa", 2, 4, 0), ("\x00\x00\x00", 1, 4, 0), ("\x03abc", 1, 1, 0),
             ("\x00\x03abc", 1, 2, 0), ("\x01\x00", 1, 2, 0), ("\x00\x00\x01a", 0, 1, 2), ("\x02a", 2, 1, 0),
             ("\x01a\x01b\x01c", 3, 1, 2)],
    "intnsend": [("ab", "", 1, 1), ("", "\x01", 0, 2), ("abc", "", 3, 4), ("\x00\x02", "\x00", 5, 4)],
}


def selftest():
    return lbytes.selftest()
