"""C42 IMAP4: the client parser reads back what the server serializer wrote.

Engine E2.  collapseNestedLists / _quote / _needsLiteral / _literal and parseNestedParens /
collapseStrings / splitOn / splitQuoted (imap4.py) plus compat._matchingString are recompiled from
/repo's source onto LBytes.  The nesting shape, the kind of each leaf (text / None / int) and the
text lengths are case split (shards + solver-driven menus), leaf characters are symbolic bytes
(all 256 values).  Oracle: parseNestedParens(collapseNestedLists(x), handleLiteral=1) == x with
ints as their decimal text and None as None (the mapping documented by collapseNestedLists /
splitQuoted).
"""
from typing import List

from vlib import api, lbytes, lift
from vlib.api import H, cover
from vlib.lift import b, t

PROPERTY = "C42"
LEVEL = "model_checking"
ENCODED = ["twisted.mail.imap4:collapseNestedLists", "twisted.mail.imap4:_quote", "twisted.mail.imap4:_needsLiteral",
           "twisted.mail.imap4:_literal", "twisted.mail.imap4:parseNestedParens", "twisted.mail.imap4:collapseStrings",
           "twisted.mail.imap4:splitOn", "twisted.mail.imap4:splitQuoted", "twisted.python.compat:_matchingString"]
BOUNDS = {"quick": {"n1": 3, "na": 2, "nb": 2}, "thorough": {"n1": 5, "na": 3, "nb": 3}}
B = {}
BOUNDS_TEXT = ("one-leaf shapes [A], [[A]], [[[A]]], [[], A]: leaf = any byte string of <= n1 bytes / None / int 0..11; "
               "two-leaf shapes [A,B], [[A,B]], [A,[B]], [[A],B], [[A],[B]], [A,[],B]: A any byte string of "
               "1..na bytes, B any byte string of <= nb bytes / None / int 0..3; serializer-only RFC 3501 "
               "quoted-string form for every CR/LF-free byte string of <= n1 bytes (backslashes included)")
OUTSIDE = ["more than two leaves, nesting deeper than 3, byte strings longer than the bound",
           "strings longer than 1000 bytes (sent as literals because of their length only)",
           "negative or large integers (only their decimal text matters to the code)",
           "str leaves, DontQuoteMe and file-like leaves of collapseNestedLists",
           "parseNestedParens(handleLiteral=0) and the LineReceiver-level literal handling of IMAP4Client",
           "OPEN known finding backslash-not-unescaped: a leaf that contains a backslash and is sent as a quoted "
           "string (no CR/LF in it) is excluded from the round-trip claim (its serialised form is still checked "
           "against the RFC 3501 quoted grammar by quoted_form)",
           "RFC 3501 restricts quoted strings to 7-bit non-NUL characters; twisted quotes NUL and 8-bit bytes "
           "too (see the RFC 5738 note in collapseNestedLists) - not checked"]
ASSUMPTIONS = ["LBytes reproduces bytes for the operations used (lbytes.selftest on every run); lifted and real "
               "functions agree on the concrete vectors below (taken from test_imap.py and the property's families)",
               "str(int) inside collapseNestedLists is case split over 0..11"]
EXPLANATION = ("lifted real serializer + parser; shape / leaf kind menus case split, leaf bytes symbolic; "
               "result compared with the input structure")


lbytes.FAST_SCAN = True     # strip()/find() keep concrete indices (the serialised text has a concrete length)


def _l_str(x="", *a):
    """the call str(...) in lifted code: a symbolic small int becomes one path per value"""
    if isinstance(x, int) and not isinstance(x, bool) and not lbytes._is_conc(x):
        for k in range(0, 12):
            if x == k:
                return str(k)
    return lbytes.l_str(x, *a)


_C = lift.lift("twisted.python.compat", names=["_matchingString", "networkString"], encode_calls=True)
L = lift.lift("twisted.mail.imap4",
              names=["collapseNestedLists", "_quote", "_needsLiteral", "_literal", "parseNestedParens",
                     "collapseStrings", "splitOn", "splitQuoted"],
              encode_calls=True, call_shims=dict(lift._CALL_SHIMS, str="_vl_str"),
              extra_shims={"_vl_str": _l_str},
              overrides={"_matchingString": _C._matchingString, "networkString": _C.networkString})
from twisted.mail import imap4 as _real  # noqa: E402
MismatchedNesting = _real.MismatchedNesting
MismatchedQuoting = _real.MismatchedQuoting

def _menu(n, v):
    """symbolic menu value -> one path per entry"""
    for k in range(n):
        if v == k:
            return k
    return n - 1


def _fixlen(text, maxlen):
    """same text with a plain-int length: a list of its characters re-joined (len() of a symbolic str
    is a symbolic int even when a shard pins it, which would make every index into the serialised
    text symbolic)"""
    if lbytes._is_conc(text):
        return text
    for n in range(maxlen + 1):
        if len(text) == n:
            return "".join([text[k] for k in range(n)])
    return text


def _leaf(kind, text, num):
    """(value handed to the serializer, value expected back from the parser)"""
    if kind == 0:
        return b(text), text
    if kind == 1:
        return None, None
    return num, None if num is None else _dec(num)


def _dec(num):
    for k in range(0, 12):
        if num == k:
            return str(k)
    return str(num)


def _norm(r):
    """parser output -> nested lists of latin-1 text / None"""
    if r is None:
        return None
    if isinstance(r, list):
        return [_norm(e) for e in r]
    if isinstance(r, (tuple, str, int)):
        return ("unexpected", type(r).__name__)
    return t(r)


def _roundtrip(x):
    wire = L.collapseNestedLists(x)
    api.obs(t(wire))
    try:
        back = L.parseNestedParens(wire, 1)
    except (MismatchedNesting, MismatchedQuoting) as e:
        api.obs(type(e).__name__)
        return ("raised", type(e).__name__)
    n = _norm(back)
    api.obs(n)
    return n


_SHAPES1 = 4
_SHAPES2 = 6


def _shape1(shape, v, e):
    if shape == 0:
        return [v], [e]
    if shape == 1:
        return [[v]], [[e]]
    if shape == 2:
        return [[[v]]], [[[e]]]
    return [[], v], [[], e]


def _shape2(shape, va, ea, vb, eb):
    if shape == 0:
        return [va, vb], [ea, eb]
    if shape == 1:
        return [[va, vb]], [[ea, eb]]
    if shape == 2:
        return [va, [vb]], [ea, [eb]]
    if shape == 3:
        return [[va], vb], [[ea], eb]
    if shape == 4:
        return [[va], [vb]], [[ea], [eb]]
    return [va, [], vb], [ea, [], eb]


def one(shape: int, kind: int, a: str, num: int) -> bool:
    """
    pre: 0 <= shape < _SHAPES1 and 0 <= kind <= 2 and 0 <= num <= 11
    pre: len(a) <= B['n1'] and all(ord(c) < 256 for c in a)
    pre: kind == 0 or len(a) == 0
    post: _
    """
    shape = _menu(_SHAPES1, shape)
    kind = _menu(3, kind)
    a = _fixlen(a, B['n1'])
    v, e = _leaf(kind, a, num)
    x, want = _shape1(shape, v, e)
    got = _roundtrip(x)
    cover()
    return got == want


def two(shape: int, a: str, kind: int, b_: str, num: int) -> bool:
    """
    pre: 0 <= shape < _SHAPES2 and 0 <= kind <= 2 and 0 <= num <= 3
    pre: 1 <= len(a) <= B['na'] and len(b_) <= B['nb'] and all(ord(c) < 256 for c in a + b_)
    pre: kind == 0 or len(b_) == 0
    post: _
    """
    shape = _menu(_SHAPES2, shape)
    kind = _menu(3, kind)
    a, b_ = _fixlen(a, B['na']), _fixlen(b_, B['nb'])
    va, ea = _leaf(0, a, 0)
    vb, eb = _leaf(kind, b_, num)
    x, want = _shape2(shape, va, ea, vb, eb)
    got = _roundtrip(x)
    cover()
    return got == want


def quoted_form(a: str) -> bool:
    """
    pre: len(a) <= B['n1'] and all(ord(c) < 256 for c in a)
    pre: "\\r" not in a and "\\n" not in a
    post: _
    """
    # serializer side alone, backslashes included (the parser-side finding does not mask it): the wire
    # form is an RFC 3501 `quoted` (DQUOTE *QUOTED-CHAR DQUOTE; '"' and '\\' only as '\\"' and '\\\\')
    # whose un-escaping, done here from the grammar, is the leaf
    a = _fixlen(a, B['n1'])
    wire = t(L.collapseNestedLists([b(a)]))
    api.obs(wire)
    cover()
    n = len(wire)
    if n < 2 or wire[0] != '"' or wire[n - 1] != '"':
        return False
    out = []
    i = 1
    while i < n - 1:
        c = wire[i]
        if c == '"':
            return False
        if c == "\\":
            if i + 1 >= n - 1 or (wire[i + 1] != '"' and wire[i + 1] != "\\"):
                return False
            out.append(wire[i + 1])
            i += 2
        else:
            out.append(c)
            i += 1
    return "".join(out) == a


# ---- open known findings ------------------------------------------------------------------------

def _quoted_backslash(text):
    """leaf sent as a quoted string (no CR/LF) that contains a backslash"""
    return "\\" in text and "\r" not in text and "\n" not in text


EXCLUDE = {
    "backslash-not-unescaped": {
        "one": "not (kind == 0 and _quoted_backslash(a))",
        "two": "not (_quoted_backslash(a) or (kind == 0 and _quoted_backslash(b_)))",
    },
}


def classify(harness_name, args):
    if harness_name == "one":
        if args["kind"] == 0 and _quoted_backslash(args["a"]):
            return "backslash-not-unescaped"
    if harness_name == "two":
        if _quoted_backslash(args["a"]) or (args["kind"] == 0 and _quoted_backslash(args["b_"])):
            return "backslash-not-unescaped"
    return None


HARNESSES = [
    H(quoted_form, shards=lambda tier: [("len(a) == %d" % k,) for k in range(0, BOUNDS[tier]["n1"] + 1)],
      timeout={"quick": 60, "thorough": 600}),
    H(one, shards=lambda tier: [("kind != 0",)] + [("kind == 0", "len(a) == %d" % k)
                                                   for k in range(0, BOUNDS[tier]["n1"] + 1)],
      timeout={"quick": 90, "thorough": 1200}),
    H(two, shards=lambda tier: [("len(a) == %d" % k, "kind != 0") for k in range(1, BOUNDS[tier]["na"] + 1)] +
      [("len(a) == %d" % k, "kind == 0", "len(b_) == %d" % j)
       for k in range(1, BOUNDS[tier]["na"] + 1) for j in range(0, BOUNDS[tier]["nb"] + 1)],
      timeout={"quick": 90, "thorough": 1200}),
]

VECTORS = {
    "quoted_form": [("",), ("a",), ("\\",), ('"',), ('a\\"',), ("\\\\",), ("a b",), ("\x00\xff",), ("NIL",), ("{1}",)],
    "one": [(0, 0, "a", 0), (0, 0, "", 0), (1, 0, "NIL", 0), (0, 1, "", 0), (0, 2, "", 17), (2, 0, 'a"b', 0),
            (0, 0, "a\nb", 0), (0, 0, "a\rb", 0), (3, 0, "(", 0), (1, 0, "{3}", 0), (0, 0, " ", 0), (0, 0, "\x00\xff", 0),
            (1, 0, "a\n", 0), (0, 0, ")", 0), (0, 0, "]", 0), (0, 0, "[", 0), (3, 2, "", 0), (2, 1, "", 0),
            (0, 0, "\\\n", 0), (3, 0, "\n", 0), (0, 0, "a\r", 0), (0, 0, "{1", 0), (0, 0, "}", 0), (0, 0, "\t", 0)],
    "two": [(0, "a", 0, "b", 0), (1, "a b", 1, "", 0), (2, '"', 0, '"', 0), (3, "\n", 2, "", 5), (4, "(", 0, ")", 0),
            (5, "NIL", 1, "", 0), (0, "\n", 0, "x", 0), (0, "a\n", 1, "", 0), (0, "{1}", 0, "\r", 0), (5, "x", 0, " \n", 0),
            (1, "x", 0, "\n", 0), (0, " ", 0, "", 0), (2, "\r\n", 0, "\n", 0)],
}


def selftest():
    return lbytes.selftest()
