"""C47 PROXY protocol: headers parsed regardless of segmentation; invalid prefix => closed, zero bytes.

Engine E2: V1Parser, V2Parser, HAProxyProtocolWrapper and HAProxyWrappingFactory are recompiled from
/repo's twisted/protocols/haproxy/*.py onto LBytes (struct / ord / binascii / bit operations are
shims); the wrapped protocol and the transport are recording fakes.  Symbolic: port digits (v1) /
port bytes (v2), TLV bytes, unix path bytes, payload bytes, the replacement byte of the mutation
harnesses.  Case-split by the solver (symbolic ints turned into one path per value): protocol family,
address pair (menus: ipaddress / inet_ntop style formatting realises its input), TLV length, split
index, mutated position.  The oracle is written from the PROXY protocol specification
(haproxy doc/proxy-protocol.txt 2.1, 2.2), not from the code.
"""
import operator as _operator

from twisted.internet import address as _address
from twisted.internet import protocol as _protocol

from vlib import api, lbytes, lift
from vlib.api import H, cover
from vlib.lift import b, t

PROPERTY = "C47"
LEVEL = "model_checking"
ENCODED = ["twisted.protocols.haproxy._wrapper:HAProxyProtocolWrapper.dataReceived",
           "twisted.protocols.haproxy._wrapper:HAProxyProtocolWrapper.getPeer",
           "twisted.protocols.haproxy._wrapper:HAProxyProtocolWrapper.getHost",
           "twisted.protocols.haproxy._v1parser:V1Parser.feed", "twisted.protocols.haproxy._v1parser:V1Parser.parse",
           "twisted.protocols.haproxy._v1parser:V1Parser._checkAddress",
           "twisted.protocols.haproxy._v1parser:V1Parser._checkPort",
           "twisted.protocols.haproxy._v2parser:V2Parser.feed", "twisted.protocols.haproxy._v2parser:V2Parser.parse",
           "twisted.protocols.haproxy._v2parser:V2Parser._bytesToIPv4",
           "twisted.protocols.haproxy._v2parser:V2Parser._bytesToIPv6"]
BOUNDS = {"quick": {"p": 2, "tlv": 3, "allpos": 0, "msplit": 0},
          "thorough": {"p": 3, "tlv": 5, "allpos": 1, "msplit": 1}}
B = {}
BOUNDS_TEXT = ("v1: TCP4 / TCP6 / UNKNOWN (bare, with trailing space, with trailing text) headers with addresses "
               "and ports from menus x payload of p symbolic bytes x EVERY split index (v1split); every port "
               "value of 1-2 digits in either port field, 4 split positions (v1ports); UNKNOWN followed by 2 "
               "symbolic text fields (v1junk); one replaced byte (all 256 values) at header positions of 4 base "
               "headers - quick: 1-2 positions per field incl. CR and LF, thorough: every position, delivered "
               "at once (thorough also: header and payload separately) (v1bad); 100..112 bytes without CRLF "
               "(v1limit).  v2: PROXY x {TCP4, UDP4, TCP6, UDP6} and LOCAL, addresses from a menu, symbolic port "
               "bytes, TLV region of 0 or tlv symbolic bytes, payload of p symbolic bytes, every split index "
               "(v2inet); UNIX stream/dgram with symbolic path bytes, 12 split positions (v2unix); UNSPEC, "
               "every split index (v2unspec); one replaced byte (all 256 values) at each of the 16 fixed "
               "header positions (v2bad).  p = 2 quick / 3 thorough, tlv = 3 / 5.")
OUTSIDE = ["addresses outside the menus (the address text is only copied / formatted per byte; ports, which "
           "are parsed arithmetically, are symbolic)",
           "three or more deliveries; payloads longer than p bytes (passed through unchanged after the header)",
           "a first delivery that is a strict prefix of the header: the specification lets the receiver "
           "either wait or drop the connection; the oracle allows exactly 'success' or 'closed right after "
           "that delivery with zero bytes delivered' (twisted closes when the first delivery is shorter "
           "than 8 bytes (v1) / 16 bytes (v2) and waits otherwise)",
           "v2 family/protocol bytes where exactly one nibble is UNSPEC (0x01, 0x02, 0x10, 0x20, 0x30): "
           "accepted as 'no address' or rejected are both allowed (twisted's tests pin acceptance)",
           "v1 IPv6 address text containing '.' (embedded IPv4) or '%' (zone id) after a mutation: not covered "
           "by the specification's grammar, either outcome allowed; 'UNKNOWN' immediately followed by a "
           "non-space byte likewise",
           "v1 lines longer than 107 bytes that do contain CRLF"]
ASSUMPTIONS = ["LBytes/struct/ord/binascii/bit-operation shims reproduce the real operations (differential "
               "selftest on every run, run on the LBytes class WITH this module's scan based "
               "find/split/partition/startswith/rstrip/decode replacements installed) and the lifted classes "
               "agree with the real ones on the concrete vectors below (headers from "
               "twisted/protocols/haproxy/test/)",
               "ipaddress (stdlib) is called as is on concrete text; on a text containing a symbolic byte it is "
               "replaced by the validators _is_ipv4/_is_ipv6 of this file, which selftest() compares with "
               "ipaddress on every single-byte replacement (256 values) of every base address",
               "UNIXAddress's attrs converter (isinstance(name, bytes)) is bypassed for LBytes names",
               "a real transport delivers nothing more after loseConnection()/abortConnection()"]
EXPLANATION = "lifted real PROXY wrapper + parsers; shape/menu/split/mutation position case-split by the solver, field bytes symbolic"


def _l_ord(x):
    if isinstance(x, lbytes._LBase):
        s = x.s
        if len(s) != 1:
            raise TypeError("ord() expected a character, but string of length %d found" % len(s))
        return ord(s)
    return ord(x)


class _l_binascii:
    @staticmethod
    def b2a_hex(x):
        return lbytes.LBytes(lbytes.LBytes(lbytes._s(x)).hex())

    hexlify = b2a_hex


class _l_address:
    """twisted.internet.address for the lifted v2 parser: UNIXAddress's attrs converter tests
    isinstance(name, bytes); an LBytes name (which stands for bytes) is stored as is"""
    IPv4Address = _address.IPv4Address
    IPv6Address = _address.IPv6Address

    @staticmethod
    def UNIXAddress(name):
        if isinstance(name, lbytes._LBase):
            a = _address.UNIXAddress(None)
            a.name = name
            return a
        return _address.UNIXAddress(name)


# ---- scan based find / split / partition for LBytes -------------------------------------------------
# CrossHair's str.find / split / partition on a str that contains ONE symbolic character build a z3
# disjunction over every offset (~200 solver queries per parsed header).  The streams of this check
# are concrete except for a few bytes; a character scan compares the concrete code points natively
# and only asks the solver about the symbolic ones.  Same results as the originals (lbytes.selftest()
# is run on the patched class by this module's selftest()).  Installed for this property's
# processes only.

def _clen(s):
    """len(s) as a plain int (a symbolic length expression would cost a solver query per loop test;
    the lengths in this check are all determined by the case splits)"""
    n = len(s)
    if lbytes._is_conc(n):
        return n
    return _operator.index(n)


def _fix(s):
    """the same text rebuilt from its characters, so that its length is a plain int: a harness argument
    has a symbolic length expression (even when a precondition pins it), and every index or slice of a
    string that contains it then costs solver queries"""
    n = _clen(s)
    out = ""
    for i in range(n):
        out = out + s[i]
    return out


def _scan_find(s, sub, start=0):
    n, m = _clen(s), len(sub)
    i = start
    while i + m <= n:
        j = 0
        while j < m and s[i + j] == sub[j]:
            j += 1
        if j == m:
            return i
        i += 1
    return -1


def _lb_find(self, sub, *a):
    if a or isinstance(sub, int):
        return self.s.find(chr(sub) if isinstance(sub, int) else lbytes._s(sub), *a)
    sub = lbytes._s(sub)
    if len(sub) == 0:
        return 0
    return _scan_find(self.s, sub)


def _lb_contains(self, x):
    if isinstance(x, int):
        return _scan_find(self.s, chr(x)) >= 0
    sub = lbytes._s(x)
    if len(sub) == 0:
        return True
    return _scan_find(self.s, sub) >= 0


def _lb_split(self, sep=None, maxsplit=-1):
    if sep is None:
        return [lbytes.LBytes(p) for p in lbytes._split_ws(self.s, maxsplit)]
    sep = lbytes._s(sep)
    if len(sep) == 0:
        raise ValueError("empty separator")
    s = self.s
    out = []
    pos = 0
    while maxsplit < 0 or len(out) < maxsplit:
        i = _scan_find(s, sep, pos)
        if i < 0:
            break
        out.append(lbytes.LBytes(s[pos:i]))
        pos = i + len(sep)
    out.append(lbytes.LBytes(s[pos:]))
    return out


def _lb_partition(self, sep):
    sep = lbytes._s(sep)
    if len(sep) == 0:
        raise ValueError("empty separator")
    i = _scan_find(self.s, sep)
    if i < 0:
        return (lbytes.LBytes(self.s), lbytes.LBytes(""), lbytes.LBytes(""))
    return (lbytes.LBytes(self.s[:i]), lbytes.LBytes(sep), lbytes.LBytes(self.s[i + len(sep):]))


def _lb_startswith(self, p, *a):
    if a or isinstance(p, tuple):
        return _orig_startswith(self, p, *a)
    p = lbytes._s(p)
    s = self.s
    if len(p) > len(s):
        return False
    for i in range(len(p)):
        if s[i] != p[i]:
            return False
    return True


def _lb_decode(self, enc="utf-8", errors="strict"):
    # LBytes.decode builds UnicodeDecodeError(..., self.s.encode("latin-1"), ...), which realises a
    # symbolic text (one path per non-ASCII value); the exception's payload never matters here
    if errors == "strict" and not lbytes._is_conc(self.s) and enc.lower() in ("ascii", "us-ascii", "utf-8", "utf8"):
        for ch in self.s:
            if ch > "\x7f":
                raise UnicodeDecodeError("ascii", b"?", 0, 1, "ordinal not in range(128)")
        return self.s
    return _orig_decode(self, enc, errors)


def _lb_rstrip(self, chars=None):
    cs = lbytes._WS if chars is None else lbytes._s(chars)
    s = self.s
    n = _clen(s)
    while n > 0:
        ch = s[n - 1]
        hit = False
        for c in cs:
            if ch == c:
                hit = True
                break
        if not hit:
            break
        n -= 1
    return self._new(s[:n])


_orig_startswith = lbytes._LBase.startswith
_orig_decode = lbytes._LBase.decode
if api.MODE != "real":
    lbytes._LBase.decode = _lb_decode
    lbytes._LBase.rstrip = _lb_rstrip
    lbytes._LBase.find = _lb_find
    lbytes._LBase.__contains__ = _lb_contains
    lbytes._LBase.split = _lb_split
    lbytes._LBase.partition = _lb_partition
    lbytes._LBase.startswith = _lb_startswith


class _l_ipaddress:
    """`ipaddress` for the lifted v1 parser.  ipaddress.IPv4Address(text) does str(text), which realises
    a symbolic text (one path per byte value).  Concrete text goes to the real module; a text that
    contains a symbolic byte (only in v1bad: a base address with ONE replaced byte that is none of
    the 'special' bytes) is judged by _is_ipv4 / _is_ipv6 below, which selftest() compares with the real
    ipaddress module on every single-byte replacement (all 256 values) of every base address."""
    AddressValueError = __import__("ipaddress").AddressValueError

    @staticmethod
    def IPv4Address(text):
        import ipaddress
        if lbytes._is_conc(text):
            return ipaddress.IPv4Address(text)
        if not _is_ipv4(text):
            raise ipaddress.AddressValueError("not an IPv4 address")
        return None

    @staticmethod
    def IPv6Address(text):
        import ipaddress
        if lbytes._is_conc(text):
            return ipaddress.IPv6Address(text)
        if _is_ipv6(text) is not True:
            raise ipaddress.AddressValueError("not an IPv6 address")
        return None


_CS = dict(lift._CALL_SHIMS, ord="_vl_ord")
_XS = {"_vl_ord": _l_ord, "binascii": _l_binascii}
L1 = lift.lift("twisted.protocols.haproxy._v1parser", names=["V1Parser"], call_shims=_CS, bitops=True,
               extra_shims=dict(_XS, ipaddress=_l_ipaddress))
L2 = lift.lift("twisted.protocols.haproxy._v2parser", names=["V2Parser"], call_shims=_CS, extra_shims=_XS, bitops=True,
               fstrings=True, overrides={"address": _l_address})
L = lift.lift("twisted.protocols.haproxy._wrapper", names=["HAProxyProtocolWrapper", "HAProxyWrappingFactory"],
              call_shims=_CS, extra_shims=_XS, bitops=True,
              overrides={"V1Parser": L1.V1Parser, "V2Parser": L2.V2Parser})

SIG = "\r\n\r\n\x00\r\nQUIT\n"
REAL_PEER = ("4", "TCP", "9.9.9.9", 9)
REAL_HOST = ("4", "TCP", "8.8.8.8", 8)


def _split_cases(n, split):
    for k in range(n + 1):
        if split == k:
            return k
    return n


def _menu(n, v):
    for k in range(n):
        if v == k:
            return k
    return n


def _teq(x, y):
    """robust equality of texts / ints (see props/c16.py)"""
    if not isinstance(x, str) or not isinstance(y, str):
        return x == y
    if x == y:
        return True
    if y == x:
        return True
    n = len(x)
    if n != len(y):
        return False
    for i in range(n):
        if x[i] != y[i]:
            return False
    return True


def _aeq(a, c):
    if len(a) != len(c):
        return False
    for i in range(len(a)):
        if not _teq(a[i], c[i]):
            return False
    return True


def _addr(a):
    if isinstance(a, _address.IPv4Address):
        return ("4", a.type, a.host, a.port)
    if isinstance(a, _address.IPv6Address):
        return ("6", a.type, a.host, a.port)
    if isinstance(a, _address.UNIXAddress):
        return ("U", t(a.name))
    return ("?",)


class FakeTransport:
    disconnecting = False

    def __init__(self):
        self.closed = None
        self.out = []

    def write(self, d):
        self.out.append(t(d))

    def writeSequence(self, seq):
        for d in seq:
            self.out.append(t(d))

    def loseConnection(self):
        self.disconnecting = True
        if self.closed is None:
            self.closed = "lose"

    def abortConnection(self):
        self.disconnecting = True
        if self.closed is None:
            self.closed = "abort"

    def getPeer(self):
        return _address.IPv4Address("TCP", "9.9.9.9", 9)

    def getHost(self):
        return _address.IPv4Address("TCP", "8.8.8.8", 8)


class Rec(_protocol.Protocol):
    """the wrapped application protocol"""

    def __init__(self):
        self.got = []

    def dataReceived(self, data):
        self.got.append((t(data), _addr(self.transport.getPeer()), _addr(self.transport.getHost())))


class _RecFactory(_protocol.Factory):
    protocol = Rec


class Run:
    def __init__(self, pieces):
        first, second = pieces
        wf = L.HAProxyWrappingFactory(_RecFactory())
        w = wf.buildProtocol(None)
        tr = FakeTransport()
        w.makeConnection(tr)
        self.tr = tr
        self.rec = w.wrappedProtocol
        self.closed_after_first = False
        if len(first) > 0:
            w.dataReceived(b(first))
            self.closed_after_first = tr.closed is not None
        if len(second) > 0 and tr.closed is None:
            w.dataReceived(b(second))
        self.closed = tr.closed
        self.peer = _addr(w.getPeer())
        self.host = _addr(w.getHost())
        self.data = "".join([g[0] for g in self.rec.got])

    def log(self):
        return (self.closed, self.rec.got, self.peer, self.host)

    def success(self, payload, peer, host):
        """the header was accepted: exactly the payload reached the application, every call saw the
        header's addresses, nothing was closed"""
        if self.closed is not None:
            return False
        if not _teq(self.data, payload):
            return False
        for g in self.rec.got:
            if not _aeq(g[1], peer) or not _aeq(g[2], host):
                return False
        return _aeq(self.peer, peer) and _aeq(self.host, host)

    def rejected(self):
        """connection closed and not one byte reached the application"""
        return self.closed is not None and len(self.rec.got) == 0


def _valid_outcome(r, k, hlen, payload, peer, host):
    """valid header of hlen bytes + payload, first delivery k bytes: success; dropping a connection whose
    first delivery holds only a part of the header is allowed too (spec 2: 'the receiver may be
    tolerant to partial headers or may simply drop the connection when receiving a partial header')"""
    if r.success(payload, peer, host):
        return True
    return 0 < k < hlen and r.closed_after_first and r.rejected()


# ------------------------------------------------------------------------------------------------
# version 1

# (source, destination, source port, destination port)
_V4 = [("1.2.3.4", "5.6.7.8", "10", "443"), ("255.255.255.255", "0.0.0.0", "65535", "0"),
       ("127.0.0.1", "10.20.30.40", "7", "8080")]
_V6 = [("::1", "::2", "10", "443"), ("2001:db8::ff00:42:8329", "ffff:ffff:ffff:ffff:ffff:ffff:ffff:ffff", "65535", "0"),
       ("::", "1:2:3:4:5:6:7:8", "7", "8080")]


def _port_ok(p):
    if not (1 <= len(p) <= 2):
        return False
    for ch in p:
        if not ("0" <= ch <= "9"):
            return False
    return len(p) == 1 or p[0] != "0"


def _port_val(p):
    v = 0
    for ch in p:
        v = v * 10 + (ord(ch) - 48)
    return v


def _pieces(hdr, pay, k):
    """the two deliveries of hdr + pay split at k, built so that a piece made of header bytes only
    stays a plain (non-symbolic) string when the header is concrete"""
    n = len(hdr)
    if k <= n:
        return hdr[:k], hdr[k:] + pay
    return hdr + pay[:k - n], pay[k - n:]


def v1split(proto: int, ai: int, pay: str, split: int) -> bool:
    """
    pre: 0 <= proto <= 2 and 0 <= ai <= 2 and len(pay) == B['p'] and all(ord(c) < 256 for c in pay)
    pre: 0 <= split <= 100
    post: _
    """
    pay = _fix(pay)
    pr = _menu(2, proto)
    a = _menu(2, ai)
    if pr == 0:
        src, dst, sp, dp = _V4[a]
        hdr = "PROXY TCP4 " + src + " " + dst + " " + sp + " " + dp + "\r\n"
        peer, host = ("4", "TCP", src, int(sp)), ("4", "TCP", dst, int(dp))
    elif pr == 1:
        src, dst, sp, dp = _V6[a]
        hdr = "PROXY TCP6 " + src + " " + dst + " " + sp + " " + dp + "\r\n"
        peer, host = ("6", "TCP", src, int(sp)), ("6", "TCP", dst, int(dp))
    else:
        hdr = ["PROXY UNKNOWN\r\n", "PROXY UNKNOWN \r\n", "PROXY UNKNOWN TCP4 1.2.3.4 x\r\n"][a]
        peer, host = REAL_PEER, REAL_HOST
    k = _split_cases(len(hdr) + len(pay), split)
    r = Run(_pieces(hdr, pay, k))
    api.obs(r.log())
    cover()
    return _valid_outcome(r, k, len(hdr), pay, peer, host)


def _conc_digits(p):
    """one path per digit value (binary search driven by the solver): a header with symbolic bytes in
    the middle costs ~200 solver queries per path in CrossHair's str.split/find, a concrete one none"""
    out = ""
    for ch in p:
        o = ord(ch)
        lo, hi = 48, 57
        while lo < hi:
            mid = (lo + hi) // 2
            if o <= mid:
                hi = mid
            else:
                lo = mid + 1
        out = out + chr(lo)
    return out


def v1ports(kind: int, x: str, split: int) -> bool:
    """
    pre: 0 <= kind <= 3 and _port_ok(x)
    pre: 0 <= split <= 3
    post: _
    """
    x = _fix(x)
    kd = _menu(3, kind)
    x = _conc_digits(x)
    if kd < 2:
        pre, src, dst, kd6 = "PROXY TCP4 1.2.3.4 5.6.7.8 ", "1.2.3.4", "5.6.7.8", "4"
    else:
        pre, src, dst, kd6 = "PROXY TCP6 ::1 2001:db8::2 ", "::1", "2001:db8::2", "6"
    if kd % 2 == 0:
        sp, dp = x, "443"
        inside = len(pre) + 1
    else:
        sp, dp = "10", x
        inside = len(pre) + 3 + 1
    hdr = pre + sp + " " + dp + "\r\n"
    peer, host = (kd6, "TCP", src, int(sp)), (kd6, "TCP", dst, int(dp))
    pay = "XY"
    n = len(hdr)
    # unsplit; inside the symbolic port field; between CR and LF; header and payload separately
    ks = [0, inside, n - 1, n]
    k = ks[_menu(3, split)]
    r = Run(_pieces(hdr, pay, k))
    api.obs(r.log())
    cover()
    return _valid_outcome(r, k, n, pay, peer, host)


def v1junk(x: str, y: str, split: int) -> bool:
    """
    pre: 1 <= len(x) <= 2 and len(y) == 2 and all(ord(c) < 256 for c in x + y)
    pre: "\\r" not in x + y and "\\n" not in x + y
    pre: 0 <= split <= 5
    post: _
    """
    x = _fix(x)
    y = _fix(y)
    # "the receiver must ignore anything presented before the CRLF is found"
    pre = "PROXY UNKNOWN "
    hdr = pre + x + " " + y + "\r\n"
    pay = "XY"
    n = len(hdr)
    ks = [0, 8, len(pre) + 1, n - 1, n, n + 1]
    k = ks[_menu(5, split)]
    r = Run(_pieces(hdr, pay, k))
    api.obs(r.log())
    cover()
    return _valid_outcome(r, k, n, pay, REAL_PEER, REAL_HOST)


def _is_ipv4(s):
    parts = []
    cur = ""
    for ch in s:
        if ch == ".":
            parts.append(cur)
            cur = ""
        elif "0" <= ch <= "9":
            cur = cur + ch
        else:
            return False
    parts.append(cur)
    if len(parts) != 4:
        return False
    for p in parts:
        if not (1 <= len(p) <= 3):
            return False
        if len(p) > 1 and p[0] == "0":
            return False
        if _port_val(p) > 255:
            return False
    return True


def _hex(ch):
    return ("0" <= ch <= "9") or ("a" <= ch <= "f") or ("A" <= ch <= "F")


def _is_ipv6(s):
    """RFC 4291 2.2 forms 1 and 2 (groups of 1-4 hex digits, at most one '::').  None = outside the
    PROXY specification's grammar but common IPv6 text (embedded IPv4, zone id): not judged"""
    n = len(s)
    for ch in s:
        if ch == "." or ch == "%":
            return None
    if n < 2:
        return False
    ng = 0
    dbl = 0
    cur = 0
    i = 0
    while i < n:
        ch = s[i]
        if ch == ":":
            if i + 1 < n and s[i + 1] == ":":
                if cur == 0 and i != 0:
                    return False
                dbl += 1
                if cur > 0:
                    ng += 1
                    cur = 0
                i += 2
                continue
            if cur == 0:
                return False
            ng += 1
            cur = 0
            i += 1
            if i == n:
                return False
            continue
        if not _hex(ch):
            return False
        cur += 1
        if cur > 4:
            return False
        i += 1
    if cur > 0:
        ng += 1
    if dbl > 1:
        return False
    if dbl == 1:
        return ng <= 7
    return ng == 8


def _is_port(p):
    if not (1 <= len(p) <= 5):
        return False
    for ch in p:
        if not ("0" <= ch <= "9"):
            return False
    if len(p) > 1 and p[0] == "0":
        return False
    return _port_val(p) <= 65535


def _ref_v1(stream):
    """specification 2.1 applied to a stream.  Returns ('pending',) no CRLF yet; ('bad',);
    ('dontcare',); ('ok', peer, host, rest)"""
    n = len(stream)
    end = -1
    for i in range(n - 1):
        if stream[i] == "\r" and stream[i + 1] == "\n":
            end = i
            break
    if end < 0:
        return ("pending",)
    line = stream[:end]
    rest = stream[end + 2:]
    toks = []
    cur = ""
    for ch in line:
        if ch == " ":
            toks.append(cur)
            cur = ""
        else:
            cur = cur + ch
    toks.append(cur)
    if not _teq(toks[0], "PROXY") or len(toks) < 2:
        return ("bad",)
    fam = toks[1]
    if _teq(fam, "UNKNOWN"):
        return ("ok", REAL_PEER, REAL_HOST, rest)
    if len(fam) > 7 and _teq(fam[:7], "UNKNOWN"):
        return ("dontcare",)
    if _teq(fam, "TCP4"):
        six = False
    elif _teq(fam, "TCP6"):
        six = True
    else:
        return ("bad",)
    if len(toks) != 6:
        return ("bad",)
    for a in (toks[2], toks[3]):
        ok = _is_ipv6(a) if six else _is_ipv4(a)
        if ok is None:
            return ("dontcare",)
        if not ok:
            return ("bad",)
    if not _is_port(toks[4]) or not _is_port(toks[5]):
        return ("bad",)
    kind = "6" if six else "4"
    return ("ok", (kind, "TCP", toks[2], _port_val(toks[4])), (kind, "TCP", toks[3], _port_val(toks[5])), rest)


_V1BASE = ["PROXY TCP4 1.2.3.4 25.6.7.8 10 443\r\n", "PROXY TCP6 ::1 2001:db8::42:8329 9 65535\r\n",
           "PROXY UNKNOWN\r\n", "PROXY UNKNOWN ab\r\n"]


def _judge(r, ref):
    """outcome of a single unsplit delivery against the reference verdict"""
    if ref[0] == "dontcare":
        return r.rejected() or r.closed is None
    if ref[0] == "pending":
        return len(r.rec.got) == 0           # waiting or dropping: nothing may reach the application
    if ref[0] == "bad":
        return r.rejected()
    return r.success(ref[3], ref[1], ref[2])


_SPECIAL = " \r\n.:%0123456789abcdefABCDEFPROXYTUNKW"
_SPECIAL_ORDS = sorted(set(ord(c) for c in _SPECIAL))


def _conc_char(ch):
    """one path per value for the bytes that mean something in a v1 header; all other values stay
    one symbolic class"""
    o = ord(ch)
    cnt = 0
    for c in _SPECIAL_ORDS:
        cnt = cnt + (o == c)        # symbolic sum: no branching, so 'not special' stays ONE path
    if cnt == 0:
        return ch
    lo, hi = 0, len(_SPECIAL_ORDS) - 1
    while lo <= hi:
        mid = (lo + hi) // 2
        if o == _SPECIAL_ORDS[mid]:
            return chr(_SPECIAL_ORDS[mid])
        if o < _SPECIAL_ORDS[mid]:
            hi = mid - 1
        else:
            lo = mid + 1
    return ch


_V1BASE = ["PROXY TCP4 1.2.3.4 25.6.7.8 10 443\r\n", "PROXY TCP6 ::1 2001:db8::42:8329 9 65535\r\n",
           "PROXY UNKNOWN\r\n", "PROXY UNKNOWN ab\r\n"]
# quick tier: one or two positions per field (keyword, separators, address digits / dots / colons, port
# digits, CR, LF); thorough tier: every position
_V1POS = [[0, 5, 9, 11, 12, 20, 27, 28, 29, 30, 33, 34, 35], [9, 11, 13, 14, 19, 20, 24, 31, 33, 35, 39, 40],
          [4, 5, 6, 12, 13, 14], [13, 14, 16, 17]]


def _v1positions(bi):
    if B.get("allpos"):
        return list(range(len(_V1BASE[bi])))
    return _V1POS[bi]


def v1bad(base: int, pos: int, ch: str, split: int) -> bool:
    """
    pre: 0 <= base <= 3 and 0 <= pos <= 45 and len(ch) == 1 and ord(ch) < 256
    pre: 0 <= split <= B['msplit']
    post: _
    """
    ch = _fix(ch)
    bi = _menu(3, base)
    hdr = _V1BASE[bi]
    plist = _v1positions(bi)
    p = plist[_menu(len(plist) - 1, pos)]
    ch = _conc_char(ch)
    if ch == hdr[p]:
        return True
    mut = hdr[:p] + ch + hdr[p + 1:]
    # delivered at once, or header and payload separately
    k = 0 if split == 0 else len(hdr)
    r = Run(_pieces(mut, "XY", k))
    api.obs(r.log())
    cover()
    return _judge(r, _ref_v1(mut + "XY"))


def v1limit(n: int, split: int) -> bool:
    """
    pre: 100 <= n <= 112 and 0 <= split <= 1
    post: _
    """
    # spec 2.1: a line is at most 107 bytes including CRLF; a receiver that has seen 108 bytes without
    # CRLF must not go on buffering.  Nothing of it may reach the application.
    m = 100 + _menu(12, n - 100)
    stream = "PROXY UNKNOWN " + "x" * (m - 14)
    k = 0 if split == 0 else 50
    r = Run(_pieces(stream, "", k))
    api.obs(r.log())
    cover()
    if len(r.rec.got) != 0:
        return False
    if m > 107:
        return r.closed is not None
    return True


# ------------------------------------------------------------------------------------------------
# version 2

_B4 = [("\x01\x02\x03\x04", "1.2.3.4", "\x05\x06\x07\x08", "5.6.7.8"),
       ("\xff\xff\xff\xff", "255.255.255.255", "\x00\x00\x00\x00", "0.0.0.0")]
_B6 = [("\x00" * 15 + "\x01", "0:0:0:0:0:0:0:1", "\x20\x01\x0d\xb8" + "\x00" * 6 + "\xff\x00\x00\x42\x83\x29",
        "2001:db8:0:0:0:ff00:42:8329"),
       ("\xff" * 16, "ffff:ffff:ffff:ffff:ffff:ffff:ffff:ffff", "\x00" * 16, "0:0:0:0:0:0:0:0")]
_INET = [0x11, 0x12, 0x21, 0x22]


def _len2(n):
    return chr(n // 256) + chr(n % 256)


def v2inet(cmd: int, fam: int, sp: str, dp: str, ntlv: int, tlv: str, pay: str, split: int) -> bool:
    """
    pre: 0 <= cmd <= 1 and 0 <= fam <= 3 and len(sp) == 2 and len(dp) == 2 and 0 <= ntlv <= 1
    pre: len(tlv) == B['tlv'] and len(pay) == B['p'] and all(ord(c) < 256 for c in sp + dp + tlv + pay)
    pre: cmd == 1 or (ntlv == 1 and fam % 2 == 0)
    pre: 0 <= split <= 70
    post: _
    """
    sp = _fix(sp)
    dp = _fix(dp)
    tlv = _fix(tlv)
    pay = _fix(pay)
    c = _menu(1, cmd)
    fi = _menu(3, fam)
    f = _INET[fi]
    extra = tlv if _menu(1, ntlv) == 1 else ""
    sb, st, db, dt = (_B4 if fi < 2 else _B6)[fi % 2]
    kind = "4" if fi < 2 else "6"
    typ = "TCP" if fi % 2 == 0 else "UDP"
    body = sb + db + sp + dp + extra
    if c == 1:
        peer = (kind, typ, st, ord(sp[0]) * 256 + ord(sp[1]))
        host = (kind, typ, dt, ord(dp[0]) * 256 + ord(dp[1]))
    else:
        # LOCAL: "the receiver must accept this connection as valid and must use the real connection
        # endpoints and discard the protocol block including the family which is ignored"
        peer, host = REAL_PEER, REAL_HOST
    hdr = SIG + chr(0x20 + c) + chr(f) + _len2(len(body)) + body
    k = _split_cases(len(hdr) + len(pay), split)
    r = Run(_pieces(hdr, pay, k))
    api.obs(r.log())
    cover()
    return _valid_outcome(r, k, len(hdr), pay, peer, host)


def _strip_nul(p):
    while len(p) > 0 and p[len(p) - 1] == "\x00":
        p = p[:len(p) - 1]
    return p


def v2unix(dgram: int, ua: str, ub: str, ntlv: int, tlv: str, pay: str, split: int) -> bool:
    """
    pre: 0 <= dgram <= 1 and len(ua) == 2 and len(ub) == 1 and 0 <= ntlv <= 1
    pre: len(tlv) == B['tlv'] and len(pay) == B['p'] and all(ord(c) < 256 for c in ua + ub + tlv + pay)
    pre: 0 <= split <= 11
    post: _
    """
    ua = _fix(ua)
    ub = _fix(ub)
    tlv = _fix(tlv)
    pay = _fix(pay)
    f = 0x31 + _menu(1, dgram)
    extra = tlv if _menu(1, ntlv) == 1 else ""
    body = ua + "\x00" * (108 - len(ua)) + ub + "\x00" * (108 - len(ub)) + extra
    # the path is what precedes the NUL padding
    peer, host = ("U", _strip_nul(ua)), ("U", _strip_nul(ub))
    hdr = SIG + "\x21" + chr(f) + _len2(len(body)) + body
    n = len(hdr)
    ks = [0, 1, 15, 16, 17, 18, 124, 125, n - 1, n, n + 1, n + len(pay)]
    k = ks[_menu(11, split)]
    r = Run(_pieces(hdr, pay, k))
    api.obs(r.log())
    cover()
    return _valid_outcome(r, k, n, pay, peer, host)


def v2unspec(cmd: int, ntlv: int, tlv: str, pay: str, split: int) -> bool:
    """
    pre: 0 <= cmd <= 1 and 0 <= ntlv <= 1
    pre: len(tlv) == B['tlv'] and len(pay) == B['p'] and all(ord(c) < 256 for c in tlv + pay)
    pre: 0 <= split <= 30
    post: _
    """
    tlv = _fix(tlv)
    pay = _fix(pay)
    c = _menu(1, cmd)
    extra = tlv if _menu(1, ntlv) == 1 else ""
    hdr = SIG + chr(0x20 + c) + "\x00" + _len2(len(extra)) + extra
    k = _split_cases(len(hdr) + len(pay), split)
    r = Run(_pieces(hdr, pay, k))
    api.obs(r.log())
    cover()
    return _valid_outcome(r, k, len(hdr), pay, REAL_PEER, REAL_HOST)


def _ref_v2(stream, peer, host):
    """specification 2.2 applied to a stream whose address block (if any) encodes peer/host"""
    n = len(stream)
    if n < 16:
        return ("pending",)
    if not _teq(stream[:12], SIG):
        return ("bad",)
    vc = ord(stream[12])
    ver, cmd = vc // 16, vc % 16
    if ver != 2 or cmd > 1:
        return ("bad",)
    fp = ord(stream[13])
    fam, pr = fp // 16, fp % 16
    ln = ord(stream[14]) * 256 + ord(stream[15])
    if 16 + ln > n:
        return ("pending",)
    ln = _menu(n, ln)
    rest = stream[16 + ln:]
    if cmd == 0:
        return ("ok", REAL_PEER, REAL_HOST, rest)
    if fam > 3 or pr > 2:
        return ("bad",)
    if fam == 0 and pr == 0:
        return ("ok", REAL_PEER, REAL_HOST, rest)
    if fam == 0 or pr == 0:
        return ("dontcare",)
    need = 12 if fam == 1 else (36 if fam == 2 else 216)
    if ln < need:
        return ("bad",)
    return ("ok", peer, host, rest)


def v2bad(pos: int, ch: str, split: int) -> bool:
    """
    pre: 0 <= pos <= 15 and len(ch) == 1 and ord(ch) < 256
    pre: 0 <= split <= 1
    post: _
    """
    ch = _fix(ch)
    sb, st, db, dt = _B4[0]
    hdr = SIG + "\x21\x11" + _len2(12) + sb + db + "\x00\x50" + "\x01\xbb"
    p = _split_cases(15, pos)
    if ch == hdr[p]:
        return True
    if p >= 12:
        # one path per value of a mutated version/command, family/protocol or length byte that keeps
        # the header plausible; all other values stay symbolic
        for v in range(0, 0x33):
            if ch == chr(v):
                ch = chr(v)
                break
    mut = hdr[:p] + ch + hdr[p + 1:]
    k = 0 if split == 0 else 16
    r = Run(_pieces(mut[:16], mut[16:] + "XYZ", k))
    api.obs(r.log())
    cover()
    stream = mut + "XYZ"
    typ = "UDP" if ord(stream[13]) % 16 == 2 else "TCP"
    return _judge(r, _ref_v2(stream, ("4", typ, st, 80), ("4", typ, dt, 443)))


def _v1bad_shards(tier):
    out = []
    for bi in range(4):
        n = len(_V1BASE[bi]) if BOUNDS[tier].get("allpos") else len(_V1POS[bi])
        step = (6 if BOUNDS[tier].get("allpos") else 3) if bi < 2 else 9
        for s in range(0, BOUNDS[tier]["msplit"] + 1):
            lo = 0
            while lo < n:
                hi = min(n, lo + step) - 1
                out.append(("base == %d" % bi, "split == %d" % s, "%d <= pos <= %d" % (lo, hi)))
                lo = hi + 1
    return out


HARNESSES = [
    H(v1split, shards=[("proto == 0",), ("proto == 1", "ai == 0"), ("proto == 1", "ai == 1"), ("proto == 1", "ai == 2"),
                       ("proto == 2",)],
      timeout={"quick": 100, "thorough": 900}),
    H(v1ports, shards=[("kind == %d" % kd,) for kd in range(4)], timeout={"quick": 100, "thorough": 900}),
    H(v1junk, shards=[("len(x) == 1",), ("len(x) == 2",)], timeout={"quick": 100, "thorough": 900}),
    H(v1bad, shards=_v1bad_shards, timeout={"quick": 100, "thorough": 900}),
    H(v1limit, timeout={"quick": 60, "thorough": 300}),
    H(v2inet, shards=[("cmd == 1", "fam == %d" % f) for f in range(4)] + [("cmd == 0",)],
      timeout={"quick": 100, "thorough": 900}),
    H(v2unix, shards=[("dgram == 0",), ("dgram == 1",)], timeout={"quick": 100, "thorough": 900}),
    H(v2unspec, timeout={"quick": 100, "thorough": 900}),
    H(v2bad, shards=[("pos <= 11",), ("pos == 12",), ("pos == 13",), ("pos >= 14",)],
      timeout={"quick": 100, "thorough": 900}),
]

# headers from twisted/protocols/haproxy/test/test_v1parser.py, test_v2parser.py, test_wrapper.py
VECTORS = {
    "v1split": [(0, 0, "hi", 0), (0, 1, "\r\n", 8), (0, 2, "hi", 33), (1, 0, "hi", 20), (1, 1, "ab", 3), (1, 2, "ab", 50),
                (2, 0, "ab", 15), (2, 1, "ab", 9), (2, 2, "ab", 7), (0, 0, "hi", 35), (0, 0, "hi", 36)],
    "v1ports": [(0, "8", 0), (0, "99", 1), (1, "80", 2), (2, "65", 3), (3, "0", 1), (1, "7", 0)],
    "v1junk": [("zz", "\x00\xff", 5), (" ", "  ", 1), ("a", "bc", 2), ("TC", "P4", 0)],
    "v1bad": [(0, 0, "X", 0), (0, 1, "\x00", 0), (0, 3, "x", 0), (0, 8, "-", 0), (0, 11, "\n", 0), (1, 1, "g", 0),
              (1, 1, "%", 0), (2, 4, " ", 0), (3, 2, "\r", 0), (0, 3, "9", 0), (0, 7, "0", 0), (1, 10, "6", 0),
              (0, 9, " ", 0), (2, 1, "\t", 0), (0, 2, "6", 0), (1, 0, "4", 0), (0, 5, "6", 0), (0, 12, "\r", 0)],
    "v1limit": [(100, 0), (107, 1), (108, 0), (112, 1)],
    "v2inet": [(1, 0, "\x00P", "\x01\xbb", 0, "abc", "hi", 0), (1, 1, "\xff\xff", "\x00\x00", 1, "\x03\x00\x01", "hi", 16),
               (1, 2, "\x1f\x90", "\x00\x16", 1, "abc", "hi", 30), (1, 3, "ab", "cd", 0, "abc", "hi", 52),
               (0, 0, "ab", "cd", 1, "abc", "hi", 3), (0, 2, "ab", "cd", 1, "abc", "hi", 16), (1, 0, "ab", "cd", 0, "abc", "hi", 7)],
    "v2unix": [(0, "/a", "b", 0, "abc", "hi", 4), (1, "\x00\x00", "\x00", 1, "abc", "hi", 0), (0, "x\x00", "y", 1, "abc", "hi", 9)],
    "v2unspec": [(1, 0, "abc", "hi", 17), (0, 1, "abc", "hi", 16), (1, 1, "abc", "hi", 5)],
    "v2bad": [(0, "X", 0), (11, "\r", 1), (12, "\x20", 0), (12, "\x22", 0), (12, "\x31", 1), (13, "\x12", 0),
              (13, "\x21", 0), (13, "\x00", 0), (13, "\x10", 0), (13, "\x41", 0), (13, "\x13", 1), (15, "\x0b", 0),
              (15, "\x0d", 0), (15, "\x10", 1), (14, "\x01", 0), (15, "\x00", 0)],
}


def selftest():
    """lbytes differential test (on the LBytes class with this module's scan based find/split) + the
    address validators against the real ipaddress module on every single-byte replacement of every
    base address of v1bad (the only texts the validators ever see in place of ipaddress)"""
    import ipaddress
    n = lbytes.selftest()
    for base, fn, real in (("1.2.3.4", _is_ipv4, ipaddress.IPv4Address), ("25.6.7.8", _is_ipv4, ipaddress.IPv4Address),
                           ("::1", _is_ipv6, ipaddress.IPv6Address), ("2001:db8::42:8329", _is_ipv6, ipaddress.IPv6Address)):
        for i in range(len(base)):
            for v in range(256):
                txt = base[:i] + chr(v) + base[i + 1:]
                try:
                    real(txt)
                    want = True
                except ValueError:
                    want = False
                got = fn(txt)
                if got is None:
                    assert chr(v) in ".%", (txt, got)
                else:
                    assert got == want, (txt, got, want)
                n += 1
    return n
