"""C22 chunked transfer coding: round trip for every content/split, rejection of malformed input.

Engine E2: `_ChunkedTransferDecoder`, `toChunk`, `_hexint`, `_ishexdigits` are recompiled from
/repo's source onto LBytes; chunk data, extension, trailer, trailing bytes and mutated characters
are symbolic text (all 256 byte values each); the framing skeleton and the split index are case
split (the split index is a symbolic int that the harness turns into one path per position).
"""
from vlib import api, lbytes, lift
from vlib.api import H, cover
from vlib.lift import b, t

PROPERTY = "C22"
LEVEL = "model_checking"
ENCODED = ["twisted.web.http:_ChunkedTransferDecoder", "twisted.web.http:toChunk",
           "twisted.web._abnf:_hexint", "twisted.web._abnf:_ishexdigits"]
BOUNDS = {"quick": {"n": 2, "x": 2, "n2": 1}, "thorough": {"n": 3, "x": 3, "n2": 3}}
B = {}
BOUNDS_TEXT = ("1-2 chunks of 1..n symbolic bytes each; extension / trailer line / trailing bytes of <= x "
               "symbolic bytes; size line of <= 2 symbolic bytes; every split index of the stream")
OUTSIDE = ["more than two chunks or chunks longer than n bytes (the decoder's BODY state does not inspect "
           "content; sizes only enter through the hex length)",
           "the real limits maxChunkSizeLineLength=1024 and 2**16 trailer bytes: both are scaled down to "
           "8 / 12 so that both sides of each limit are inside the bound",
           "three or more deliveries (two deliveries at every split index are explored)"]
ASSUMPTIONS = ["LBytes/LBuf reproduce bytes/bytearray semantics for the operations used (differentially "
               "tested on every run: vlib.lbytes.selftest) and the lifted decoder agrees with the real one "
               "on the concrete vectors below"]
EXPLANATION = "lifted real chunked decoder on symbolic content; shape and split index case-split"

# whole module, with `re` mapped to the text-regex shim, so that a regex-based rewrite of the helpers is lifted too
_A = lift.lift("twisted.web._abnf", use_re=True)
L = lift.lift("twisted.web.http", names=["_ChunkedTransferDecoder", "toChunk", "_chunkExtChars"],
              overrides={"_hexint": _A._hexint, "_ishexdigits": _A._ishexdigits,
                         "maxChunkSizeLineLength": 8})
from twisted.web import http as _real_http  # noqa: E402
Malformed = _real_http._MalformedChunkedDataError
DataLoss = _real_http._DataLoss
if L.__real__:
    _real_http.maxChunkSizeLineLength = 8
    L._ChunkedTransferDecoder = _real_http._ChunkedTransferDecoder
MAXTRAILER = 12
_CTL = "".join(chr(i) for i in range(32) if i != 9) + "\x7f"
_HEX = "0123456789abcdefABCDEF"


def _split_cases(n, split):
    """turn the symbolic split index into one concrete-position path per value"""
    for k in range(n + 1):
        if split == k:
            return k
    return n


def _run(stream, split, nomore=False):
    """deliver stream in two pieces; returns (data, finishes, error).  Bytes arriving after the
    decoder finished are not given to it (its users stop calling it); they are recorded in fin as a
    second element ("late", text) so that callers can account for them."""
    out = []
    fin = []
    dec = L._ChunkedTransferDecoder(lambda d: out.append(t(d)), lambda e: fin.append(t(e)))
    dec._maxTrailerHeadersSize = MAXTRAILER
    err = None
    try:
        if split > 0:
            dec.dataReceived(b(stream[:split]))
        if split < len(stream):
            if dec.state == "FINISHED":
                # the decoder's user never calls dataReceived after finish; extra bytes are appended
                fin.append(("late", stream[split:]))
            else:
                dec.dataReceived(b(stream[split:]))
        if nomore:
            dec.noMoreData()
    except Malformed:
        err = "malformed"
    except DataLoss:
        err = "dataloss"
    return "".join(out), fin, err


def _fin_is(fin, extra):
    """finish callback ran exactly once, and callback bytes + late bytes == extra"""
    if len(fin) == 1:
        return isinstance(fin[0], str) and fin[0] == extra
    if len(fin) == 2:
        return isinstance(fin[0], str) and isinstance(fin[1], tuple) and fin[0] + fin[1][1] == extra
    return False


def _enc(data):
    return "".join(t(x) for x in L.toChunk(b(data)))


def roundtrip(d1: str, d2: str, extra: str, split: int) -> bool:
    """
    pre: 1 <= len(d1) <= B['n'] and len(d2) <= B['n2'] and len(extra) <= B['x'] - 1
    pre: all(ord(c) < 256 for c in d1 + d2 + extra)
    pre: 0 <= split
    post: _
    """
    stream = _enc(d1) + (_enc(d2) if len(d2) > 0 else "") + "0\r\n\r\n" + extra
    k = _split_cases(len(stream), split)
    data, fin, err = _run(stream, k, nomore=True)
    api.obs((data, fin, err))
    cover()
    if err is not None:
        return False
    if data != d1 + d2:
        return False
    # completion exactly once, with exactly the extra bytes (those delivered with/after the end)
    return _fin_is(fin, extra)


def extension(ext: str, d1: str, split: int) -> bool:
    """
    pre: 1 <= len(ext) <= B['x'] and len(d1) == 1
    pre: all(ord(c) < 256 for c in ext + d1)
    pre: 0 <= split
    post: _
    """
    stream = "1;" + ext + "\r\n" + d1 + "\r\n0\r\n\r\n"
    k = _split_cases(len(stream), split)
    data, fin, err = _run(stream, k, nomore=True)
    api.obs((data, fin, err))
    cover()
    if "\r\n" in ext:
        return True  # then ext is not an extension but the end of the size line: covered by `mutate`
    bad = False
    bs = False
    for c in ext:
        if lbytes._char_in(c, _CTL):
            bad = True
        elif c == "\\":
            bs = True
    if bad:
        # RFC 9112 7.1.1: controls other than HTAB (and DEL) cannot occur in chunk-ext
        return err == "malformed" and data == ""
    if bs:
        # backslash is only legal inside a quoted-string (quoted-pair); twisted refuses it outright,
        # which the property allows: either reject, or accept and deliver
        return (err == "malformed" and data == "") or (err is None and data == d1 and fin == [""])
    return err is None and data == d1 and fin == [""]


def trailer(tr: str, extra: str, split: int) -> bool:
    """
    pre: 1 <= len(tr) <= B['x'] and len(extra) <= 1
    pre: all(ord(c) < 256 for c in tr + extra)
    pre: "\\r" not in tr and "\\n" not in tr
    pre: 0 <= split
    post: _
    """
    stream = "1\r\nA\r\n0\r\n" + tr + "\r\n\r\n" + extra
    k = _split_cases(len(stream), split)
    data, fin, err = _run(stream, k, nomore=True)
    api.obs((data, fin, err))
    cover()
    return err is None and data == "A" and _fin_is(fin, extra)


def sizeline(sz: str, split: int) -> bool:
    """
    pre: 1 <= len(sz) <= 2 and (len(sz) == 1 or B['x'] >= 3 or sz[0] in "01x")
    pre: all(ord(c) < 256 for c in sz)
    pre: "\\r" not in sz and ";" not in sz
    pre: 0 <= split
    post: _
    """
    body = "ABCDEFGHIJKLMNOPQRSTUVWXYZ" * 10
    # case split on the digit values (one path per hex digit; non-digits stay symbolic): a symbolic
    # chunk length would make every later slice a symbolic-length sequence operation
    conc = ""
    for ch in sz:
        for h in _HEX:
            if ch == h:
                ch = h
                break
        conc = conc + ch
    sz = conc
    stream = sz + "\r\n" + body
    k = _split_cases(4, split)
    data, fin, err = _run(stream, k)
    api.obs((data[:8], len(data), fin, err))
    cover()
    hexok = all(c in "0123456789abcdefABCDEF" for c in sz)
    if not hexok:
        return err == "malformed" and data == ""
    n = int(sz, 16)
    if n == 0:
        return True
    return data == body[:n]


def chunk_end(c1: str, c2: str, split: int) -> bool:
    """
    pre: len(c1) == 1 and len(c2) == 1 and ord(c1) < 256 and ord(c2) < 256
    pre: 0 <= split
    post: _
    """
    stream = "2\r\nAB" + c1 + c2 + "0\r\n\r\n"
    k = _split_cases(len(stream), split)
    data, fin, err = _run(stream, k)
    api.obs((data, fin, err))
    cover()
    if c1 + c2 == "\r\n":
        return err is None and data == "AB" and fin == [""]
    return err == "malformed" and data == "AB" and fin == []


def truncated(d1: str, cut: int) -> bool:
    """
    pre: len(d1) == 2 and all(ord(c) < 256 for c in d1)
    pre: 0 <= cut
    post: _
    """
    stream = "2;x=y\r\n" + d1 + "\r\n0\r\nT: v\r\n\r\n"
    k = _split_cases(len(stream) - 1, cut)   # every proper prefix
    data, fin, err = _run(stream[:k], 0, nomore=True)
    api.obs((data, fin, err))
    cover()
    return err == "dataloss" and fin == [] and d1.startswith(data)


def limits(fill: str, n: int) -> bool:
    """
    pre: len(fill) == 1 and fill in "0123456789abcdef;x "
    pre: 0 <= n <= 14
    post: _
    """
    # size line limit scaled to 8, trailer limit scaled to MAXTRAILER: never unbounded buffering
    k = _split_cases(14, n)
    data, fin, err = _run("1" + fill * k, 0)
    api.obs((data, fin, err))
    cover()
    if 1 + k > 8:
        if err != "malformed":
            return False
    data, fin, err = _run("0\r\n" + "t" * k, 0)
    api.obs((data, fin, err))
    if k + 2 > MAXTRAILER:
        return err == "malformed"
    return err is None


HARNESSES = [
    H(roundtrip, shards=lambda tier: [("len(d1) == %d" % a, "len(d2) == %d" % c)
                                      for a in range(1, BOUNDS[tier]["n"] + 1) for c in range(0, BOUNDS[tier]["n2"] + 1)],
      timeout={"quick": 100, "thorough": 1500}),
    H(extension, shards=lambda tier: [("len(ext) == %d" % a,) for a in range(1, BOUNDS[tier]["x"])],
      timeout={"quick": 60, "thorough": 900}),
    H(trailer, shards=lambda tier: [("len(tr) == %d" % a,) for a in range(1, BOUNDS[tier]["x"] + 1)],
      timeout={"quick": 60, "thorough": 900}),
    H(sizeline, shards=[("len(sz) == 1",), ("len(sz) == 2",)], timeout={"quick": 60, "thorough": 600}),
    H(chunk_end, timeout={"quick": 60, "thorough": 300}),
    H(truncated, timeout={"quick": 60, "thorough": 300}),
    H(limits, timeout={"quick": 60, "thorough": 300}),
]

# concrete vectors (several from twisted/web/test/test_http.py ChunkedTransferEncodingTests) run
# through both the lifted and the real decoder; results and observations must agree
VECTORS = {
    "roundtrip": [("abc", "12345", "", 3), ("a", "", "xy", 0), ("\r\n", "\r", "Z", 5), ("\xff\x00", "0", "", 9)],
    "extension": [("a=b", "X", 2), ("\x00", "X", 0), ("\t \xff", "q", 4), ("\\", "q", 1)],
    "trailer": [("A:b", "", 3), ("\x00\xff", "e", 11)],
    "sizeline": [("a", 0), ("-1", 1), ("0x", 2), ("G", 0), ("1f", 3), ("+3", 0)],
    "chunk_end": [("\r", "\n", 3), ("\n", "\r", 3), ("0", "\r", 7)],
    "truncated": [("hi", 0), ("hi", 9), ("hi", 20)],
    "limits": [("0", 3), ("0", 12), (";", 8), ("x", 14)],
}


def selftest():
    from vlib import lbytes
    return lbytes.selftest()


