"""C39 telnet option negotiation: two real Telnet instances, symbolic request/delivery interleaving."""
from typing import List

from twisted.conch.telnet import (DO, DONT, IAC, WILL, WONT, AlreadyDisabled, AlreadyEnabled,
                                  AlreadyNegotiating, OptionRefused, Telnet)

from vlib.api import H, cover

PROPERTY = "C39"
LEVEL = "model_checking"
ENCODED = ["twisted.conch.telnet:Telnet.will", "twisted.conch.telnet:Telnet.wont",
           "twisted.conch.telnet:Telnet.do", "twisted.conch.telnet:Telnet.dont",
           "twisted.conch.telnet:Telnet.dataReceived", "twisted.conch.telnet:Telnet.commandReceived",
           "twisted.conch.telnet:Telnet.telnet_WILL", "twisted.conch.telnet:Telnet.telnet_WONT",
           "twisted.conch.telnet:Telnet.telnet_DO", "twisted.conch.telnet:Telnet.telnet_DONT",
           "twisted.conch.telnet:Telnet.will_no_false", "twisted.conch.telnet:Telnet.will_no_true",
           "twisted.conch.telnet:Telnet.will_yes_false", "twisted.conch.telnet:Telnet.will_yes_true",
           "twisted.conch.telnet:Telnet.wont_no_false", "twisted.conch.telnet:Telnet.wont_no_true",
           "twisted.conch.telnet:Telnet.wont_yes_false", "twisted.conch.telnet:Telnet.wont_yes_true",
           "twisted.conch.telnet:Telnet.do_no_false", "twisted.conch.telnet:Telnet.do_no_true",
           "twisted.conch.telnet:Telnet.do_yes_false", "twisted.conch.telnet:Telnet.do_yes_true",
           "twisted.conch.telnet:Telnet.dont_no_false", "twisted.conch.telnet:Telnet.dont_no_true",
           "twisted.conch.telnet:Telnet.dont_yes_false", "twisted.conch.telnet:Telnet.dont_yes_true",
           "twisted.conch.telnet:Telnet.getOptionState"]
BOUNDS = {"quick": {"nopt": 1, "req": 3, "hist": 7, "nopt2": 2, "req2": 2, "hist2": 4,
                    "rall": 0, "rreq": 2, "rhist": 6},
          "thorough": {"nopt": 1, "req": 4, "hist": 10, "nopt2": 2, "req2": 3, "hist2": 7,
                       "rall": 1, "rreq": 2, "rhist": 7}}
B = {}
BOUNDS_TEXT = ("two connected Telnet instances A, B; histories of length <= hist over {A/B . will/wont/do/dont(o), "
               "deliver next A->B message, deliver next B->A message}, o in the first nopt options, at most req "
               "requests that the API accepts, every one of the 16 (policy A, policy B) pairs; after the history "
               "all queues are drained; thorough tier adds harness history2 with nopt2 = 2 options, req2 requests, "
               "length <= hist2, first accepted request by A on option 1 (symmetry); harness reentrant: one option, "
               "<= rreq history requests of length <= rhist, accepted request number fu additionally issues the "
               "opposite request on the same option from inside the success callback of its Deferred (quick: both "
               "sides accept everything; thorough: all 16 policy pairs)")
OUTSIDE = ["more than req accepted requests / more than nopt options / longer histories",
           "peers that are not twisted Telnet instances (arbitrary WILL/WONT/DO/DONT byte streams)",
           "policies whose enableLocal/enableRemote answer changes over time or that refuse an option the same "
           "side asks for (Telnet.will_no_true asserts on those)",
           "connection loss during negotiation; subnegotiation; more than one re-entrant request per history, "
           "re-entrant requests on another option or from a policy hook or an errback",
           "messages split at arbitrary byte positions (each delivery is one whole 3 byte IAC command; byte "
           "level splitting of the parser is C38's subject)"]
ASSUMPTIONS = ["history2 (two options, thorough tier) fixes the first step to A.will(option 1) or A.do(option 1): "
               "every history that gets past its first step starts with an accepted will/do, and exchanging the "
               "two sides (all 16 policy pairs are explored) or the two options (policies and Telnet treat option "
               "bytes uniformly) maps it to one of these",
               "transport = in-memory FIFO of the bytes written, reliable and ordered per direction (TCP)",
               "policy of a side = two fixed booleans (acceptLocal, acceptRemote) applied to every option, for "
               "solicited and unsolicited peer requests alike; a side only issues will(o) when acceptLocal and "
               "do(o) when acceptRemote ('policies accept the options they themselves request'); wont/dont are "
               "always allowed; disableLocal/disableRemote are no-op recorders",
               "a request that the API refuses synchronously (already failed Deferred) is checked to leave both "
               "protocol objects and queues untouched and the history stops there: its continuations are the "
               "continuations of the same history without that request, which is explored as well",
               "a 'deliver' step on an empty queue ends the history (same argument)",
               "drain order after the history: A->B first while non-empty, else B->A (all other orders are "
               "covered by explicit deliver steps inside the history bound)"]
EXPLANATION = ("the solver chooses the interleaving of requests and single-message deliveries between two real "
               "Telnet objects exchanging real bytes; Deferred firing, message count and final agreement of "
               "both option tables are checked after draining")

KINDS = ("will", "wont", "do", "dont")
_CMD = {"will": WILL, "wont": WONT, "do": DO, "dont": DONT}
_OPPOSITE = {"will": "wont", "wont": "will", "do": "dont", "dont": "do"}


class _Queue:
    """transport: remembers what was written, in order"""

    def __init__(self):
        self.buf = b""
        self.nmsg = 0

    def write(self, data):
        self.buf += data
        self.nmsg += 1


class _Side(Telnet):
    def __init__(self, acceptLocal, acceptRemote):
        Telnet.__init__(self)
        self.acceptLocal = acceptLocal
        self.acceptRemote = acceptRemote
        self.appLocal = {}     # option -> what the application was last told
        self.appRemote = {}
        self.transport = _Queue()

    def enableLocal(self, option):
        if self.acceptLocal:
            self.appLocal[option] = True
        return self.acceptLocal

    def enableRemote(self, option):
        if self.acceptRemote:
            self.appRemote[option] = True
        return self.acceptRemote

    def disableLocal(self, option):
        self.appLocal[option] = False

    def disableRemote(self, option):
        self.appRemote[option] = False


def _snap(t, opts):
    out = []
    for o in opts:
        s = t.getOptionState(o)
        out.append((s.us.state, s.us.negotiating, s.us.onResult is None,
                    s.him.state, s.him.negotiating, s.him.onResult is None))
    return out


class _World:
    def __init__(self, pa, pb, nopt):
        self.sides = [_Side(bool(pa & 1), bool(pa & 2)), _Side(bool(pb & 1), bool(pb & 2))]
        self.opts = [bytes([i + 1]) for i in range(nopt)]
        self.fired = []      # per accepted request: list of outcomes
        self.meta = []       # per accepted request: (side, kind, option)
        self.nreq = 0
        self.nhist = 0          # requests issued by the history itself (not follow-ups)
        self.followed = False   # the one re-entrant follow-up has been issued
        self.nested = None      # its verdict

    def _persp(self, side, kind, opt):
        s = self.sides[side].getOptionState(opt)
        return s.us if kind in ("will", "wont") else s.him

    def total_msgs(self):
        return self.sides[0].transport.nmsg + self.sides[1].transport.nmsg

    def state(self):
        return (_snap(self.sides[0], self.opts), _snap(self.sides[1], self.opts),
                self.sides[0].transport.buf, self.sides[1].transport.buf,
                dict(self.sides[0].appLocal), dict(self.sides[0].appRemote),
                dict(self.sides[1].appLocal), dict(self.sides[1].appRemote))

    def request(self, side, kind, opt, follow=False):
        """returns 'cont' (accepted), 'stop' (refused, verified harmless) or 'bad'.  follow: when
        this request's Deferred fires with success, issue the opposite request on the same option
        from inside that callback (re-entrantly, while the protocol is still in its handler)"""
        t = self.sides[side]
        if kind == "will" and not t.acceptLocal:
            return "stop"      # outside the policy assumption
        if kind == "do" and not t.acceptRemote:
            return "stop"
        before = self.state()
        st = t.getOptionState(opt)
        busy = st.us.negotiating or st.him.negotiating
        pstate = self._persp(side, kind, opt).state
        out = []
        idx = len(self.fired)
        d = getattr(t, kind)(opt)

        def ok(v, out=out):
            out.append(("ok", v, self._persp(side, kind, opt).state,
                        self._persp(side, kind, opt).negotiating))
            if follow and not self.followed:
                self.followed = True
                self.nested = self.request(side, _OPPOSITE[kind], opt)

        def err(f, out=out):
            out.append(("err", f.type, self._persp(side, kind, opt).state,
                        self._persp(side, kind, opt).negotiating))

        d.addCallbacks(ok, err)
        if out:
            # refused synchronously: exactly one failure of the right kind, nothing changed
            if len(out) != 1 or out[0][0] != "err":
                return "bad"
            et = out[0][1]
            if busy:
                want = AlreadyNegotiating
            elif kind in ("will", "do"):
                want = AlreadyEnabled if pstate == "yes" else None
            else:
                want = AlreadyDisabled if pstate == "no" else None
            if et is not want:
                return "bad"
            if self.state() != before:
                return "bad"
            return "stop"
        # accepted: exactly one new 3 byte command on the wire, perspective marked negotiating
        if busy:
            return "bad"
        if kind in ("will", "do") and pstate == "yes":
            return "bad"
        if kind in ("wont", "dont") and pstate == "no":
            return "bad"
        if t.transport.buf != before[2 + side] + IAC + _CMD[kind] + opt:
            return "bad"
        if not self._persp(side, kind, opt).negotiating:
            return "bad"
        self.fired.append(out)
        self.meta.append((side, kind, opt))
        self.nreq += 1
        assert idx == len(self.fired) - 1
        return "cont"

    def deliver(self, src):
        """move one whole command from side src to its peer; 'stop' when nothing is in flight"""
        q = self.sides[src].transport
        if not q.buf:
            return "stop"
        msg, q.buf = q.buf[:3], q.buf[3:]
        if len(msg) != 3 or msg[0:1] != IAC or msg[1:2] not in (WILL, WONT, DO, DONT) or msg[2:3] not in self.opts:
            return "bad"
        self.sides[1 - src].dataReceived(msg)
        return "cont"

    def drain(self):
        while True:
            if self.total_msgs() > 2 * self.nreq or self.nested == "bad":
                return False
            if self.sides[0].transport.buf:
                r = self.deliver(0)
            elif self.sides[1].transport.buf:
                r = self.deliver(1)
            else:
                return True
            if r != "cont":
                return False

    def final_ok(self):
        a, b = self.sides
        # every accepted request's Deferred fired exactly once, with a result matching the state
        for out, (side, kind, opt) in zip(self.fired, self.meta):
            if len(out) != 1:
                return False
            tag, val, pstate, neg = out[0]
            if neg:
                return False
            if tag == "ok":
                if val is not True:
                    return False
                if pstate != ("yes" if kind in ("will", "do") else "no"):
                    return False
            else:
                # only enabling can be refused; the option then stays disabled
                if val is not OptionRefused or kind not in ("will", "do") or pstate != "no":
                    return False
                peer = self.sides[1 - side]
                if kind == "will" and peer.acceptRemote:
                    return False
                if kind == "do" and peer.acceptLocal:
                    return False
        for o in self.opts:
            sa, sb = a.getOptionState(o), b.getOptionState(o)
            for p in (sa.us, sa.him, sb.us, sb.him):
                if p.negotiating or p.onResult is not None:
                    return False
                if p.state not in ("yes", "no"):
                    return False
            if sa.us.state != sb.him.state or sa.him.state != sb.us.state:
                return False
            # what the application was told through the policy hooks is what the protocol believes
            for t, s in ((a, sa), (b, sb)):
                if t.appLocal.get(o, False) != (s.us.state == "yes"):
                    return False
                if t.appRemote.get(o, False) != (s.him.state == "yes"):
                    return False
            # nothing is ever enabled against a policy
            if sa.us.state == "yes" and not (a.acceptLocal and b.acceptRemote):
                return False
            if sb.us.state == "yes" and not (b.acceptLocal and a.acceptRemote):
                return False
        return True


def _conc(x, n):
    # one path per value: hand a plain int to the code under test
    for v in range(n):
        if x == v:
            return v
    raise AssertionError("out of range")


def _run(pa, pb, ops, nopt, maxreq, fu=-1):
    # ops has fixed length; any value outside the menu ends the history early (so every shorter
    # history is covered and the solver decides the elements one by one, in order)
    w = _World(_conc(pa, 4), _conc(pb, 4), nopt)
    for op in ops:
        r = "end"
        for code in range(nopt * 8 + 2):
            if op == code:
                if code >= nopt * 8:
                    r = w.deliver(code - nopt * 8)
                elif w.nhist >= maxreq:
                    r = "stop"
                else:
                    follow = (not w.followed) and fu == w.nhist
                    r = w.request((code >> 2) & 1, KINDS[code & 3], w.opts[code >> 3], follow)
                    if r == "cont":
                        w.nhist += 1
                break
        if r == "end":
            break
        if r == "stop":
            return True
        if r != "cont" or w.nested == "bad":
            return False
        # no negotiation loop: every accepted request costs at most itself and one answer
        if w.total_msgs() > 2 * w.nreq:
            return False
    if not w.drain():
        return False
    cover()
    return w.final_ok()


def history(pa: int, pb: int, ops: List[int]) -> bool:
    """
    pre: 0 <= pa <= 3 and 0 <= pb <= 3
    pre: len(ops) == B['hist']
    post: _
    """
    return _run(pa, pb, ops, B["nopt"], B["req"])


def history2(pa: int, pb: int, ops: List[int]) -> bool:
    """
    pre: 0 <= pa <= 3 and 0 <= pb <= 3
    pre: len(ops) == B['hist2'] and (ops[0] == 0 or ops[0] == 2)
    post: _
    """
    return _run(pa, pb, ops, B["nopt2"], B["req2"])


def reentrant(pa: int, pb: int, fu: int, ops: List[int]) -> bool:
    """
    pre: 0 <= pa <= 3 and 0 <= pb <= 3 and (B['rall'] == 1 or (pa == 3 and pb == 3))
    pre: len(ops) == B['rhist'] and 0 <= fu < B['rreq']
    post: _
    """
    # like history, but accepted request number fu carries a callback that issues the opposite
    # request (will->wont, wont->will, do->dont, dont->do) from inside the firing of its Deferred
    return _run(pa, pb, ops, 1, B["rreq"], fu=_conc(fu, B["rreq"]))


def _shards(tier):
    # case split over the policies and, for the big policy pairs, over the first step
    nopt = BOUNDS[tier]["nopt"]
    first = [c for c in range(nopt * 8) if c & 1 == 0]      # will / do of either side: the only
    rest = "ops[0] not in (%s)" % ", ".join(map(str, first))  # steps that can start a negotiation
    out = []
    for a in range(4):
        for b in range(4):
            base = ("pa == %d" % a, "pb == %d" % b)
            if (tier == "thorough" and a and b) or (a == 3 and b != 0) or (b == 3 and a != 0):
                out += [base + ("ops[0] == %d" % c,) for c in first] + [base + (rest,)]
            else:
                out.append(base)
    return out


def _shards2(tier):
    out = []
    for a in range(4):
        for b in range(4):
            base = ("pa == %d" % a, "pb == %d" % b)
            if a and b:
                out += [base + ("ops[0] == 0",), base + ("ops[0] == 2",)]
            else:
                out.append(base)
    return out


def _shards_r(tier):
    b = BOUNDS[tier]
    pairs = [(a, c) for a in range(4) for c in range(4)] if b["rall"] else [(3, 3)]
    out = []
    for a, c in pairs:
        for f in range(b["rreq"]):
            base = ("pa == %d" % a, "pb == %d" % c, "fu == %d" % f)
            if a == 3 and c == 3:
                out += [base + ("ops[0] == %d" % k,) for k in (0, 2, 4, 6)]
            else:
                out.append(base + ("ops[0] in (0, 2, 4, 6)",))
    return out


HARNESSES = [H(history, shards=_shards, timeout={"quick": 90, "thorough": 1500}),
             H(history2, shards=_shards2, timeout={"quick": 90, "thorough": 1500}, tiers=("thorough",)),
             H(reentrant, shards=_shards_r, timeout={"quick": 90, "thorough": 1500})]
