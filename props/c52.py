"""C52 atomic replacement: FilePath.setContent and sob.Persistent.save keep the complete old or the
complete new content at every crash point.

Engine E4 (vlib/fakefs.py): the real, unmodified code runs against an in-memory filesystem; the
index of the filesystem call at which the process dies (`crash_at`) and the number of units a dying
write() still gets onto the disk (`cut`) are symbolic, and so are the old and new contents.
"""
from twisted.persisted import sob as _sob
from twisted.python import filepath as _filepath

from vlib import api, fakefs
from vlib.api import H, cover
from vlib.fakefs import Crash, FakeFS, installed
from vlib.lift import b, t

PROPERTY = "C52"
LEVEL = "model_checking"
ENCODED = ["twisted.python.filepath:FilePath.setContent", "twisted.python.filepath:FilePath.temporarySibling",
           "twisted.python.filepath:FilePath.create", "twisted.python.filepath:FilePath.open",
           "twisted.python.filepath:_secureEnoughString",
           "twisted.persisted.sob:Persistent.save", "twisted.persisted.sob:Persistent._saveTemp",
           "twisted.persisted.sob:Persistent._getFilename", "twisted.persisted.sob:Persistent._getStyle"]
BOUNDS = {"quick": {"n": 2, "steps": 4}, "thorough": {"n": 3, "steps": 5}}
B = {}
BOUNDS_TEXT = ("old and new content: symbolic byte strings of length <= n (all 256 byte values); target existing "
               "or not; crash at every filesystem step 0..steps (more than any run makes) or no crash; torn "
               "write of every length 0..len(new); for Persistent.save additionally a left-over temporary "
               "file with arbitrary content and the three ways of naming the file (default, tag, filename); "
               "after the crash a second save on the rebooted disk must succeed")
OUTSIDE = ["contents longer than n bytes (the code never inspects content)",
           "Persistent.save with style='source' (aot) and the real pickler: the dump function is a stub that "
           "writes the given bytes with one write() call",
           "write-back caching: data reaching the disk after the rename that publishes it (no fsync in "
           "either function) -- the filesystem contract below is assumed",
           "Windows (non-atomic rename) branch of both functions"]
ASSUMPTIONS = ["fake filesystem contract: rename is atomic; a crashed write leaves a prefix of its data; data "
               "and directory operations become durable in program order; after the crash no further call of "
               "the dead process reaches the disk; validated against the real OS on a script of 70 calls on "
               "every run (vlib.fakefs.selftest)",
               "file objects are buffered as in CPython: write() fills a per-handle buffer that reaches the disk "
               "(one crash step, possibly torn) only at flush/close/seek/truncate/read or when a write no longer "
               "fits (a write larger than the buffer goes straight through); a crash loses unflushed buffers; the "
               "buffer size is scaled down to 1 byte so that both behaviours are inside the content bound; "
               "validated against real file objects on every run",
               "os.urandom is deterministic (successive temporary names differ)",
               "under the solver file contents are LBytes over symbolic text (only concatenated, measured and "
               "sliced by the filesystem model); in replay they are real bytes"]
EXPLANATION = ("real setContent / Persistent.save on a fake filesystem with symbolic crash step, torn-write "
               "length and contents; the disk after the crash is compared with old and new")


BUFSIZE = 1      # scaled-down file buffer: 0..1 byte contents stay buffered until close, longer ones do not


def selftest():
    return fakefs.selftest()


def _fs():
    fs = FakeFS(empty=b(""))
    fs.bufsize = BUFSIZE
    fs.dirs.add("/d")
    return fs


def _txt(x):
    return None if x is None else t(x)


def _is_temp_of(name, target, ext):
    """a temporarySibling of `target`: <16 chars><basename><ext>"""
    return name != target and name.endswith(target + ext) and len(name) == 16 + len(target) + len(ext)


def setcontent(old: str, new: str, exists: bool, crash_at: int, cut: int) -> bool:
    """
    pre: len(old) <= B['n'] and len(new) <= B['n']
    pre: all(ord(c) < 256 for c in old) and all(ord(c) < 256 for c in new)
    pre: -1 <= crash_at <= B['steps'] and 0 <= cut <= len(new)
    post: _
    """
    fs = _fs()
    if exists:
        fs.put("/d/t", b(old))
    before = old if exists else None
    with installed(fs, _filepath):
        fs.arm(crash_at, cut)
        try:
            _filepath.FilePath("/d/t").setContent(b(new))
        except Crash:
            pass
        crashed = fs.crashed
        steps = fs.steps
        fs.reboot()
        got = _txt(fs.get("/d/t"))
        names = fs.ls("/d")
        cover()
        if crashed:
            cover("crashed")
            if steps == 2:
                cover("torn")
            if got != before and got != new:
                return False
            for n in names:
                if n != "t" and not _is_temp_of(n, "t", ".new"):
                    return False
        else:
            if got != new or names != ["t"]:
                return False
        # the left-overs of a crash never block the next replacement
        _filepath.FilePath("/d/t").setContent(b(old), ext=".tmp")
        if _txt(fs.get("/d/t")) != old:
            return False
    return True


class _Pickle:
    """stands in for the `pickle` module inside sob: dump writes the given payload"""
    @staticmethod
    def dump(obj, file, protocol=None):
        file.write(obj)


_VARIANTS = [(None, None, "/d/app.tap", "/d/app-2.tap"), ("x", None, "/d/app-x.tap", "/d/app-x-2.tap"),
             (None, "/d/f", "/d/f", "/d/f-2")]


def sob_save(old: str, new: str, junk: str, exists: bool, has_junk: bool, variant: int, crash_at: int,
             cut: int) -> bool:
    """
    pre: len(old) <= B['n'] and len(new) <= B['n'] and len(junk) <= 1
    pre: all(ord(c) < 256 for c in old) and all(ord(c) < 256 for c in new) and all(ord(c) < 256 for c in junk)
    pre: 0 <= variant <= 2
    pre: -1 <= crash_at <= B['steps'] and 0 <= cut <= len(new)
    post: _
    """
    tag, filename, final, temp = _VARIANTS[variant]
    fs = _fs()
    if exists:
        fs.put(final, b(old))
    if has_junk:
        fs.put(temp, b(junk))
    before = old if exists else None
    with installed(fs, _sob, extra={_sob: {"pickle": _Pickle}}):
        fs.arm(crash_at, cut)
        try:
            _sob.Persistent(b(new), "/d/app").save(tag=tag, filename=filename)
        except Crash:
            pass
        crashed = fs.crashed
        fs.reboot()
        got = _txt(fs.get(final))
        names = ["/d/" + n for n in fs.ls("/d")]
        cover()
        if crashed:
            cover("crashed")
            if got != before and got != new:
                return False
            for n in names:
                if n != final and n != temp:
                    return False
        else:
            if got != new or names != [final]:
                return False
        _sob.Persistent(b(old), "/d/app").save(tag=tag, filename=filename)
        if _txt(fs.get(final)) != old or fs.ls("/d") != [final[3:]]:
            return False
    return True


HARNESSES = [
    H(setcontent, shards=[("exists == True",), ("exists == False",)],
      labels=("end", "crashed", "torn"), timeout={"quick": 150, "thorough": 600}),
    H(sob_save, shards=lambda tier: [("variant == %d" % v, "exists == %r" % e) for v in range(3) for e in (True, False)],
      labels=("end", "crashed"), timeout={"quick": 150, "thorough": 600}),
]

VECTORS = {
    "setcontent": [("old", "new", True, -1, 0), ("old", "new", True, 1, 2), ("", "xyz", False, 2, 0),
                   ("ab", "", True, 0, 0), ("ab", "cd", True, 4, 0)],
    "sob_save": [("old", "new", "j", True, True, 0, -1, 0), ("old", "new", "", False, True, 1, 1, 1),
                 ("o", "n", "j", True, False, 2, 2, 0), ("o", "n", "j", True, True, 0, 0, 0)],
}
