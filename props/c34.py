"""C34 RFC 1982 serial number arithmetic (twisted.names._rfc1982.SerialNumber).

Engine E6 (vlib/smt.py): the bodies of SerialNumber.__init__/_convertOther/__eq__/__lt__/__gt__/__le__/
__ge__/__add__/__int__ are read from /repo's current source (inspect.getsource + ast) on every run and
symbolically interpreted into integer terms, once for z3 and once for cvc5.  The obligations are the
plain Python functions `ob_*` below: they are translated by the same interpreter (calling the
translated class), negated, and both solvers must answer unsat.  The very same `ob_*` functions run
concretely on the REAL class in replay (`replay_cmp` / `replay_add`) and symbolically under CrossHair
(E1, second engine, `xh_cmp` / `xh_add`).

Width: (i) every concrete serialBits in 1..16 (quick) / 1..64 (thorough); (ii) ALL widths at once:
serialBits is a symbolic integer >= 1 and `2 ** (serialBits - 1)` is abstracted to an arbitrary
integer H >= 1, `2 ** serialBits` to 2H (sound for every width: H ranges over a superset of the powers
of two).  a, b, n are unbounded mathematical integers throughout.
"""
import ast
import inspect
import textwrap
import time

from twisted.names._rfc1982 import SerialNumber

from vlib import api
from vlib.api import H as Harness, cover

PROPERTY = "C34"
LEVEL = "proof"
_M = "twisted.names._rfc1982:SerialNumber."
ENCODED = [_M + m for m in ("__init__", "_convertOther", "__eq__", "__ne__", "__lt__", "__gt__", "__le__", "__ge__",
                            "__add__", "__int__")]
BOUNDS = {"quick": {"maxbits": 16}, "thorough": {"maxbits": 64}}
B = {}
BOUNDS_TEXT = ("SMT: unbounded integer a, b, n; every serialBits in 1..maxbits concretely AND all serialBits >= 1 "
               "at once (2**(serialBits-1) abstracted to any integer H >= 1); the real constructor is executed for "
               "every width 1..64 and its three constants compared with 2**bits, 2**(bits-1), 2**(bits-1)-1; "
               "CrossHair: serialBits in {1,2,3,8,55,63,64}, a, b, n any integer")
OUTSIDE = ["serialBits <= 0 (2 ** (serialBits - 1) is then a float) and non-integer operands",
           "operands of different serialBits / non-SerialNumber operands (TypeError / NotImplemented paths)",
           "__str__, __hash__, RFC 4034 date conversion",
           "CPython's big-integer arithmetic is taken to implement mathematical integers"]
ASSUMPTIONS = ["the proof is of the terms produced by vlib/smt.py from the current method sources; the "
               "translation is validated on every run against the real class on all operand pairs "
               "(including out-of-range operands) for widths 1..5, and z3 and cvc5 build and decide their "
               "terms independently"]
EXPLANATION = ("method ASTs of the real SerialNumber translated to integer terms; RFC 1982 obligations negated "
               "and found unsat by z3 and cvc5 for each width and for all widths at once")


# ---- the obligations: plain Python over the class (translated for SMT, executed for replay/E1) ------

def ob_trichotomy(a, b, bits):
    if not (0 <= a < 2 ** bits and 0 <= b < 2 ** bits):
        return True
    if abs(a - b) == 2 ** (bits - 1):
        return True
    x = SerialNumber(a, bits)
    y = SerialNumber(b, bits)
    lt = x < y
    eq = x == y
    gt = x > y
    return (lt and not eq and not gt) or (eq and not lt and not gt) or (gt and not lt and not eq)


def ob_halfring(a, b, bits):
    if not (0 <= a < 2 ** bits and 0 <= b < 2 ** bits):
        return True
    if abs(a - b) != 2 ** (bits - 1):
        return True
    x = SerialNumber(a, bits)
    y = SerialNumber(b, bits)
    return not (x < y) and not (x > y) and not (x == y)


def ob_eq(a, b, bits):
    if not (0 <= a < 2 ** bits and 0 <= b < 2 ** bits):
        return True
    x = SerialNumber(a, bits)
    y = SerialNumber(b, bits)
    return (x == y) == (a == b)


def ob_converse(a, b, bits):
    if not (0 <= a < 2 ** bits and 0 <= b < 2 ** bits):
        return True
    x = SerialNumber(a, bits)
    y = SerialNumber(b, bits)
    return (x < y) == (y > x)


def ob_le(a, b, bits):
    if not (0 <= a < 2 ** bits and 0 <= b < 2 ** bits):
        return True
    x = SerialNumber(a, bits)
    y = SerialNumber(b, bits)
    return (x <= y) == ((x < y) or (x == y))


def ob_ge(a, b, bits):
    if not (0 <= a < 2 ** bits and 0 <= b < 2 ** bits):
        return True
    x = SerialNumber(a, bits)
    y = SerialNumber(b, bits)
    return (x >= y) == ((x > y) or (x == y))


def ob_add_value(a, n, bits):
    if not (0 <= a < 2 ** bits and 0 <= n <= 2 ** (bits - 1) - 1):
        return True
    s = SerialNumber(a, bits)
    r = s + SerialNumber(n, bits)
    want = (a + n) % 2 ** bits
    return r.__int__() == want and r == SerialNumber(want, bits)


def ob_add_greater(a, n, bits):
    if not (0 <= a < 2 ** bits and 0 < n <= 2 ** (bits - 1) - 1):
        return True
    s = SerialNumber(a, bits)
    r = s + SerialNumber(n, bits)
    return (r > s) and (s < r) and not (r == s)


def ob_add_refused(a, n, bits):
    if not (0 <= a < 2 ** bits and 2 ** (bits - 1) - 1 < n < 2 ** bits):
        return True
    s = SerialNumber(a, bits)
    try:
        s + SerialNumber(n, bits)
    except ArithmeticError:
        return True
    return False


def ob_ne(a, b, bits):
    if not (0 <= a < 2 ** bits and 0 <= b < 2 ** bits):
        return True
    x = SerialNumber(a, bits)
    y = SerialNumber(b, bits)
    ne = x != y
    if abs(a - b) == 2 ** (bits - 1) and not ne:
        return False        # half the ring apart: not equal, and `!=` says so
    return ne == (not (x == y)) and ne == (a != b)


CMP_OBS = [ob_trichotomy, ob_halfring, ob_eq, ob_ne, ob_converse, ob_le, ob_ge]
ADD_OBS = [ob_add_value, ob_add_greater, ob_add_refused]


def replay_cmp(bits, a, b):
    """every comparison obligation, concretely, on the real class"""
    for ob in CMP_OBS:
        if ob(a, b, bits) is not True:
            return False
    return True


def replay_add(bits, a, n):
    for ob in ADD_OBS:
        if ob(a, n, bits) is not True:
            return False
    return True


# ---- probes used to validate the translation against the real class ---------------------------------

def pr_lt(a, b, bits):
    return SerialNumber(a, bits) < SerialNumber(b, bits)


def pr_gt(a, b, bits):
    return SerialNumber(a, bits) > SerialNumber(b, bits)


def pr_eq(a, b, bits):
    return SerialNumber(a, bits) == SerialNumber(b, bits)


def pr_le(a, b, bits):
    return SerialNumber(a, bits) <= SerialNumber(b, bits)


def pr_ge(a, b, bits):
    return SerialNumber(a, bits) >= SerialNumber(b, bits)


def pr_add(a, b, bits):
    return (SerialNumber(a, bits) + SerialNumber(b, bits)).__int__()


def pr_ne(a, b, bits):
    return SerialNumber(a, bits) != SerialNumber(b, bits)


PROBES = [pr_lt, pr_gt, pr_eq, pr_ne, pr_le, pr_ge, pr_add]


# ---- E6 driver -------------------------------------------------------------------------------------

def _shape_check():
    """the three constructor expressions have exactly the shape the all-widths abstraction is stated for"""
    src = textwrap.dedent(inspect.getsource(SerialNumber.__init__))
    fn = ast.parse(src).body[0]
    want = {"_modulo": "2**serialBits", "_halfRing": "2**(serialBits-1)", "_maxAdd": "2**(serialBits-1)-1"}
    got = {}
    for st in fn.body:
        tgt = None
        if isinstance(st, ast.Assign) and len(st.targets) == 1:
            tgt = st.targets[0]
        elif isinstance(st, ast.AnnAssign):
            tgt = st.target
        if isinstance(tgt, ast.Attribute) and isinstance(tgt.value, ast.Name) and tgt.value.id == "self":
            got[tgt.attr] = ast.dump(st.value)
    bad = [k for k, e in want.items() if got.get(k) != ast.dump(ast.parse(e, mode="eval").body)]
    return bad


_DEFAULT_NE = """
def __ne__(self, other):
    r = self.__eq__(other)
    if r is NotImplemented:
        return NotImplemented
    return not r
"""


def _ne_source():
    """which `!=` the CURRENT class has: 'class' (SerialNumber defines __ne__: its source is translated),
    'default' (nobody below object defines it: Python's object.__ne__, i.e. the inverse of __eq__ unless
    that is NotImplemented) or 'base:<name>' (inherited from an untranslated base: `!=` is untranslatable)"""
    for k in SerialNumber.__mro__:
        if k is object:
            return "default"
        if "__ne__" in vars(k):
            return "class" if k is SerialNumber else "base:" + k.__name__
    return "default"


def _globs(smt):
    cls = smt.PyClass(SerialNumber)
    if _ne_source() == "default":
        cls.methods["__ne__"] = ast.parse(_DEFAULT_NE).body[0]
    elif _ne_source() != "class":
        cls.methods.pop("__ne__", None)
    g = {"SerialNumber": cls}
    for f in CMP_OBS + ADD_OBS + PROBES:
        g[f.__name__] = smt.PyFunc(f)
    return g


FALLBACK = set()      # (attribute, reason): constructor assignments taken from the REAL constructor


def _attr_hook(tr, obj, attr, env, why):
    """`self.<attr> = <untranslatable expression>` in SerialNumber.__init__ (floats, '/', ...): for a
    concrete width use the value the REAL constructor computes, provided it does not depend on `number`"""
    bits = env.get("serialBits")
    if obj.cls.name != "SerialNumber" or isinstance(bits, bool) or not isinstance(bits, int) or bits < 1:
        return None
    vals = []
    for num in (0, 1, 2 ** bits - 1):
        try:
            vals.append(getattr(SerialNumber(num, bits), attr))
        except Exception:  # noqa
            return None
    v = vals[0]
    if isinstance(v, bool) or not isinstance(v, int) or any(x != v or type(x) is not int for x in vals):
        return None
    FALLBACK.add((attr, why))
    return v


def _mk(smt, z, allwidths):
    """translator + variables for one back end"""
    a, b = z.Int("a"), z.Int("b")
    if not allwidths:
        return smt.Translator(z, _globs(smt), attr_hook=_attr_hook), a, b, None, None, []
    bits, half = z.Int("bits"), z.Int("H")

    def hook(tr, base, exp):
        if tr.const(base) != 2:
            return None
        d = tr.const(exp - bits)
        if d == 0:
            return 2 * half
        if d == -1:
            return half
        return None
    return smt.Translator(z, _globs(smt), pow_hook=hook), a, b, bits, half, [bits >= 1, half >= 1]


def _code_term(tr, z, outs):
    """one Int term for a probe/obligation result: bool -> 0/1, int -> 10+v (v >= 0), raise -> -(2+k),
    untranslatable construct -> -1000"""
    names = []
    term = z.IntVal(-1)
    for o in reversed(outs):
        if o.kind == "return" and (isinstance(o.val, bool) or tr.is_boolterm(o.val)):
            v = tr.asint(o.val)
            v = z.IntVal(v) if isinstance(v, int) else v
        elif o.kind == "return" and tr.is_intlike(o.val):
            v = 10 + o.val
            v = z.IntVal(v) if isinstance(v, int) else v
        elif o.kind == "raise":
            if o.val not in names:
                names.append(o.val)
            v = z.IntVal(-(2 + names.index(o.val)))
        elif o.kind == "unsupported":
            v = z.IntVal(-1000)
        else:
            v = z.IntVal(-1)      # NotImplemented / object
        term = z.If(tr.conj(o.pc), v, term)
    return term, names


def _real_code(fn, a, b, bits, names):
    try:
        r = fn(a, b, bits)
    except Exception as e:  # noqa
        n = type(e).__name__
        return -(2 + names.index(n)) if n in names else ("raised " + n)
    if isinstance(r, bool):
        return int(r)
    if isinstance(r, int):
        return 10 + r
    return -1


def _validate(smt, z, widths, margin, untranslatable):
    """translated terms vs the real class on every operand pair of the given widths.  A function whose
    translation runs into an unsupported construct on a concrete input is recorded in `untranslatable`
    (its obligations become 'unknown'); any other disagreement is a translator error."""
    n = 0
    for w in widths:
        tr, a, b, _, _, _ = _mk(smt, z, False)
        for fn in PROBES + CMP_OBS + ADD_OBS:
            if fn.__name__ in untranslatable:
                continue
            term, names = _code_term(tr, z, tr.run(fn.__name__, [a, b, w]))
            rng = range(-margin, 2 ** w + margin)
            for ia in rng:
                if fn.__name__ in untranslatable:
                    break
                ta = z.substitute(term, (a, z.IntVal(ia)))
                for ib in rng:
                    got = z.simplify(z.substitute(ta, (b, z.IntVal(ib))))
                    if z.is_int_value(got) and got.as_long() == -1000:
                        untranslatable[fn.__name__] = "bits=%d a=%d b=%d" % (w, ia, ib)
                        break
                    want = _real_code(fn, ia, ib, w, names)
                    if not z.is_int_value(got) or got.as_long() != want:
                        return n, "%s(%d, %d, bits=%d): translated term gives %s, real class gives %s" % (
                            fn.__name__, ia, ib, w, got, want)
                    n += 1
    return n, None


def replay_consts(bits):
    """the three ring constants the REAL constructor computes for this width"""
    s = SerialNumber(0, bits)
    return (s._modulo == 2 ** bits and s._halfRing == 2 ** (bits - 1) and s._maxAdd == 2 ** (bits - 1) - 1
            and type(s._halfRing) is int and type(s._maxAdd) is int and type(s._modulo) is int)


def _check_constants(maxw):
    """execute the real constructor for every width; -> (number checked, [bad widths], cex or None)"""
    bad = []
    for w in range(1, maxw + 1):
        try:
            ok = replay_consts(w)
        except Exception:  # noqa
            ok = False
        if not ok:
            bad.append(w)
    if not bad:
        return maxw, bad, None
    # a behavioural witness on the real class at a boundary value, smallest width first
    for w in bad:
        h = 2 ** (w - 1)
        for n in (h, h - 1, h + 1, 1, 2 ** w - 1):
            for a in (0, 1, h, 2 ** w - 1):
                try:
                    ok = replay_add(w, a, n)
                except Exception:  # noqa
                    ok = False
                if not ok:
                    return maxw, bad, ("replay_add", {"bits": w, "a": a, "n": n})
        for b in (h, h - 1, h + 1, 0, 1):
            for a in (0, 1, h):
                try:
                    ok = replay_cmp(w, a, b)
                except Exception:  # noqa
                    ok = False
                if not ok:
                    return maxw, bad, ("replay_cmp", {"bits": w, "a": a, "b": b})
    return maxw, bad, ("replay_consts", {"bits": bad[0]})


def smt_proof(tier):
    import z3
    import cvc5.pythonic as cv
    from vlib import smt
    t0 = time.time()
    res = {"status": "unknown", "obligations": 0, "discharged": 0, "queries": 0, "samples": []}
    maxbits = BOUNDS[tier]["maxbits"]
    shape_bad = _shape_check()
    res["samples"].append({"constructor_shape_check": "ok" if not shape_bad else "differs: %s" % shape_bad,
                           "ne_operator_translated_from": _ne_source()})

    # (1) the constants of the REAL constructor, executed for every width 1..max(64, maxbits)
    nconst, bad_widths, const_cex = _check_constants(max(64, maxbits))
    res["constants_checked_widths"] = nconst
    res["samples"].append({"real_constructor_constants": "ok for bits 1..%d" % nconst if not bad_widths
                           else "WRONG for bits %s" % (bad_widths[:12],)})

    # (2) translator validation (every run); untranslatable constructs degrade to 'unknown'
    untranslatable = {}
    nval, err = _validate(smt, z3, range(1, 6), 2, untranslatable)
    if err is None:
        n2, err = _validate(smt, cv, range(1, 3), 1, untranslatable)
        nval += n2
    res["validation_cases"] = nval
    res["samples"].append({"translator_validation_cases": nval})
    if err is not None and const_cex is None:
        res["status"] = "error"
        res["error"] = "translator validation failed: " + err
        return res

    solver_time = 0.0
    failures = []       # (encoding, obligation, verdicts, cex or None)
    encodings = [("bits=%d" % w, w) for w in range(1, maxbits + 1)] + [("all widths", None)]
    allw = "proved"
    for label, w in encodings:
        for ob in CMP_OBS + ADD_OBS:
            res["obligations"] += 1
            verdicts = {}
            cex = None
            for zname, z in (("z3", z3), ("cvc5", cv)):
                if err is not None or ob.__name__ in untranslatable:
                    verdicts[zname] = "unknown: untranslatable (%s)" % (err or untranslatable[ob.__name__])
                    continue
                tr, a, b, bits, half, assume = _mk(smt, z, w is None)
                try:
                    outs = tr.run(ob.__name__, [a, b, w if w is not None else bits])
                    viol = tr.violation(outs)
                    unsup, why = tr.unsupported(outs)
                except smt.Unsupported as e:
                    verdicts[zname] = "unknown: untranslatable (%s)" % e
                    continue
                s0 = time.time()
                if unsup is not None:
                    vu, _m = smt.check(z, assume + [unsup])
                    res["queries"] += 1
                    if vu != "unsat":
                        # a reachable path runs through code the translator cannot model: no verdict
                        verdicts[zname] = "unknown: untranslatable (%s)" % "; ".join(why)[:300]
                        solver_time += time.time() - s0
                        continue
                v, model = smt.check(z, assume + [viol])
                res["queries"] += 1
                if v == "sat" and w is None:
                    # realise the abstract H as a power of two (else the model may be an artefact)
                    link = z.Or(*[z.And(half == 2 ** k, bits == k + 1) for k in range(0, 64)])
                    v2, model2 = smt.check(z, assume + [viol, link])
                    res["queries"] += 1
                    if v2 == "sat":
                        cex = cex or {"bits": smt.model_int(z, model2, bits), "a": smt.model_int(z, model2, a),
                                      "b": smt.model_int(z, model2, b)}
                    else:
                        v = "sat (H=%s not realisable as 2**k, k<64: %s)" % (smt.model_int(z, model, half), v2)
                elif v == "sat":
                    cex = cex or {"bits": w, "a": smt.model_int(z, model, a), "b": smt.model_int(z, model, b)}
                solver_time += time.time() - s0
                verdicts[zname] = v
            if all(v == "unsat" for v in verdicts.values()) and len(verdicts) == 2:
                res["discharged"] += 1
            else:
                failures.append((label, ob, verdicts, cex))
                if w is None:
                    allw = "unknown" if all(str(v).startswith("unknown") for v in verdicts.values()) else "failed"
            if label in ("bits=1", "bits=%d" % maxbits, "all widths") and ob in (ob_trichotomy, ob_add_value):
                res["samples"].append({"encoding": label, "obligation": ob.__name__, "verdicts": verdicts})
    res["solver_time_s"] = round(solver_time, 2)
    res["wall_custom_s"] = round(time.time() - t0, 2)
    res["all_widths_encoding"] = allw
    res["constructor_values_taken_from_real_code"] = sorted("%s (%s)" % f for f in FALLBACK)
    res["samples"].append({"all_widths_encoding": allw,
                           "constructor_values_taken_from_real_code": res["constructor_values_taken_from_real_code"][:4]})
    res["samples"] = res["samples"][:3] + res["samples"][-2:] + res["samples"][3:-2]
    if failures:
        res["failures"] = [{"encoding": l, "obligation": o.__name__, "verdicts": v, "cex": c}
                           for l, o, v, c in failures][:20]
    with_cex = [f for f in failures if f[3] is not None]
    if with_cex:
        # prefer the smallest width (the most readable counterexample)
        label, ob, verdicts, cex = min(with_cex, key=lambda f: (f[3]["bits"], abs(f[3]["a"]) + abs(f[3]["b"])))
        res["status"] = "refuted"
        if ob in CMP_OBS:
            res["replay_harness"] = "replay_cmp"
            res["cex"] = {"bits": cex["bits"], "a": cex["a"], "b": cex["b"]}
        else:
            res["replay_harness"] = "replay_add"
            res["cex"] = {"bits": cex["bits"], "a": cex["a"], "n": cex["b"]}
        res["refuted_obligation"] = "%s [%s] %s" % (ob.__name__, label, verdicts)
    elif const_cex is not None:
        res["status"] = "refuted"
        res["replay_harness"], res["cex"] = const_cex
        res["refuted_obligation"] = "real constructor constants wrong for bits %s" % (bad_widths[:12],)
    elif not failures:
        res["status"] = "confirmed"
    else:
        res["status"] = "unknown"
    return res


smt_proof.wall = {"quick": 300, "thorough": 1800}
CUSTOM = [smt_proof]


# ---- E1: the same obligations executed by CrossHair on the real class --------------------------------

XH_BITS = (1, 2, 3, 8, 55, 63, 64)


def _conc_bits(bits):
    for k in XH_BITS:
        if bits == k:
            return k
    return 8


def xh_cmp(bits: int, a: int, b: int) -> bool:
    """
    pre: bits in XH_BITS
    post: _
    """
    k = _conc_bits(bits)
    if 0 <= a < 2 ** k and 0 <= b < 2 ** k:
        cover()
    return replay_cmp(k, a, b)


def xh_add(bits: int, a: int, n: int) -> bool:
    """
    pre: bits in XH_BITS
    post: _
    """
    k = _conc_bits(bits)
    if 0 <= a < 2 ** k and 0 <= n < 2 ** k:
        cover()
    return replay_add(k, a, n)


def xh_consts(bits: int) -> bool:
    """
    pre: 1 <= bits <= 64
    post: _
    """
    k = 64
    for w in range(1, 65):
        if bits == w:
            k = w
            break
    cover()
    return replay_consts(k)


_SH = [("bits == %d" % k,) for k in XH_BITS]
HARNESSES = [Harness(xh_cmp, shards=_SH, timeout={"quick": 60, "thorough": 300}),
             Harness(xh_add, shards=_SH, timeout={"quick": 60, "thorough": 300}),
             Harness(xh_consts, timeout={"quick": 60, "thorough": 300})]

# vectors from twisted/names/test/test_rfc1982.py (SerialNumber2BitTests / 32 bit cases, scaled)
VECTORS = {
    "xh_cmp": [(2, 0, 1), (2, 0, 2), (2, 3, 0), (2, 1, 3), (8, 0, 128), (8, 255, 0), (8, 200, 72), (1, 0, 1),
               (3, 7, 3), (64, 0, 2 ** 63), (64, 2 ** 64 - 1, 0), (55, 5, 2 ** 54 + 5), (63, 1, 2 ** 62)],
    "xh_add": [(2, 3, 1), (2, 0, 2), (2, 1, 0), (8, 255, 127), (8, 1, 128), (1, 1, 0), (1, 0, 1), (3, 6, 3),
               (64, 2 ** 64 - 1, 2 ** 63 - 1), (64, 7, 12345), (55, 0, 2 ** 54 - 1), (63, 2 ** 62, 2 ** 62 - 1)],
    "xh_consts": [(1,), (32,), (55,), (64,)],
}
