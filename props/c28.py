"""C28 template escaping: text, attribute values, comments and CDATA content written by the flattener
can never open, close or alter markup.

Engine E2: twisted.web._flatten is recompiled from /repo's source onto LBytes (bytes literals, the
bytes/BytesIO names and every `x.encode(...)` call become shims that keep ASCII text symbolic); the
escaping functions and flatten() (two fixed tree shapes) run on symbolic leaves.  The oracle is
a reference tokenizer written here from the WHATWG HTML tokenization spec (data, tag, attribute and
all comment states) plus the XML 1.0 rules for the end of comments and CDATA sections.
"""
from vlib import api, lbytes, lift
from vlib.api import H, cover
from vlib.lift import b, t

from twisted.python.compat import nativeString as _real_native
from twisted.web import _flatten as _real_flatten
from twisted.web._stan import CDATA, Comment, Tag, slot

PROPERTY = "C28"
LEVEL = "model_checking"
ENCODED = ["twisted.web._flatten:escapeForContent", "twisted.web._flatten:attributeEscapingDoneOutside",
           "twisted.web._flatten:writeWithAttributeEscaping", "twisted.web._flatten:escapedCDATA",
           "twisted.web._flatten:escapedComment", "twisted.web._flatten:_flattenElement",
           "twisted.web._flatten:_flattenTree", "twisted.web._flatten:flatten"]
BOUNDS = {"quick": {"nt": 4, "n": 4, "nc": 6, "ns": 6, "m": 3}, "thorough": {"nt": 6, "n": 5, "nc": 8, "ns": 7, "m": 4}}
B = {}
BOUNDS_TEXT = ("flatten() of a single text child / attribute value (<= n-1 chars), Comment (<= n) and CDATA (<= ns) "
               "with the module constant BUFFER_SIZE set to 1, 2 and 3; leaf functions: escapeForContent on <= nt "
               "characters, attribute escaping and escapedComment on <= n, escapedCDATA on <= nc, each given as str "
               "(code points < 128) and as bytes (all 256 values); thorough tier: nt=6, n=5, nc=8, ns=7, m=4 (attribute / "
               "comment content of 6 and trees of 5 characters were measured at > 20000 CPU s and cut); trees <p b=Y>{slot X}</p> and <div><!--X--><a href={<i>Y</i>}></a></div> with "
               "len(X) + len(Y) <= m")
OUTSIDE = ["the real BUFFER_SIZE of 65536: per-buffer processing in the flattener (flushing, and any escaping or "
           "writing of a leaf in BUFFER_SIZE slices) is exercised with the constant scaled to 1, 2, 3 (harness "
           "`sliced`: every slice offset of a short leaf, both sides of each boundary) and 0 (tree harnesses: one "
           "delivery per write); leaves longer than 64 KiB with the unscaled constant are not run",
           "non-ASCII str content: its utf-8 encoding is done by C code (multi-byte utf-8 sequences contain no "
           "ASCII byte, so they cannot form a metacharacter; not re-checked here)",
           "XML well-formedness beyond tokenization: '--' inside a comment, characters XML forbids (controls, "
           "U+0000), attribute-value whitespace normalisation by XML parsers",
           "HTML input-stream preprocessing (CR/CRLF -> LF, U+0000 -> U+FFFD) and the raw-text / RCDATA elements "
           "(script, style, textarea, title) where an HTML parser does not decode entities",
           "CDATA sections read by an HTML parser (in HTML content '<![CDATA[' is a bogus comment; CDATA is only "
           "checked with the XML rule)",
           "html5lib / XML library oracles (the reference tokenizer here is hand-written from the specs)",
           "Deferreds, coroutines, renderers and element trees other than the two shapes; tag and attribute names "
           "are fixed valid names"]
ASSUMPTIONS = ["the flattener's behaviour depends on BUFFER_SIZE only through comparisons and slicing with that "
               "constant, so scaling it to 1..3 exposes the same code at small sizes (replay sets the same value "
               "on the real module)",
               "LBytes reproduces bytes semantics for replace/startswith/slicing/join (vlib.lbytes.selftest) and the "
               "lifted module agrees with the real one on the vectors below (results and observations compared)"]
EXPLANATION = ("lifted real escaping functions and flatten() on symbolic content; output re-tokenized by a "
               "reference HTML5/XML tokenizer and compared with the input")


def _native(s):
    if isinstance(s, lbytes.LBytes):
        return s.decode("ascii")
    return _real_native(s)


L = lift.lift("twisted.web._flatten", names=None, encode_calls=True, overrides={"nativeString": _native})

# ---- reference tokenizer (WHATWG HTML, section 13.2.5; subset of states, no tree construction) -----

_WS = "\t\n\x0c "
_REFS = (("&amp;", "&"), ("&lt;", "<"), ("&gt;", ">"), ("&quot;", '"'))


def _alpha(c):
    return ("a" <= c <= "z") or ("A" <= c <= "Z")


def _lower(c):
    return chr(ord(c) + 32) if "A" <= c <= "Z" else c


def _chars(doc):
    """a document given as str or as a list of str pieces -> list of characters.  Its length and
    indexing are concrete on every path, and the characters of concrete pieces (the markup the
    flattener writes itself) stay plain python strings: only the escaped leaves are symbolic, so
    only comparisons on them reach the solver"""
    if isinstance(doc, str):
        doc = [doc]
    out = []
    for piece in doc:
        if lbytes._is_conc(piece):
            out.extend(piece)
        else:
            out.extend([ch for ch in piece])
    return out


def _at(doc, i, lit):
    """the character list doc continues at i with the literal lit"""
    if i + len(lit) > len(doc):
        return False
    for k in range(len(lit)):
        if doc[i + k] != lit[k]:
            return False
    return True


def _find(doc, lit, start):
    for j in range(start, len(doc) - len(lit) + 1):
        if _at(doc, j, lit):
            return j
    return -1


def _charref(doc, i):
    """doc[i] == '&': (decoded char, next index) for the references the flattener may emit; any other
    '&' -> None (the strict reading: an escaper never leaves a bare ampersand)"""
    for ref, ch in _REFS:
        if _at(doc, i, ref):
            return ch, i + len(ref)
    return None


def html_tokens(doc):
    """tokens: ("text", s) ("start", name, [(attr, value)...], selfclosing) ("end", name)
    ("comment", data) ("doctype",) ("err", what)"""
    doc = _chars(doc)
    toks = []
    text = []
    n = len(doc)
    i = 0
    state = "data"
    tag = None        # [kind, name chars, attrs, selfclosing]
    an = av = None    # current attribute name / value char lists
    com = None

    def flush():
        if text:
            toks.append(("text", "".join(text)))
            del text[:]

    def emit_tag():
        if tag[0] == "start":
            toks.append(("start", "".join(tag[1]), [("".join(a), "".join(v)) for a, v in tag[2]], tag[3]))
        else:
            toks.append(("end", "".join(tag[1])))

    while True:
        c = doc[i] if i < n else None
        if state == "data":
            if c is None:
                flush()
                return toks
            if c == "&":
                r = _charref(doc, i)
                if r is None:
                    flush()
                    toks.append(("err", "bare ampersand"))
                    i += 1
                else:
                    text.append(r[0])
                    i = r[1]
            elif c == "<":
                state = "tag open"
                i += 1
            else:
                text.append(c)
                i += 1
        elif state == "tag open":
            if c == "!":
                state = "markup declaration open"
                i += 1
            elif c == "/":
                state = "end tag open"
                i += 1
            elif c is not None and _alpha(c):
                flush()
                tag = ["start", [], [], False]
                state = "tag name"
            elif c == "?":
                flush()
                com = []
                state = "bogus comment"
            else:
                text.append("<")
                state = "data"
        elif state == "end tag open":
            if c is not None and _alpha(c):
                flush()
                tag = ["end", [], [], False]
                state = "tag name"
            elif c == ">":
                state = "data"
                i += 1
            elif c is None:
                text.append("</")
                state = "data"
            else:
                flush()
                com = []
                state = "bogus comment"
        elif state == "tag name":
            if c is None:
                return toks + [("err", "eof in tag")]
            if c in _WS:
                state = "before attribute name"
            elif c == "/":
                state = "self-closing start tag"
            elif c == ">":
                emit_tag()
                state = "data"
            else:
                tag[1].append(_lower(c))
            i += 1
        elif state == "before attribute name":
            if c is not None and c in _WS:
                i += 1
            elif c is None or c == "/" or c == ">":
                state = "after attribute name"
            else:
                an, av = [], []
                tag[2].append((an, av))
                if c == "=":
                    an.append(c)
                    i += 1
                state = "attribute name"
        elif state == "attribute name":
            if c is None or c in _WS or c == "/" or c == ">":
                state = "after attribute name"
            elif c == "=":
                state = "before attribute value"
                i += 1
            else:
                an.append(_lower(c))
                i += 1
        elif state == "after attribute name":
            if c is None:
                return toks + [("err", "eof in tag")]
            if c in _WS:
                i += 1
            elif c == "/":
                state = "self-closing start tag"
                i += 1
            elif c == "=":
                state = "before attribute value"
                i += 1
            elif c == ">":
                emit_tag()
                state = "data"
                i += 1
            else:
                an, av = [], []
                tag[2].append((an, av))
                state = "attribute name"
        elif state == "before attribute value":
            if c is not None and c in _WS:
                i += 1
            elif c == '"':
                state = "attribute value (double-quoted)"
                i += 1
            elif c == "'":
                state = "attribute value (single-quoted)"
                i += 1
            elif c == ">":
                emit_tag()
                state = "data"
                i += 1
            else:
                state = "attribute value (unquoted)"
        elif state == "attribute value (double-quoted)" or state == "attribute value (single-quoted)":
            q = '"' if state == "attribute value (double-quoted)" else "'"
            if c is None:
                return toks + [("err", "eof in tag")]
            if c == q:
                state = "after attribute value (quoted)"
                i += 1
            elif c == "&":
                r = _charref(doc, i)
                if r is None:
                    toks.append(("err", "bare ampersand"))
                    av.append(c)
                    i += 1
                else:
                    av.append(r[0])
                    i = r[1]
            else:
                av.append(c)
                i += 1
        elif state == "attribute value (unquoted)":
            if c is None:
                return toks + [("err", "eof in tag")]
            if c in _WS:
                state = "before attribute name"
                i += 1
            elif c == ">":
                emit_tag()
                state = "data"
                i += 1
            elif c == "&":
                r = _charref(doc, i)
                if r is None:
                    toks.append(("err", "bare ampersand"))
                    av.append(c)
                    i += 1
                else:
                    av.append(r[0])
                    i = r[1]
            else:
                av.append(c)
                i += 1
        elif state == "after attribute value (quoted)":
            if c is None:
                return toks + [("err", "eof in tag")]
            if c in _WS:
                state = "before attribute name"
                i += 1
            elif c == "/":
                state = "self-closing start tag"
                i += 1
            elif c == ">":
                emit_tag()
                state = "data"
                i += 1
            else:
                state = "before attribute name"
        elif state == "self-closing start tag":
            if c is None:
                return toks + [("err", "eof in tag")]
            if c == ">":
                tag[3] = True
                emit_tag()
                state = "data"
                i += 1
            else:
                state = "before attribute name"
        elif state == "bogus comment":
            if c is None or c == ">":
                toks.append(("comment", "".join(com)))
                state = "data"
                if c is not None:
                    i += 1
            else:
                com.append(c)
                i += 1
        elif state == "markup declaration open":
            flush()
            if _at(doc, i, "--"):
                com = []
                i += 2
                state = "comment start"
            elif i + 7 <= n and "".join([_lower(ch) for ch in doc[i:i + 7]]) == "doctype":
                j = _find(doc, ">", i)
                toks.append(("doctype",))
                i = n if j < 0 else j + 1
                state = "data"
            else:
                # includes '[CDATA[' in HTML content: a bogus comment
                com = []
                state = "bogus comment"
        elif state == "comment start":
            if c == "-":
                state = "comment start dash"
                i += 1
            elif c == ">":
                toks.append(("comment", "".join(com)))     # abrupt-closing-of-empty-comment
                state = "data"
                i += 1
            else:
                state = "comment"
        elif state == "comment start dash":
            if c == "-":
                state = "comment end"
                i += 1
            elif c == ">":
                toks.append(("comment", "".join(com)))     # abrupt-closing-of-empty-comment
                state = "data"
                i += 1
            elif c is None:
                toks.append(("comment", "".join(com)))
                return toks + [("err", "eof in comment")]
            else:
                com.append("-")
                state = "comment"
        elif state == "comment":
            if c is None:
                toks.append(("comment", "".join(com)))
                return toks + [("err", "eof in comment")]
            if c == "<":
                com.append(c)
                state = "comment less-than sign"
            elif c == "-":
                state = "comment end dash"
            else:
                com.append(c)
            i += 1
        elif state == "comment less-than sign":
            if c == "!":
                com.append(c)
                state = "comment less-than sign bang"
                i += 1
            elif c == "<":
                com.append(c)
                i += 1
            else:
                state = "comment"
        elif state == "comment less-than sign bang":
            if c == "-":
                state = "comment less-than sign bang dash"
                i += 1
            else:
                state = "comment"
        elif state == "comment less-than sign bang dash":
            if c == "-":
                state = "comment less-than sign bang dash dash"
                i += 1
            else:
                state = "comment end dash"
        elif state == "comment less-than sign bang dash dash":
            # '>' or EOF: fine; anything else is the nested-comment parse error; all reconsume
            state = "comment end"
        elif state == "comment end dash":
            if c == "-":
                state = "comment end"
                i += 1
            elif c is None:
                toks.append(("comment", "".join(com)))
                return toks + [("err", "eof in comment")]
            else:
                com.append("-")
                state = "comment"
        elif state == "comment end":
            if c == ">":
                toks.append(("comment", "".join(com)))
                state = "data"
                i += 1
            elif c == "!":
                state = "comment end bang"
                i += 1
            elif c == "-":
                com.append("-")
                i += 1
            elif c is None:
                toks.append(("comment", "".join(com)))
                return toks + [("err", "eof in comment")]
            else:
                com.append("--")
                state = "comment"
        elif state == "comment end bang":
            if c == "-":
                com.append("--!")
                state = "comment end dash"
                i += 1
            elif c == ">":
                toks.append(("comment", "".join(com)))     # incorrectly-closed-comment
                state = "data"
                i += 1
            elif c is None:
                toks.append(("comment", "".join(com)))
                return toks + [("err", "eof in comment")]
            else:
                com.append("--!")
                state = "comment"
        else:
            raise AssertionError(state)


def xml_cdata_text(doc):
    """XML 1.0 [18]-[21]: a CDATA section ends at the first ']]>'.  The whole of `doc` must be a
    sequence of CDATA sections; returns their concatenated character data, or None"""
    doc = _chars(doc)
    out = []
    pos = 0
    n = len(doc)
    while pos < n:
        if not _at(doc, pos, "<![CDATA["):
            return None
        j = _find(doc, "]]>", pos + 9)
        if j < 0:
            return None
        out.extend(doc[pos + 9:j])
        pos = j + 3
    return "".join(out)


# ---- harnesses ----------------------------------------------------------------------------------

def _in(x, asbytes):
    return b(x) if asbytes else x


def content(x: str, asbytes: bool) -> bool:
    """
    pre: len(x) <= B['nt'] and all(ord(c) < (256 if asbytes else 128) for c in x)
    post: _
    """
    esc = t(L.escapeForContent(_in(x, asbytes)))
    api.obs(esc)
    toks = html_tokens(["<p>", esc, "</p>"])
    cover()
    if len(x) == 0:
        return toks == [("start", "p", [], False), ("end", "p")]
    return toks == [("start", "p", [], False), ("text", x), ("end", "p")]


def attribute(x: str, asbytes: bool) -> bool:
    """
    pre: len(x) <= B['n'] and all(ord(c) < (256 if asbytes else 128) for c in x)
    post: _
    """
    out = []
    w = L.writeWithAttributeEscaping(out.append)
    w(L.attributeEscapingDoneOutside(_in(x, asbytes)))
    esc = [t(o) for o in out]
    api.obs(esc)
    toks = html_tokens(['<a b="'] + esc + ['">'])
    cover()
    return toks == [("start", "a", [("b", x)], False)]


def comment(x: str, asbytes: bool) -> bool:
    """
    pre: len(x) <= B['n'] and all(ord(c) < (256 if asbytes else 128) for c in x)
    post: _
    """
    esc = t(L.escapedComment(_in(x, asbytes)))
    api.obs(esc)
    toks = html_tokens(["<!--", esc, "-->"])
    cover()
    # HTML: exactly one comment token, ending at the final '-->', nothing before or after it
    if toks != [("comment", esc)]:
        return False
    # XML: the comment ends at the first '-->', and its text must not end in '-' ('--->' is not a
    # comment end in XML 1.0 [15]; escapedComment documents that it pads a trailing dash)
    if len(esc) > 0 and esc[len(esc) - 1] == "-":
        return False
    return (esc + "-->").find("-->") == len(esc)


def cdata(x: str, asbytes: bool) -> bool:
    """
    pre: len(x) <= B['nc'] and all(ord(c) < (256 if asbytes else 128) for c in x)
    post: _
    """
    esc = t(L.escapedCDATA(_in(x, asbytes)))
    api.obs(esc)
    got = xml_cdata_text(["<![CDATA[", esc, "]]>"])
    cover()
    return got is not None and got == x


if not L.__real__:
    # the flattener joins what it writes into one buffer before delivering it; with a zero buffer
    # size every write is delivered as its own piece (same bytes, same order), which keeps the
    # literal markup concrete for the tokenizer.  The replay world keeps the real 64 KiB buffer.
    L.__ns__["BUFFER_SIZE"] = 0


def _flat(root, bufsize=None):
    """flatten(root) -> list of text pieces in output order (None on error).  bufsize: value of the
    module constant BUFFER_SIZE for this call (lifted namespace, or the real module in replay)"""
    ns = _real_flatten.__dict__ if L.__real__ else L.__ns__
    saved = ns["BUFFER_SIZE"]
    if bufsize is not None:
        ns["BUFFER_SIZE"] = bufsize
    pieces = []
    res = []
    try:
        d = L.flatten(None, root, lambda bs: pieces.append(t(bs)))
        d.addCallbacks(lambda r: res.append(True), lambda f: res.append(False))
    finally:
        ns["BUFFER_SIZE"] = saved
    if res != [True]:
        return None
    return pieces


def tree_p(x: str, y: str) -> bool:
    """
    pre: len(x) + len(y) <= B['m'] and all(ord(c) < 128 for c in x + y)
    post: _
    """
    # <p b="Y">X</p>, X arriving through a slot
    root = Tag("p", attributes={"b": y}, children=[slot("s")]).fillSlots(s=x)
    doc = _flat(root)
    api.obs(None if doc is None else "".join(doc))
    cover()
    if doc is None:
        return False
    toks = html_tokens(doc)
    exp = [("start", "p", [("b", y)], False)] + ([("text", x)] if len(x) > 0 else []) + [("end", "p")]
    return toks == exp


def tree_div(x: str, y: str) -> bool:
    """
    pre: len(x) + len(y) <= B['m'] and all(ord(c) < 128 for c in x + y)
    post: _
    """
    # <div><!--X--><a href="{<i>Y</i>}"></a></div>: a comment, and an element inside an attribute
    root = Tag("div", children=[Comment(x), Tag("a", attributes={"href": Tag("i", children=[y])})])
    doc = _flat(root)
    api.obs(None if doc is None else "".join(doc))
    cover()
    if doc is None:
        return False
    toks = html_tokens(doc)
    if len(toks) != 5:
        return False
    if not (toks[0] == ("start", "div", [], False) and toks[1][0] == "comment" and toks[3] == ("end", "a")
            and toks[4] == ("end", "div")):
        return False
    st = toks[2]
    if not (st[0] == "start" and st[1] == "a" and len(st[2]) == 1 and st[2][0][0] == "href" and st[3] is False):
        return False
    # the attribute value is itself markup: <i>Y</i> with Y escaped for content
    inner = html_tokens(st[2][0][1])
    exp = [("start", "i", [], False)] + ([("text", y)] if len(y) > 0 else []) + [("end", "i")]
    return inner == exp


# case split on the first character(s): one shard per character that some escaper or tokenizer state
# treats specially, one for all the others (splitting a "don't care" range would only repeat work)
_SPECIAL = "&<>\"-!]"
_C5 = ["%s == '&'", "%s == '<'", "%s == '>'", "%s in '\"-!]'", "%s not in _SPECIAL"]
_C2 = ["%s in _SPECIAL", "%s not in _SPECIAL"]


def sliced(kind: int, x: str, bs: int) -> bool:
    """
    pre: 0 <= kind <= 3 and 1 <= bs <= 3
    pre: len(x) <= (B['ns'] if kind == 3 else B['n'] if kind == 2 else B['n'] - 1)
    pre: all(ord(c) < 128 for c in x)
    post: _
    """
    # BUFFER_SIZE (65536 in the real module) scaled to 1, 2, 3: anything the flattener does per
    # buffer-sized slice (escaping or writing a leaf in pieces, flushing) then happens at every
    # offset of a short leaf; a metacharacter sequence split over two slices must still be escaped
    for k in (1, 2, 3):
        if bs == k:
            bs = k
            break
    if kind == 0:
        root = Tag("p", children=[x])
    elif kind == 1:
        root = Tag("a", attributes={"b": x})
    elif kind == 2:
        root = Comment(x)
    else:
        root = CDATA(x)
    doc = _flat(root, bs)
    api.obs(None if doc is None else "".join(doc))
    cover()
    if doc is None:
        return False
    if kind == 3:
        got = xml_cdata_text(doc)
        return got is not None and got == x
    toks = html_tokens(doc)
    if kind == 0:
        return toks == [("start", "p", [], False)] + ([("text", x)] if len(x) > 0 else []) + [("end", "p")]
    if kind == 1:
        return toks == [("start", "a", [("b", x)], False), ("end", "a")]
    if len(toks) != 1 or toks[0][0] != "comment":
        return False
    esc = toks[0][1]
    if len(esc) > 0 and esc[len(esc) - 1] == "-":
        return False
    return (esc + "-->").find("-->") == len(esc)


def _sliced_shards(tier):
    out = []
    for kind in range(4):
        n = BOUNDS[tier]["ns"] if kind == 3 else BOUNDS[tier]["n"] - (0 if kind == 2 else 1)
        for bs in (1, 2, 3):
            if kind == 3 or tier != "quick":
                out.append(("kind == %d" % kind, "bs == %d" % bs, "len(x) <= %d" % (n - 1)))
                out.append(("kind == %d" % kind, "bs == %d" % bs, "len(x) == %d" % n))
            else:
                out.append(("kind == %d" % kind, "bs == %d" % bs))
    return out


def _leaf_shards(split, key="n"):
    def shards(tier):
        n = BOUNDS[tier][key]
        out = []
        for ab in (False, True):
            out.append(("asbytes == %s" % ab, "len(x) <= %d" % (n - 2)))
            out.append(("asbytes == %s" % ab, "len(x) == %d" % (n - 1)))
            cls = [()]
            if split:
                if n <= 5:
                    cls = [(c % "x[0]",) for c in (_C2 if ab else _C5)]
                else:
                    cls = [(c % "x[0]", c2 % "x[1]") for c in _C5 for c2 in (_C2 if ab else _C5)]
            for c in cls:
                out.append(("asbytes == %s" % ab, "len(x) == %d" % n) + c)
        return out
    return shards


def _tree_shards(tier):
    m = BOUNDS[tier]["m"]
    out = [("len(x) + len(y) <= %d" % (m - 1),)]
    out += [("len(x) == %d" % i, "len(y) == %d" % (m - i)) for i in range(0, m + 1)]
    return out


HARNESSES = [
    H(content, shards=_leaf_shards(True, "nt"), timeout={"quick": 120, "thorough": 1500}),
    H(attribute, shards=_leaf_shards(True), timeout={"quick": 120, "thorough": 1500}),
    H(comment, shards=_leaf_shards(True), timeout={"quick": 120, "thorough": 1500}),
    H(cdata, shards=_leaf_shards(False, "nc"), timeout={"quick": 120, "thorough": 1500}),
    H(tree_p, shards=_tree_shards, timeout={"quick": 120, "thorough": 1500}),
    H(tree_div, shards=_tree_shards, timeout={"quick": 120, "thorough": 1500}),
    H(sliced, shards=_sliced_shards, timeout={"quick": 120, "thorough": 1500}),
]

_HOSTILE = ["", "a", "&", "<", ">", '"', "'", "&amp;", "&lt;b", "</p>", "<!--", "-->", "--!>", ">", "->", "-", "--",
            "a-", "]]>", "]]]>", "]]>]]>", "<![CDATA[", "a\x00b", "\r\n", "--!", "<!-", "x-->y", "\"><s"]
VECTORS = {
    "content": [(s, ab) for s in _HOSTILE for ab in (False, True)] + [("\xff&\x80", True)],
    "attribute": [(s, ab) for s in _HOSTILE for ab in (False, True)],
    "comment": [(s, ab) for s in _HOSTILE for ab in (False, True)],
    "cdata": [(s, ab) for s in _HOSTILE for ab in (False, True)],
    "tree_p": [("a<b", "c\"d"), ("", ""), ("&", "&"), ("</p>", "\"><s")],
    "sliced": [(k, x, bs) for k in range(4) for bs in (1, 2, 3)
               for x in ("", "a]]>b", "]]>", "-->", "--!>", "a&<\"", ">")],
    "tree_div": [("a", "b"), ("-->", "<"), (">", "\""), ("--!>", "&lt;"), ("", "")],
}


def selftest():
    # the reference tokenizer on hand-checked documents (WHATWG tokenizer behaviour)
    T = html_tokens
    assert T("<p>a&amp;b</p>") == [("start", "p", [], False), ("text", "a&b"), ("end", "p")]
    assert T("<!---->") == [("comment", "")]
    assert T("<!-->x-->") == [("comment", ""), ("text", "x-->")]
    assert T("<!--->x-->") == [("comment", ""), ("text", "x-->")]
    assert T("<!--a--!>b-->") == [("comment", "a"), ("text", "b-->")]
    assert T("<!--a--!b-->") == [("comment", "a--!b")]
    assert T("<!--a-->b") == [("comment", "a"), ("text", "b")]
    assert T("<!--<!---->") == [("comment", "<!--")]
    assert T("<!--a<!-->b") == [("comment", "a<!"), ("text", "b")]
    assert T("<!----->") == [("comment", "-")]
    assert T("<!--a--b-->") == [("comment", "a--b")]
    assert T('<a b="x&quot;y" c=d e>') == [("start", "a", [("b", 'x"y'), ("c", "d"), ("e", "")], False)]
    assert T('<a b="x"y">') == [("start", "a", [("b", "x"), ('y"', "")], False)]
    assert T("<br/>") == [("start", "br", [], True)]
    assert T("a<b") [0] == ("text", "a")
    assert T("a< b") == [("text", "a< b")]
    assert T("<![CDATA[x]]>") == [("comment", "[CDATA[x]]")]
    assert T("<!DocType html><p>") == [("doctype",), ("start", "p", [], False)]
    assert T("a&b") == [("text", "a"), ("err", "bare ampersand"), ("text", "b")]
    assert xml_cdata_text("<![CDATA[a]]]]><![CDATA[>b]]>") == "a]]>b"
    assert xml_cdata_text("<![CDATA[a]]>b]]>") is None
    return 22 + lbytes.selftest()
