"""C21 HTTP server: pipelined requests are handled one at a time; notifyFinish fires exactly once.

Engine E1/E2.  The real `http.Request` (notifyFinish / write / finish / _cleanup / connectionLost) and the
real `HTTPChannel` (both recompiled onto LBytes with the machinery of props/c18.py; in replay the
unlifted classes) serve three concrete pipelined requests.  The solver drives everything that is
timing: which requests the resource finishes inside `process()` (bit mask `now`), how the bytes
are cut into deliveries (`cut`) and a schedule (symbolic List[int]) over {deliver the next chunk,
finish request i, the transport pauses / resumes the channel, the connection is lost}.  Each
request's resource writes the first half of its response when it is handed over and the second half
when it finishes, so interleaving would be visible on the wire.

Every request has three independent notifyFinish observers (two from the hand-over on, one registered
just before finish()); the first one's callback returns a non-None value and its errback swallows
the failure, which the other observers must never see.

Oracle: a reference model of a head-of-line-blocking server (reference_run) predicts the exact
event sequence (hand-over, finish, notifyFinish results) and the exact bytes on the wire; in
addition the schedule-independent invariants are checked directly on the recorded events.
"""
from typing import List

from twisted.internet.error import ConnectionDone
from twisted.python.failure import Failure

from vlib import api, lbytes
from vlib.api import H, cover
from vlib.lift import b, t

from props.c18 import L, FakeTransport, split_cases

PROPERTY = "C21"
LEVEL = "model_checking"
ENCODED = ["twisted.web.http:HTTPChannel.allContentReceived", "twisted.web.http:HTTPChannel.rawDataReceived",
           "twisted.web.http:HTTPChannel.requestDone", "twisted.web.http:HTTPChannel.connectionLost",
           "twisted.web.http:HTTPChannel.pauseProducing", "twisted.web.http:HTTPChannel.resumeProducing",
           "twisted.web.http:HTTPChannel.lineReceived", "twisted.web.http:HTTPChannel.writeHeaders",
           "twisted.web.http:Request.notifyFinish", "twisted.web.http:Request.finish",
           "twisted.web.http:Request.write", "twisted.web.http:Request._cleanup",
           "twisted.web.http:Request.connectionLost", "twisted.web.http:Request.requestReceived",
           "twisted.protocols.basic:LineReceiver.dataReceived", "twisted.protocols.basic:LineReceiver.setLineMode"]
BOUNDS = {"quick": {"n": 5}, "thorough": {"n": 7}}
B = {}
BOUNDS_TEXT = ("three pipelined requests (GET, POST with a 3-byte body, GET) cut into deliveries in three ways; "
               "every subset of requests finished synchronously inside process(); every schedule of length <= n "
               "(5 quick, 7 thorough) over {deliver next chunk, finish request 0/1/2, transport pause/resume "
               "toggle, connection lost}")
OUTSIDE = ["more than three requests on a connection, other request contents (they are concrete here)",
           "producers registered on the request, HTTP/1.0 / Connection: close, timeouts (timeOut=None)",
           "what the channel does to the transport's pause state (only used as a perturbation; data is "
           "delivered only while the fake transport is not paused, as a real transport would)",
           "schedules longer than n; finish() after the connection was lost (documented to raise)"]
ASSUMPTIONS = ["the lifted classes agree with the real ones on the concrete vectors below; LBytes selftest",
               "the application calls finish() only on a request it was handed and has not finished"]
EXPLANATION = ("real HTTPChannel + real http.Request under a solver-driven schedule of deliveries, finishes, "
               "pause/resume and connection loss, compared with a reference head-of-line-blocking model")

R0 = "GET /0 HTTP/1.1\r\nHost: h\r\n\r\n"
R1 = "POST /1 HTTP/1.1\r\nContent-Length: 3\r\n\r\nabc"
R2 = "GET /2 HTTP/1.1\r\n\r\n"
NREQ = 3
# (chunks, number of complete requests after each chunk)
CUTS = [
    ([R0 + R1[:25], R1[25:] + R2[:5], R2[5:]], [1, 2, 3]),
    ([R0 + R1 + R2[:5], R2[5:]], [2, 3]),
    ([R0[:9], R0[9:] + R1 + R2], [0, 3]),
]
HEAD = "HTTP/1.1 200 OK\r\nTransfer-Encoding: chunked\r\n\r\n"

OP_DELIVER, OP_FIN0, OP_FIN1, OP_FIN2, OP_TOGGLE, OP_LOST = 0, 1, 2, 3, 4, 5


def _first_half(i):
    return HEAD + "2\r\nA%d\r\n" % i


def _second_half(i):
    return "2\r\nB%d\r\n0\r\n\r\n" % i


class ScriptedRequest(L.Request):
    """the application: a real Request whose process() registers notifyFinish, writes the first half of
    the response and, when the script says 'now', finishes at once"""

    def process(self):
        ch = self.channel
        i = len(ch.v_handed)
        self.v_idx = i
        self.v_deferreds = []
        ch.v_handed.append(self)
        ev = ch.v_events
        ev.append(("recv", i, t(self.method), t(self.uri), t(self.content.read())))
        # three independent observers: two register now, the third just before finish().  The first
        # one's handlers return a non-None value / swallow the failure: the others must not see that
        self.v_observe(0, "seen by observer 0")
        self.v_observe(1, None)
        self.write(b("A%d" % i))
        if ch.v_now[i]:
            self.v_finish()

    def v_observe(self, obs, retval):
        ev = self.channel.v_events
        i = self.v_idx
        d = self.notifyFinish()
        d.addCallbacks(lambda r: ev.append(("nf-ok", i, r is None, obs)) and None or retval,
                       lambda f: ev.append(("nf-err", i, f.check(ConnectionDone) is not None, obs)) and None)
        self.v_deferreds.append(d)

    def v_finish(self):
        self.v_observe(2, None)
        self.channel.v_events.append(("fin", self.v_idx))
        self.write(b("B%d" % self.v_idx))
        self.finish()


def reference_run(now, completes, ops):
    """the specification: a server that hands over one request at a time, in order, the next only
    after the previous response is finished.  Returns (events, notifications, wire, valid): events are
    the hand-overs and finishes in order; notifications[i] is None / 'ok' / 'err', the one result the
    notifyFinish Deferred of request i must have had by the end; valid says that every operation was
    applicable (otherwise the schedule is not a legal history)"""
    ev = []
    nf = [None] * NREQ
    wire = ""
    c = h = f = 0          # complete requests received / handed over / finished
    nchunk = 0
    bodies = ["", "abc", ""]
    methods = ["GET", "POST", "GET"]
    lost = False
    for op in ops:
        if lost:
            return ev, nf, wire, False
        if op == OP_DELIVER:
            if nchunk >= len(completes):
                return ev, nf, wire, False
            c = completes[nchunk]
            nchunk += 1
        elif op == OP_TOGGLE:
            continue
        elif op == OP_LOST:
            lost = True
            if h == f + 1:
                nf[h - 1] = "err"
            continue
        else:
            i = op - OP_FIN0
            if not (h == f + 1 and i == h - 1):
                return ev, nf, wire, False
            ev.append(("fin", i))
            wire += _second_half(i)
            nf[i] = "ok"
            f += 1
        while h < c and h == f:
            ev.append(("recv", h, methods[h], "/%d" % h, bodies[h]))
            wire += _first_half(h)
            h += 1
            if now[h - 1]:
                ev.append(("fin", h - 1))
                wire += _second_half(h - 1)
                nf[h - 1] = "ok"
                f += 1
    return ev, nf, wire, True


NOBS = 3


def _invariants(ev):
    """the property, stated on the recorded events alone: at most one request in application hands,
    in order; every notifyFinish observer gets at most one result, 'ok' with None and only after the
    request's own finish, 'err' with the connection's failure and only for a request that was handed
    over and not finished"""
    inhands = -1
    last = -1
    state = ["new"] * NREQ      # new -> handed -> finished
    notified = [[0] * NOBS for _ in range(NREQ)]
    for e in ev:
        i = e[1]
        if e[0] == "recv":
            if inhands != -1 or i != last + 1:
                return False              # a second request in application hands / out of order
            inhands = last = i
            state[i] = "handed"
        elif e[0] == "fin":
            if inhands != i:
                return False
            inhands = -1
            state[i] = "finished"
        elif e[0] == "nf-ok":
            if state[i] != "finished" or e[2] is not True:
                return False              # fires only once its own response is finished, with None
            notified[i][e[3]] += 1
        elif e[0] == "nf-err":
            if state[i] != "handed" or e[2] is not True:
                return False              # only while in application hands, with the connection's failure
            notified[i][e[3]] += 1
    for per in notified:
        for n in per:
            if n > 1:
                return False
    return True


def _project(ev):
    """(hand-over / finish events in order, notification result per request and observer)"""
    main = []
    nf = [[None] * NOBS for _ in range(NREQ)]
    for e in ev:
        if e[0] == "nf-ok":
            nf[e[1]][e[3]] = "ok" if nf[e[1]][e[3]] is None else "twice"
        elif e[0] == "nf-err":
            nf[e[1]][e[3]] = "err" if nf[e[1]][e[3]] is None else "twice"
        else:
            main.append(e)
    return main, nf


def _expected_nf(nf):
    """the model's result per request -> per observer: observers 0 and 1 exist from the hand-over on,
    observer 2 only registers immediately before finish()"""
    out = []
    for r in nf:
        if r == "ok":
            out.append(["ok"] * NOBS)
        elif r == "err":
            out.append(["err", "err", None])
        else:
            out.append([None] * NOBS)
    return out


def pipeline(now: int, cut: int, sched: List[int]) -> bool:
    """
    pre: 0 <= now < 8 and 0 <= cut < 3
    pre: len(sched) <= B['n'] and all(0 <= op <= 5 for op in sched)
    post: _
    """
    cut = split_cases(2, cut)
    chunks, completes = CUTS[cut]
    nowl = [bool(now & 1), bool(now & 2), bool(now & 4)]
    # ---- the real code under the schedule ---------------------------------------------------------
    ch = L.HTTPChannel()
    ch.requestFactory = ScriptedRequest
    ch.timeOut = None
    ch.v_handed = []
    ch.v_events = ev = []
    ch.v_now = nowl
    tr = FakeTransport()
    ch.makeConnection(tr)
    nchunk = 0
    lost = False
    asked_pause = False
    ops = []
    for k in range(B['n']):
        if k >= len(sched):
            break
        if lost:
            return True                                   # not a legal history: nothing happens after the loss
        op = split_cases(5, sched[k])                     # (decided only now: an illegal step prunes the rest)
        ops.append(op)
        if op == OP_DELIVER:
            if nchunk >= len(chunks) or tr.paused:
                return True                               # nothing to deliver / transport not reading
            ch.dataReceived(b(chunks[nchunk]))
            nchunk += 1
        elif op == OP_TOGGLE:
            asked_pause = not asked_pause
            if asked_pause:
                ch.pauseProducing()
            else:
                ch.resumeProducing()
        elif op == OP_LOST:
            lost = True
            ch.connectionLost(Failure(ConnectionDone()))
        else:
            i = op - OP_FIN0
            if i >= len(ch.v_handed) or ch.v_handed[i].finished:
                return True                               # the application has no such unfinished request
            ch.v_handed[i].v_finish()
    api.obs((ev, tr.value(), tr.closed))
    cover()
    exp_ev, exp_nf, exp_wire, valid = reference_run(nowl, completes, ops)
    if not _invariants(ev):
        return False
    if not valid:
        # the real code accepted an operation the specification has no state for, e.g. finishing a
        # request that should not be in application hands yet
        return False
    if tr.paused and not asked_pause and not lost:
        return False                                      # reading stays switched off although nobody asked for it
    for r in ch.v_handed:
        ds = r.v_deferreds
        for x in range(len(ds)):
            for y in range(x + 1, len(ds)):
                if ds[x] is ds[y]:
                    return False                          # each notifyFinish() call returns its own Deferred
    got_ev, got_nf = _project(ev)
    return got_ev == exp_ev and got_nf == _expected_nf(exp_nf) and tr.value() == exp_wire and not tr.closed


HARNESSES = [
    H(pipeline, shards=[("now == %d" % m, "cut == %d" % c) for m in range(8) for c in range(3)],
      timeout={"quick": 240, "thorough": 1500}),
]

VECTORS = {
    "pipeline": [(7, 0, [0, 0, 0]), (0, 0, [0, 1, 0, 2, 0]), (0, 1, [0, 1, 2, 0, 3]), (2, 1, [0, 1, 0, 3]),
                 (0, 0, [0, 0, 0, 5]), (0, 2, [0, 0, 5]), (5, 1, [4, 0]), (0, 1, [0, 4, 1, 4, 2]), (1, 0, [0, 0, 2, 5]),
                 (0, 1, [0, 5]), (3, 2, [0, 4, 0, 3]), (0, 0, [0, 2]), (0, 0, [5, 0])],
}


def selftest():
    ev, nf, wire, valid = reference_run([False, True, False], [2, 3], [0, 1, 0, 3])
    assert valid and [e[:2] for e in ev] == [("recv", 0), ("fin", 0), ("recv", 1), ("fin", 1), ("recv", 2), ("fin", 2)], ev
    assert nf == ["ok", "ok", "ok"]
    assert wire == "".join(_first_half(i) + _second_half(i) for i in range(3))
    assert reference_run([False] * 3, [1, 2, 3], [0, 2])[3] is False
    assert reference_run([False] * 3, [1, 2, 3], [0, 0, 5])[1] == ["err", None, None]
    full = [("recv", 0), ("fin", 0), ("recv", 1), ("nf-ok", 0, True, 0), ("nf-ok", 0, True, 1), ("fin", 1), ("nf-ok", 1, True, 2)]
    assert _invariants(full) and not _invariants(full + [("nf-ok", 1, True, 2)]) and not _invariants(full[:1] + full[2:3])
    assert _invariants(full + [("nf-ok", 1, True, 0)]) and not _invariants(full + [("nf-ok", 1, False, 0)])
    assert not _invariants([("recv", 0), ("nf-ok", 0, True, 0)]) and _invariants([("recv", 0), ("nf-err", 0, True, 1)])
    assert not _invariants([("recv", 0), ("fin", 0), ("nf-ok", 0, True, 0), ("nf-err", 0, True, 0)])
    assert not _invariants([("recv", 0), ("nf-err", 0, False, 1)])
    return lbytes.selftest() + 9
