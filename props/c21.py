"""C21 HTTP server: pipelined requests are handled one at a time; notifyFinish fires exactly once.

Engine E1/E2.  The real `http.Request` (notifyFinish / write / finish / _cleanup / connectionLost) and the
real `HTTPChannel` (both recompiled onto LBytes with the machinery of props/c18.py; in replay the
unlifted classes) serve three concrete pipelined requests.  The solver drives everything that is
timing: which requests the resource finishes inside `process()` (bit mask `now`), how the bytes
are cut into deliveries (`cut`) and a schedule (symbolic List[int]) over {deliver the next chunk,
finish request i, the transport pauses / resumes the channel, the connection is lost}.  Each
request's resource writes the first half of its response when it is handed over and the second half
when it finishes, so interleaving would be visible on the wire.  The solver also chooses which request
(if any) is a HEAD: its response must be status line + header section + blank line and nothing
else before the next response.

Every request has three independent notifyFinish observers (two from the hand-over on, one registered
just before finish()); the first one's callback returns a non-None value and its errback swallows
the failure, which the other observers must never see.

A fourth observer is registered re-entrantly, from inside the notification handler of one of the
first three (which one rotates with the request index and the segmentation): it must get the same
single result as the others.

Oracle: a reference model of a head-of-line-blocking server (reference_run) predicts the exact
event sequence (hand-over, finish, notifyFinish results) and the exact bytes on the wire; in
addition the schedule-independent invariants are checked directly on the recorded events.
"""
from typing import List

from twisted.internet.error import ConnectionDone
from twisted.python.failure import Failure

from vlib import api, lbytes
from vlib.api import H, cover
from vlib.lift import b, t

from props.c18 import L, FakeTransport, split_cases

PROPERTY = "C21"
LEVEL = "model_checking"
ENCODED = ["twisted.web.http:HTTPChannel.allContentReceived", "twisted.web.http:HTTPChannel.rawDataReceived",
           "twisted.web.http:HTTPChannel.requestDone", "twisted.web.http:HTTPChannel.connectionLost",
           "twisted.web.http:HTTPChannel.pauseProducing", "twisted.web.http:HTTPChannel.resumeProducing",
           "twisted.web.http:HTTPChannel.lineReceived", "twisted.web.http:HTTPChannel.writeHeaders",
           "twisted.web.http:Request.notifyFinish", "twisted.web.http:Request.finish",
           "twisted.web.http:Request.write", "twisted.web.http:Request._cleanup",
           "twisted.web.http:Request.connectionLost", "twisted.web.http:Request.requestReceived",
           "twisted.protocols.basic:LineReceiver.dataReceived", "twisted.protocols.basic:LineReceiver.setLineMode"]
BOUNDS = {"quick": {"n": 5}, "thorough": {"n": 7}}
B = {}
BOUNDS_TEXT = ("three pipelined requests (GET, POST with a 3-byte body, GET; none or any one of them a HEAD instead, "
               "whose resource still writes a body and sets no Content-Length) cut into deliveries in three ways "
               "(all three when there is no HEAD, one per HEAD position); four notifyFinish observers per request, "
               "the fourth registered from inside the handler of observer (request index + cut) mod 3; "
               "every subset of requests finished synchronously inside process(); every schedule of length <= n "
               "(5 quick, 7 thorough) over {deliver next chunk, finish request 0/1/2, transport pause/resume "
               "toggle, connection lost}")
OUTSIDE = ["more than three requests on a connection, other request contents (they are concrete here)",
           "producers registered on the request, HTTP/1.0 / Connection: close, timeouts (timeOut=None)",
           "what the channel does to the transport's pause state (only used as a perturbation; data is "
           "delivered only while the fake transport is not paused, as a real transport would)",
           "schedules longer than n; finish() after the connection was lost (documented to raise)"]
ASSUMPTIONS = ["the lifted classes agree with the real ones on the concrete vectors below; LBytes selftest",
               "the application calls finish() only on a request it was handed and has not finished"]
EXPLANATION = ("real HTTPChannel + real http.Request under a solver-driven schedule of deliveries, finishes, "
               "pause/resume and connection loss, compared with a reference head-of-line-blocking model")

NREQ = 3
_METHODS = ["GET", "POST", "GET"]
_BODIES = ["", "abc", ""]


def methods_of(head):
    """the three request methods; request `head` (0..2) is a HEAD instead, 3 = none"""
    return [("HEAD" if i == head else _METHODS[i]) for i in range(NREQ)]


def cuts_of(head, cut):
    """(chunks, number of complete requests after each chunk) for one way of cutting the stream"""
    m = methods_of(head)
    r0 = m[0] + " /0 HTTP/1.1\r\nHost: h\r\n\r\n"
    r1 = m[1] + " /1 HTTP/1.1\r\nContent-Length: 3\r\n\r\nabc"
    r2 = m[2] + " /2 HTTP/1.1\r\n\r\n"
    if cut == 0:
        return [r0 + r1[:25], r1[25:] + r2[:5], r2[5:]], [1, 2, 3]
    if cut == 1:
        return [r0 + r1 + r2[:5], r2[5:]], [2, 3]
    return [r0[:9], r0[9:] + r1 + r2], [0, 3]


STATUS = "HTTP/1.1 200 OK\r\n"
HEAD = STATUS + "Transfer-Encoding: chunked\r\n\r\n"
# a response to HEAD is status line + header section + blank line and nothing else (RFC 9110 9.3.2: the
# header fields of the GET response, of which the framing fields may be omitted): both are accepted
HEAD_ONLY = (STATUS + "\r\n", HEAD)

OP_DELIVER, OP_FIN0, OP_FIN1, OP_FIN2, OP_TOGGLE, OP_LOST = 0, 1, 2, 3, 4, 5


def _first_half(i, method="GET"):
    """what is on the wire once request i has been handed over (its resource has written 'A<i>')"""
    if method == "HEAD":
        return [HEAD_ONLY]
    return [HEAD + "2\r\nA%d\r\n" % i]


def _second_half(i, method="GET"):
    """... and what finish() adds after the resource has written 'B<i>'"""
    if method == "HEAD":
        return []
    return ["2\r\nB%d\r\n0\r\n\r\n" % i]


def wire_matches(wire, parts):
    """the bytes on the wire are exactly the expected parts in order (a tuple = alternatives)"""
    pos = 0
    for p in parts:
        alts = p if isinstance(p, tuple) else (p,)
        hit = None
        for a in alts:
            if wire.startswith(a, pos):
                hit = a
                break
        if hit is None:
            return False
        pos += len(hit)
    return pos == len(wire)


class ScriptedRequest(L.Request):
    """the application: a real Request whose process() registers notifyFinish, writes the first half of
    the response and, when the script says 'now', finishes at once"""

    def process(self):
        ch = self.channel
        i = len(ch.v_handed)
        self.v_idx = i
        self.v_deferreds = []
        self.v_ev = ch.v_events
        self.v_late = (i + ch.v_late) % 3      # which observer's handler registers the late observer
        ch.v_handed.append(self)
        ev = ch.v_events
        ev.append(("recv", i, t(self.method), t(self.uri), t(self.content.read())))
        # three independent observers: two register now, the third just before finish().  The first
        # one's handlers return a non-None value / swallow the failure: the others must not see that
        self.v_observe(0, "seen by observer 0")
        self.v_observe(1, None)
        self.write(b("A%d" % i))
        if ch.v_now[i]:
            self.v_finish()

    def v_observe(self, obs, retval):
        ev = self.v_ev                       # (self.channel is gone by the time notifications fire)
        i = self.v_idx

        def ok(r):
            ev.append(("nf-ok", i, r is None, obs))
            if obs == self.v_late:
                self.v_observe(3, None)       # re-entrant: a new observer from inside a notification
            return retval

        def err(f):
            ev.append(("nf-err", i, f.check(ConnectionDone) is not None, obs))
            if obs == self.v_late:
                self.v_observe(3, None)
            return None

        d = self.notifyFinish()
        d.addCallbacks(ok, err)
        self.v_deferreds.append(d)

    def v_finish(self):
        self.v_observe(2, None)
        self.channel.v_events.append(("fin", self.v_idx))
        self.write(b("B%d" % self.v_idx))
        self.finish()


def reference_run(now, completes, ops, methods=_METHODS):
    """the specification: a server that hands over one request at a time, in order, the next only
    after the previous response is finished.  Returns (events, notifications, wire, valid): events are
    the hand-overs and finishes in order; notifications[i] is None / 'ok' / 'err', the one result the
    notifyFinish Deferred of request i must have had by the end; wire is the list of expected wire parts; valid says that every operation was
    applicable (otherwise the schedule is not a legal history)"""
    ev = []
    nf = [None] * NREQ
    wire = []
    c = h = f = 0          # complete requests received / handed over / finished
    nchunk = 0
    bodies = _BODIES
    lost = False
    for op in ops:
        if lost:
            return ev, nf, wire, False
        if op == OP_DELIVER:
            if nchunk >= len(completes):
                return ev, nf, wire, False
            c = completes[nchunk]
            nchunk += 1
        elif op == OP_TOGGLE:
            continue
        elif op == OP_LOST:
            lost = True
            if h == f + 1:
                nf[h - 1] = "err"
            continue
        else:
            i = op - OP_FIN0
            if not (h == f + 1 and i == h - 1):
                return ev, nf, wire, False
            ev.append(("fin", i))
            wire += _second_half(i, methods[i])
            nf[i] = "ok"
            f += 1
        while h < c and h == f:
            ev.append(("recv", h, methods[h], "/%d" % h, bodies[h]))
            wire += _first_half(h, methods[h])
            h += 1
            if now[h - 1]:
                ev.append(("fin", h - 1))
                wire += _second_half(h - 1, methods[h - 1])
                nf[h - 1] = "ok"
                f += 1
    return ev, nf, wire, True


NOBS = 4


def _invariants(ev):
    """the property, stated on the recorded events alone: at most one request in application hands,
    in order; every notifyFinish observer gets at most one result, 'ok' with None and only after the
    request's own finish, 'err' with the connection's failure and only for a request that was handed
    over and not finished"""
    inhands = -1
    last = -1
    state = ["new"] * NREQ      # new -> handed -> finished
    notified = [[0] * NOBS for _ in range(NREQ)]
    for e in ev:
        i = e[1]
        if e[0] == "recv":
            if inhands != -1 or i != last + 1:
                return False              # a second request in application hands / out of order
            inhands = last = i
            state[i] = "handed"
        elif e[0] == "fin":
            if inhands != i:
                return False
            inhands = -1
            state[i] = "finished"
        elif e[0] == "nf-ok":
            if state[i] != "finished" or e[2] is not True:
                return False              # fires only once its own response is finished, with None
            notified[i][e[3]] += 1
        elif e[0] == "nf-err":
            if state[i] != "handed" or e[2] is not True:
                return False              # only while in application hands, with the connection's failure
            notified[i][e[3]] += 1
    for per in notified:
        for n in per:
            if n > 1:
                return False
    return True


def _project(ev):
    """(hand-over / finish events in order, notification result per request and observer)"""
    main = []
    nf = [[None] * NOBS for _ in range(NREQ)]
    for e in ev:
        if e[0] == "nf-ok":
            nf[e[1]][e[3]] = "ok" if nf[e[1]][e[3]] is None else "twice"
        elif e[0] == "nf-err":
            nf[e[1]][e[3]] = "err" if nf[e[1]][e[3]] is None else "twice"
        else:
            main.append(e)
    return main, nf


def _expected_nf(nf, late):
    """the model's result per request -> per observer: observers 0 and 1 exist from the hand-over on,
    observer 2 registers immediately before finish(); observer 3 is registered re-entrantly from inside
    the notification of observer (i + late) % 3 and must get the same result as everybody else"""
    out = []
    for i, r in enumerate(nf):
        if r == "ok":
            out.append(["ok"] * NOBS)
        elif r == "err":
            out.append(["err", "err", None, "err" if (i + late) % 3 < 2 else None])
        else:
            out.append([None] * NOBS)
    return out


def pipeline(now: int, cut: int, head: int, late: int, sched: List[int]) -> bool:
    """
    pre: 0 <= now < 8 and 0 <= cut < 3 and 0 <= head <= 3
    pre: head == 3 or cut == head
    pre: late == cut
    pre: len(sched) <= B['n'] and all(0 <= op <= 5 for op in sched)
    post: _
    """
    cut = split_cases(2, cut)
    head = split_cases(3, head)
    chunks, completes = cuts_of(head, cut)
    meths = methods_of(head)
    nowl = [bool(now & 1), bool(now & 2), bool(now & 4)]
    # ---- the real code under the schedule ---------------------------------------------------------
    ch = L.HTTPChannel()
    ch.requestFactory = ScriptedRequest
    ch.timeOut = None
    ch.v_handed = []
    ch.v_events = ev = []
    ch.v_now = nowl
    ch.v_late = late = split_cases(2, late)
    tr = FakeTransport()
    ch.makeConnection(tr)
    nchunk = 0
    lost = False
    asked_pause = False
    ops = []
    for k in range(B['n']):
        if k >= len(sched):
            break
        if lost:
            return True                                   # not a legal history: nothing happens after the loss
        op = split_cases(5, sched[k])                     # (decided only now: an illegal step prunes the rest)
        ops.append(op)
        if op == OP_DELIVER:
            if nchunk >= len(chunks) or tr.paused:
                return True                               # nothing to deliver / transport not reading
            ch.dataReceived(b(chunks[nchunk]))
            nchunk += 1
        elif op == OP_TOGGLE:
            asked_pause = not asked_pause
            if asked_pause:
                ch.pauseProducing()
            else:
                ch.resumeProducing()
        elif op == OP_LOST:
            lost = True
            ch.connectionLost(Failure(ConnectionDone()))
        else:
            i = op - OP_FIN0
            if i >= len(ch.v_handed) or ch.v_handed[i].finished:
                return True                               # the application has no such unfinished request
            ch.v_handed[i].v_finish()
    api.obs((ev, tr.value(), tr.closed))
    cover()
    exp_ev, exp_nf, exp_wire, valid = reference_run(nowl, completes, ops, meths)
    if not _invariants(ev):
        return False
    if not valid:
        # the real code accepted an operation the specification has no state for, e.g. finishing a
        # request that should not be in application hands yet
        return False
    if tr.paused and not asked_pause and not lost:
        return False                                      # reading stays switched off although nobody asked for it
    for r in ch.v_handed:
        ds = r.v_deferreds
        for x in range(len(ds)):
            for y in range(x + 1, len(ds)):
                if ds[x] is ds[y]:
                    return False                          # each notifyFinish() call returns its own Deferred
    got_ev, got_nf = _project(ev)
    return got_ev == exp_ev and got_nf == _expected_nf(exp_nf, late) and wire_matches(tr.value(), exp_wire) and not tr.closed


HARNESSES = [
    H(pipeline, shards=[("now == %d" % m, "cut == %d" % c, "head == %d" % h) for m in range(8) for c in range(3)
                        for h in range(4) if h == 3 or h == c],
      timeout={"quick": 240, "thorough": 1500}),
]

VECTORS = {
    "pipeline": [(7, 0, 3, 0, [0, 0, 0]), (0, 0, 3, 0, [0, 1, 0, 2, 0]), (0, 1, 3, 1, [0, 1, 2, 0, 3]), (2, 1, 3, 1, [0, 1, 0, 3]),
                 (0, 0, 3, 0, [0, 0, 0, 5]), (0, 2, 3, 2, [0, 0, 5]), (5, 1, 3, 1, [4, 0]), (0, 1, 3, 1, [0, 4, 1, 4, 2]),
                 (1, 0, 3, 0, [0, 0, 2, 5]), (0, 1, 3, 1, [0, 5]), (3, 2, 3, 2, [0, 4, 0, 3]), (0, 0, 3, 0, [0, 2]), (0, 0, 3, 0, [5, 0]),
                 (7, 0, 0, 0, [0, 0, 0]), (0, 1, 1, 1, [0, 1, 2, 0, 3]), (4, 2, 2, 2, [0, 0, 1, 2]), (0, 0, 0, 0, [0, 1, 0, 2]),
                 (2, 1, 1, 1, [0, 1, 0, 5]), (7, 1, 0, 1, [0, 0]), (0, 1, 2, 1, [0, 1, 2, 0, 3]),
                 (0, 1, 3, 0, [0, 1, 2, 0, 3]), (0, 1, 3, 2, [0, 1, 2, 0, 3]), (0, 0, 3, 1, [0, 0, 0, 5]), (0, 0, 3, 2, [0, 5]),
                 (7, 0, 3, 1, [0, 0, 0]), (7, 0, 3, 2, [0, 0, 0]), (0, 1, 3, 1, [0, 1, 5])],
}


def selftest():
    ev, nf, wire, valid = reference_run([False, True, False], [2, 3], [0, 1, 0, 3])
    assert valid and [e[:2] for e in ev] == [("recv", 0), ("fin", 0), ("recv", 1), ("fin", 1), ("recv", 2), ("fin", 2)], ev
    assert nf == ["ok", "ok", "ok"]
    full_wire = "".join("".join(_first_half(i) + _second_half(i)) for i in range(3))
    assert wire_matches(full_wire, wire) and not wire_matches(full_wire + "0", wire) and not wire_matches(full_wire[:-1], wire)
    hw = reference_run([True] * 3, [2, 3], [0, 0], ["GET", "HEAD", "GET"])[2]
    g0, g2 = "".join(_first_half(0) + _second_half(0)), "".join(_first_half(2) + _second_half(2))
    assert wire_matches(g0 + STATUS + "\r\n" + g2, hw) and wire_matches(g0 + HEAD + g2, hw)
    assert not wire_matches(g0 + HEAD + "0\r\n\r\n" + g2, hw) and not wire_matches(g0 + STATUS + "\r\nA1" + g2, hw)
    assert reference_run([False] * 3, [1, 2, 3], [0, 2])[3] is False
    assert reference_run([False] * 3, [1, 2, 3], [0, 0, 5])[1] == ["err", None, None]
    full = [("recv", 0), ("fin", 0), ("recv", 1), ("nf-ok", 0, True, 0), ("nf-ok", 0, True, 1), ("fin", 1), ("nf-ok", 1, True, 2)]
    assert _invariants(full) and not _invariants(full + [("nf-ok", 1, True, 2)]) and not _invariants(full[:1] + full[2:3])
    assert _invariants(full + [("nf-ok", 1, True, 0)]) and not _invariants(full + [("nf-ok", 1, False, 0)])
    assert not _invariants([("recv", 0), ("nf-ok", 0, True, 0)]) and _invariants([("recv", 0), ("nf-err", 0, True, 1)])
    assert not _invariants([("recv", 0), ("fin", 0), ("nf-ok", 0, True, 0), ("nf-err", 0, True, 0)])
    assert not _invariants([("recv", 0), ("nf-err", 0, False, 1)])
    return lbytes.selftest() + 9
