"""C44 Banana: encode/decode round trip for every stream split, and the size/prefix limits.

Engine E2: `int2b128`, `b1282int`, `Banana` (and the type-byte constants) are recompiled from /repo's
source onto LBytes (BytesIO -> cursor shim, `ord` of a 1-byte LBytes, `&`/`>>` as integer arithmetic).
Integers, string contents and prefix bytes are symbolic; the structure shape, the string lengths and
the split index are case split by the solver (one path per shape/position).  SIZE_LIMIT is scaled to
3 (lifted namespace; real module in replay) and, for the decoder-prefix harness, the per-instance
prefix limit to 3, so that both sides of every limit lie inside the bound.  Floats are outside.
"""
from typing import List

from vlib import api, lbytes, lift
from vlib.api import H, cover
from vlib.lift import b, t

PROPERTY = "C44"
LEVEL = "model_checking"
ENCODED = ["twisted.spread.banana:int2b128", "twisted.spread.banana:b1282int",
           "twisted.spread.banana:Banana._encode", "twisted.spread.banana:Banana.sendEncoded",
           "twisted.spread.banana:Banana.dataReceived", "twisted.spread.banana:Banana.gotItem",
           "twisted.spread.banana:Banana.setPrefixLimit", "twisted.spread.banana:Banana.callExpressionReceived"]
BOUNDS = {"quick": {"kbits": 35, "ibits": 35, "sbits": 7, "str": 2}, "thorough": {"kbits": 70, "ibits": 70, "sbits": 14, "str": 3}}
B = {}
BOUNDS_TEXT = ("kernel: every n with 0 <= n < 2**kbits; single integers |n| <= 2**ibits (so both sides of the "
               "INT/LONGINT and NEG/LONGNEG switches at +-2**31) and the 12 integers around +-(2**448-1) (the "
               "encoder's range limit for the real prefix limit of 64 bytes); structures from a menu of 8 shapes "
               "(int, string, flat list, nested lists of depth 2, tuples, empty lists) with integer leaves "
               "|i| < 2**sbits and string leaves of <= str symbolic bytes (all 256 values); dialects 'none' and "
               "'pb' (vocabulary words as leaves); every split index of the encoded stream (two deliveries); "
               "SIZE_LIMIT scaled to 3: strings/lists of length 0..5 on encode, announced lengths 0..6 on decode with the "
               "complete payload present, top-level and nested in a list, at every split index incl. one segment; "
               "prefix limit scaled to 3: prefixes of 0..5 symbolic bytes < 0x80")
OUTSIDE = ["floats (struct '!d' packing/unpacking is C code; FLOAT type byte not exercised)",
           "structures deeper than 2 or with more than 3 elements per list, strings longer than 3 bytes",
           "three or more deliveries of one stream (two deliveries at every split index are explored)",
           "the real SIZE_LIMIT of 640*1024 and prefix limit of 64 for the refusal harnesses: scaled to 3 / 3 "
           "(the integer range harness uses the real prefix limit 64, the vocabulary harness the real SIZE_LIMIT)",
           "dialect negotiation (currentDialect None -> selection) and vocabulary ids on the wire that are "
           "not in the incoming vocabulary",
           "arbitrary (mutated) byte streams: only well-formed encodings, over-long prefixes and oversized "
           "announced lengths are decoded"]
ASSUMPTIONS = ["LBytes / LBytesIO / bit-operation shims reproduce bytes / BytesIO / int semantics (differentially "
               "tested on every run: selftest) and the lifted Banana agrees with the real one on the vectors",
               "in the 'pb' dialect with symbolic strings the per-instance dict outgoingSymbols is replaced by "
               "an equality-scanning mapping with the same content (hashing a symbolic key would realise it)",
               "transport is a recording fake; expressionReceived is a recording callback"]
EXPLANATION = ("lifted real Banana encoder/decoder on symbolic integers and strings; shape, lengths and split "
               "index case-split by the solver; limits scaled down so that refusal is inside the bound")


def _ord(x):
    if isinstance(x, lbytes._LBase):
        if len(x.s) != 1:
            raise TypeError("ord() expected a character, but string of length %d found" % len(x.s))
        return ord(x.s)
    return ord(x)


_NAMES = ["int2b128", "b1282int", "Banana", "LIST", "INT", "STRING", "NEG", "FLOAT", "LONGINT", "LONGNEG",
          "VOCAB", "HIGH_BIT_SET"]
L = lift.lift("twisted.spread.banana", names=_NAMES, overrides={"SIZE_LIMIT": 3},
              extra_shims={"ord": _ord}, bitops=True)
from twisted.spread import banana as _real  # noqa: E402
BananaError = _real.BananaError

T_LIST, T_INT, T_STRING, T_NEG, T_LONGINT, T_LONGNEG, T_VOCAB = "\x80", "\x81", "\x82", "\x83", "\x85", "\x86", "\x87"
WORDS = ["None", "list", "uncache"]   # ids 1, 8, 31
WORD_IDS = [1, 8, 31]


class _Transport:
    def __init__(self):
        self.out = []

    def write(self, data):
        self.out.append(t(data))

    def loseConnection(self):
        self.out.append("LOSE")


def _set_size_limit(v):
    # module global read by Banana._encode / dataReceived (every harness sets it first: no state leaks)
    if L.__real__:
        _real.SIZE_LIMIT = v
    else:
        L.__ns__["SIZE_LIMIT"] = v


def _mk(dialect="none", limit=None, symvocab=False, size_limit=3):
    _set_size_limit(size_limit)
    bn = L.Banana(isClient=1)
    bn.transport = _Transport()
    bn.connectionMade()
    bn._selectDialect(b(dialect))
    if limit is not None:
        bn.setPrefixLimit(limit)
    if symvocab and not L.__real__:
        bn.outgoingSymbols = lbytes.SymDict(bn.outgoingSymbols)
    rec = []
    bn.expressionReceived = rec.append
    return bn, rec


def _norm(x):
    """received / sent structure -> comparable plain form (bytes -> ('B', text), tuples -> lists)"""
    if isinstance(x, (list, tuple)):
        return [_norm(y) for y in x]
    if isinstance(x, bool):
        return ("bool", x)
    if isinstance(x, int):
        return x
    return ("B", t(x))


def _split_cases(n, split):
    for k in range(n + 1):
        if split == k:
            return k
    return n


def _deliver(bn, stream, k):
    """two deliveries at index k; returns None or the name of the exception"""
    try:
        if k > 0:
            bn.dataReceived(b(stream[:k]))
        if k < len(stream):
            bn.dataReceived(b(stream[k:]))
    except BananaError:
        return "BananaError"
    except NotImplementedError:
        return "NotImplementedError"
    return None


def _my128(n):
    """independent base-128 little-endian rendering (harness side)"""
    if n == 0:
        return "\0"
    out = ""
    while n:
        out = out + chr(n % 128)
        n = n // 128
    return out


def _le128(p):
    v = 0
    for j in range(len(p) - 1, -1, -1):
        v = v * 128 + ord(p[j])
    return v


# ---- kernel ------------------------------------------------------------------------------------

def kernel(n: int) -> bool:
    """
    pre: 0 <= n < 2 ** B['kbits']
    post: _
    """
    parts = []
    L.int2b128(n, lambda x: parts.append(t(x)))
    enc = "".join(parts)
    api.obs(enc)
    back = L.b1282int(b(enc))
    cover()
    if back != n:
        return False
    # canonical: 7-bit groups, least significant first, no trailing zero group except for 0 itself
    for ch in enc:
        if ord(ch) >= 128:
            return False
    if n == 0:
        return enc == "\0"
    if ord(enc[-1]) == 0:
        return False
    v = _le128(enc)
    return v == n and all(len(p) == 1 for p in parts)


def kernel_decode(p: str) -> bool:
    """
    pre: len(p) <= 4 and all(ord(c) < 128 for c in p)
    post: _
    """
    # b1282int on an arbitrary (possibly non-canonical) prefix: little-endian base 128 value
    v = L.b1282int(b(p))
    cover()
    return v == _le128(p)


# ---- single integers: type byte switch and range limit -----------------------------------------------

def int_wire(n: int, split: int) -> bool:
    """
    pre: -(2 ** B['ibits']) <= n <= 2 ** B['ibits']
    pre: 0 <= split
    post: _
    """
    bn, rec = _mk()
    bn.sendEncoded(n)
    if len(bn.transport.out) != 1:
        return False
    wire = bn.transport.out[0]
    api.obs(wire)
    k = _split_cases(len(wire), split)
    err = _deliver(bn, wire, k)
    cover()
    if err is not None or len(rec) != 1 or isinstance(rec[0], bool) or rec[0] != n:
        return False
    # the wire form: magnitude in base 128 then the type byte chosen by the 32-bit range
    if n >= 0:
        want = T_INT if n <= 2 ** 31 - 1 else T_LONGINT
        mag = n
    else:
        want = T_NEG if n >= -(2 ** 31) else T_LONGNEG
        mag = -n
    if wire[-1] != want:
        return False
    return wire[:-1] == _my128(mag) and t(bn.buffer) == ""


def int_limit(d: int, neg: bool) -> bool:
    """
    pre: -3 <= d <= 2
    post: _
    """
    # real prefix limit (64 bytes = 448 bits): largest magnitude that can be sent is 2**448 - 1
    bn, rec = _mk()
    lim = 2 ** 448 - 1
    mag = lim + d
    n = -mag if neg else mag
    try:
        bn.sendEncoded(n)
        raised = False
    except BananaError:
        raised = True
    cover()
    if mag > lim:
        return raised and bn.transport.out == []
    if raised or len(bn.transport.out) != 1:
        return False
    wire = bn.transport.out[0]
    if wire[-1] != (T_LONGNEG if neg else T_LONGINT) or len(wire) != 65:
        return False
    err = _deliver(bn, wire, 30)
    return err is None and len(rec) == 1 and rec[0] == n


# ---- structures ----------------------------------------------------------------------------------

def _shape(shape, i1, i2, s1, s2):
    """(object to send, expected received form)"""
    if shape == 0:
        return [i1], [i1]
    if shape == 1:
        return b(s1), ("B", s1)
    if shape == 2:
        return [i1, b(s1)], [i1, ("B", s1)]
    if shape == 3:
        return [[i1], [b(s1), i2]], [[i1], [("B", s1), i2]]
    if shape == 4:
        return [[], b(s1), []], [[], ("B", s1), []]
    if shape == 5:
        return (i1, (b(s2),), b(s1)), [i1, [("B", s2)], ("B", s1)]
    if shape == 6:
        return [[[i1, i2]], i2], [[[i1, i2]], i2]
    return [b(s1), b(s2), [b(s1)]], [("B", s1), ("B", s2), [("B", s1)]]


def structure(shape: int, i1: int, i2: int, s1: str, s2: str, pb: bool, split: int) -> bool:
    """
    pre: 0 <= shape <= 7
    pre: -(2 ** B['sbits']) < i1 < 2 ** B['sbits'] and -(2 ** B['sbits']) < i2 < 2 ** B['sbits']
    pre: len(s1) <= B['str'] and len(s2) <= 1 and all(ord(c) < 256 for c in s1 + s2)
    pre: 0 <= split
    post: _
    """
    bn, rec = _mk("pb" if pb else "none", symvocab=True)
    obj, want = _shape(shape, i1, i2, s1, s2)
    bn.sendEncoded(obj)
    if len(bn.transport.out) != 1:
        return False
    wire = bn.transport.out[0]
    api.obs(wire)
    k = _split_cases(len(wire), split)
    err = _deliver(bn, wire, k)
    got = [_norm(x) for x in rec]
    api.obs((err, got))
    cover()
    return err is None and got == [want] and t(bn.buffer) == "" and bn.listStack == []


def vocab(w: int, s: str, pb: bool, split: int) -> bool:
    """
    pre: 0 <= w < len(WORDS)
    pre: len(s) <= 1 and all(ord(c) < 256 for c in s)
    pre: 0 <= split
    post: _
    """
    word = None
    for i in range(len(WORDS)):
        if w == i:
            word = WORDS[i]
            wid = WORD_IDS[i]
    bn, rec = _mk("pb" if pb else "none", symvocab=True, size_limit=640 * 1024)
    bn.sendEncoded([b(word), b(s), [b(word)]])
    wire = "".join(bn.transport.out)
    api.obs(wire)
    k = _split_cases(len(wire), split)
    err = _deliver(bn, wire, k)
    got = [_norm(x) for x in rec]
    cover()
    if not (err is None and got == [[("B", word), ("B", s), [("B", word)]]] and t(bn.buffer) == ""):
        return False
    # with the pb vocabulary the word travels as its id + VOCAB, without it as a STRING
    enc_word = (chr(wid) + T_VOCAB) if pb else (chr(len(word)) + T_STRING + word)
    return wire == "\x03" + T_LIST + enc_word + chr(len(s)) + T_STRING + s + "\x01" + T_LIST + enc_word


# ---- limits --------------------------------------------------------------------------------------

def enc_limits(kind: int, n: int, fill: str, i: int) -> bool:
    """
    pre: 0 <= kind <= 3 and 0 <= n <= 5
    pre: len(fill) == 5 and all(ord(c) < 256 for c in fill)
    pre: -100 <= i <= 100
    post: _
    """
    # SIZE_LIMIT is 3 here: strings / lists / tuples longer than that must be refused when sending,
    # also when nested, and nothing may reach the transport
    k = _split_cases(5, n)
    if kind == 0:
        obj, want = b(fill[:k]), ("B", fill[:k])
    elif kind == 1:
        obj, want = [i] * k, [i] * k
    elif kind == 2:
        obj, want = [i, (b(fill[:k]),)], [i, [("B", fill[:k])]]
    else:
        obj, want = ((i,) * k, i), [[i] * k, i]
    bn, rec = _mk()
    try:
        bn.sendEncoded(obj)
        raised = False
    except BananaError:
        raised = True
    cover()
    if k > 3:
        return raised and bn.transport.out == []
    if raised:
        return False
    wire = "".join(bn.transport.out)
    err = _deliver(bn, wire, len(wire) // 2)
    return err is None and [_norm(x) for x in rec] == [want]


def dec_prefix(p: str, tb: int, split: int) -> bool:
    """
    pre: len(p) <= 5 and all(ord(c) < 128 for c in p)
    pre: 0 <= tb <= 4
    pre: 0 <= split
    post: _
    """
    # prefix limit 3: a prefix of more than 3 bytes is refused, whether or not its type byte has
    # arrived; an admissible prefix is decoded to its little-endian base-128 value
    bn, rec = _mk(limit=3)
    tbs = ["", T_INT, T_NEG, T_LONGINT, T_LONGNEG]
    tbyte = ""
    for i in range(5):
        if tb == i:
            tbyte = tbs[i]
    # (not `p + ""`: CrossHair mis-compares pieces of symbolic-str + empty-str concatenations)
    stream = p if tbyte == "" else p + tbyte
    k = _split_cases(len(stream), split)
    err = _deliver(bn, stream, k)
    cover()
    val = _le128(p)
    if len(p) > 3:
        return err == "BananaError" and rec == []
    if err is not None:
        return False
    if tbyte == "":
        if rec != [] or t(bn.buffer) != p:
            return False
        # the type byte arrives later: the buffered prefix is still used
        err = _deliver(bn, T_INT, 0)
        return err is None and len(rec) == 1 and rec[0] == val and t(bn.buffer) == ""
    if len(p) == 0:
        # a bare type byte has the value 0 (b1282int of the empty prefix)
        return len(rec) == 1 and rec[0] == 0
    sign = -1 if tbyte in (T_NEG, T_LONGNEG) else 1
    return len(rec) == 1 and rec[0] == sign * val and t(bn.buffer) == ""


def dec_size(n: int, lst: bool, pad: bool, nest: bool, fill: str, split: int) -> bool:
    """
    pre: 0 <= n <= 6
    pre: len(fill) == 6 and all(ord(c) < 256 for c in fill)
    pre: 0 <= split
    post: _
    """
    # SIZE_LIMIT 3: an announced string / list length above it is refused before anything is buffered
    # or delivered - also when the COMPLETE oversized payload arrives in the same segment as its header
    # (split index 0 / len(stream)), top-level or nested in a list: every segmentation gives the same
    # verdict.  Lengths within the limit are honoured (also with a non-canonical zero-padded prefix).
    k = _split_cases(6, n)
    prefix = chr(k) + ("\0" if pad else "")
    bn, rec = _mk()
    if lst:
        stream = prefix + T_LIST + ("\x01" + T_INT) * k
    else:
        stream = prefix + T_STRING + fill[:k]
    if nest:
        stream = "\x01" + T_LIST + stream
    sp = _split_cases(len(stream), split)
    err = _deliver(bn, stream, sp)
    got = [_norm(x) for x in rec]
    cover()
    if k > 3:
        return err == "BananaError" and got == []
    if err is not None:
        return False
    if lst:
        want = [1] * k
    else:
        want = ("B", fill[:k])
    if nest:
        want = [want]
    return got == [want] and bn.listStack == [] and t(bn.buffer) == ""


def _structure_shards(tier):
    # pb dialect only for shapes whose strings reach the vocabulary lookup in a new position; the
    # shapes with two integer leaves are split by sign (halves the paths per process)
    sh = []
    signs1 = [("i1 < 0",), ("i1 >= 0",)]
    signs2 = [("i1 < 0", "i2 < 0"), ("i1 < 0", "i2 >= 0"), ("i1 >= 0", "i2 < 0"), ("i1 >= 0", "i2 == 0"),
              ("i1 >= 0", "i2 > 0")]
    for shape in range(8):
        for pb in (False, True):
            if pb and shape not in (1, 2, 7):
                continue
            base = ("shape == %d" % shape, "pb == %s" % pb)
            if shape in (3, 6):
                sh += [base + x for x in signs2]
            elif shape == 5:
                sh += [base + x for x in signs1]
            else:
                sh.append(base)
    return sh


HARNESSES = [
    H(kernel, timeout={"quick": 60, "thorough": 600}),
    H(kernel_decode, timeout={"quick": 60, "thorough": 300}),
    H(int_wire, shards=[("n >= 0",), ("n < 0",)], timeout={"quick": 60, "thorough": 900}),
    H(int_limit, timeout={"quick": 60, "thorough": 300}),
    H(structure, shards=_structure_shards, timeout={"quick": 60, "thorough": 1200}),
    H(vocab, shards=[("w == %d" % i,) for i in range(3)], timeout={"quick": 60, "thorough": 300}),
    H(enc_limits, shards=[("kind == %d" % k,) for k in range(4)], timeout={"quick": 60, "thorough": 300}),
    H(dec_prefix, shards=[("len(p) <= 2",), ("len(p) == 3",), ("len(p) >= 4",)], timeout={"quick": 60, "thorough": 300}),
    H(dec_size, shards=[("lst == True",), ("lst == False",)], timeout={"quick": 60, "thorough": 300}),
]

# vectors: values from twisted/spread/test/test_banana.py (test_int, test_largeLong, test_negative,
# test_list, test_smallLong boundaries, test_oversized*), run through the real and the lifted code
VECTORS = {
    "kernel": [(0,), (1,), (127,), (128,), (300,), (2 ** 31,), (2 ** 34 + 17,)],
    "kernel_decode": [("",), ("\x00",), ("\x7f\x01",), ("\x00\x00\x01",), ("\x01\x00",)],
    "int_wire": [(0, 0), (1, 1), (-1, 0), (10151, 2), (2 ** 31 - 1, 3), (2 ** 31, 0), (-(2 ** 31), 5),
                 (-(2 ** 31) - 1, 1), (2 ** 35, 6), (-(2 ** 35), 0)],
    "int_limit": [(0, False), (1, False), (0, True), (1, True), (-3, False), (2, True)],
    "structure": [(0, 1, 2, "a", "b", False, 0), (1, 0, 0, "\xff\x80", "", False, 2), (2, -5, 0, "", "", True, 3),
                  (3, 1000, -1000, "hi", "", False, 7), (4, 0, 0, "x", "", True, 1), (5, 16383, 0, "q", "\x00", False, 4),
                  (6, -16383, 127, "", "", True, 9), (7, 0, 0, "ab", "c", True, 5)],
    "vocab": [(0, "", True, 0), (1, "x", False, 3), (2, "\x87", True, 5), (2, "", False, 11), (1, "a", True, 2)],
    "enc_limits": [(0, 3, "abcde", 0), (0, 4, "abcde", 0), (1, 3, "abcde", -7), (1, 4, "abcde", 7),
                   (2, 4, "\x80\x81\x82\x83\x84", 1), (3, 5, "abcde", 100), (3, 0, "abcde", 2), (2, 0, "abcde", 2)],
    "dec_prefix": [("", 1, 0), ("\x01", 0, 0), ("\x01\x02\x03", 2, 2), ("\x01\x02\x03\x04", 0, 1),
                   ("\x01\x02\x03\x04", 3, 4), ("\x7f\x7f\x7f\x7f\x7f", 4, 0), ("\x00\x00\x00", 1, 3)],
    "dec_size": [(0, True, False, False, "abcdef", 0), (3, True, True, True, "abcdef", 4), (4, True, False, False, "abcdef", 1),
                 (3, False, False, False, "\x80\x81\x82\x83\x84\x85", 2), (4, False, True, False, "abcdef", 0),
                 (6, False, False, True, "abcdef", 3), (2, False, True, True, "abcdef", 5), (0, False, False, False, "abcdef", 1),
                 (4, False, False, False, "abcdef", 99), (5, False, False, True, "abcdef", 0), (6, False, True, False, "abcdef", 9)],
}


def selftest():
    n = lbytes.selftest()
    for c in (b"a", b"\x00", b"\xff"):
        assert _ord(lbytes.LBytes(c)) == ord(c)
        n += 1
    # the arithmetic bit shims on the operations banana uses
    for v in (0, 1, 127, 128, 300, 2 ** 31, 2 ** 70 + 5, 2 ** 448 - 1):
        assert lbytes.l_bitand(v, 0x7F) == v & 0x7F and lbytes.l_shr(v, 7) == v >> 7
        assert _my128(v).encode("latin-1") == _ref128(v)
        n += 2
    return n


def _ref128(v):
    out = []
    _real.int2b128(v, out.append)
    return b"".join(out)
