"""C23 HTTP client response parsing: the request completes exactly once, with exactly the body received.

Engine E2.  `HTTPParser`, `HTTPClientParser`, `_contentLength`, `HTTP11ClientProtocol` (twisted.web._newclient)
are recompiled from /repo's source onto LBytes together with `LineReceiver` (twisted.protocols.basic), the
transfer decoders `_IdentityTransferDecoder` / `_ChunkedTransferDecoder` (twisted.web.http), `_decint` /
`_hexint` (twisted.web._abnf) and `Headers` (twisted.web.http_headers).  `Response`, `TransportProxyProducer`,
Deferred, Failure are the real objects.  The response skeleton (status line, header names, framing) is
concrete and case-split by shards; body bytes and one header-value byte are symbolic (all 256 values); the
number of bytes that arrive before the connection is lost (`k`) and the segmentation point (`split`) are
symbolic ints that the harness turns into one path per position.
"""
from twisted.internet.defer import succeed
from twisted.internet.error import ConnectionDone
from twisted.internet.protocol import Protocol
from twisted.python.failure import Failure
from twisted.web import _newclient as _real
from twisted.web import http as _real_http
from twisted.web.iweb import UNKNOWN_LENGTH

from vlib import api, lbytes, lift
from vlib.api import H, cover
from vlib.lift import b, t

PROPERTY = "C23"
LEVEL = "model_checking"
ENCODED = ["twisted.web._newclient:HTTPParser.lineReceived", "twisted.web._newclient:HTTPParser.headerReceived",
           "twisted.web._newclient:HTTPParser.switchToBodyMode", "twisted.web._newclient:HTTPParser.rawDataReceived",
           "twisted.web._newclient:HTTPClientParser.statusReceived", "twisted.web._newclient:HTTPClientParser.parseVersion",
           "twisted.web._newclient:HTTPClientParser.allHeadersReceived", "twisted.web._newclient:HTTPClientParser._finished",
           "twisted.web._newclient:HTTPClientParser.connectionLost", "twisted.web._newclient:HTTPClientParser.dataReceived",
           "twisted.web._newclient:HTTPClientParser.isConnectionControlHeader", "twisted.web._newclient:_contentLength",
           "twisted.web._newclient:HTTP11ClientProtocol.request", "twisted.web._newclient:HTTP11ClientProtocol._finishResponse_WAITING",
           "twisted.web._newclient:HTTP11ClientProtocol._disconnectParser", "twisted.web._newclient:HTTP11ClientProtocol._giveUp",
           "twisted.web._newclient:HTTP11ClientProtocol.dataReceived", "twisted.web._newclient:HTTP11ClientProtocol._connectionLost_WAITING",
           "twisted.web._newclient:Response._bodyDataReceived_INITIAL", "twisted.web._newclient:Response._bodyDataReceived_CONNECTED",
           "twisted.web._newclient:Response._bodyDataFinished_INITIAL", "twisted.web._newclient:Response._bodyDataFinished_CONNECTED",
           "twisted.web._newclient:Response._deliverBody_INITIAL", "twisted.web._newclient:Response._deliverBody_DEFERRED_CLOSE",
           "twisted.web.http:_IdentityTransferDecoder", "twisted.web.http:_ChunkedTransferDecoder",
           "twisted.protocols.basic:LineReceiver.dataReceived", "twisted.web._abnf:_decint", "twisted.web._abnf:_hexint",
           "twisted.web.http_headers:Headers.addRawHeader", "twisted.web.http_headers:Headers.getRawHeaders"]
BOUNDS = {"quick": {"nb": 2}, "thorough": {"nb": 3}}
B = {}
BOUNDS_TEXT = ("21 response shapes (chunked with chunk extensions '2;x=y' / '0;z' at every split index; GET 200 Content-Length / chunked / close-delimited / 100-then-200; GET 204; GET 304; "
               "HEAD 200 with Content-Length; HEAD 200 chunked; each of the three GET 200 framings preceded by an interim "
               "100/103 response carrying Content-Length: 0 / Content-Length: 7 / Transfer-Encoding: chunked / "
               "Connection: close and a custom header; quick tier: interim shapes get the k family at protocol level "
               "and the split family at parser level), body of 0 or nb (thorough: 0..nb) symbolic bytes (+ one symbolic byte in a "
               "header value), stream <= 90 bytes; family `k`: connection lost after every number k of bytes, one "
               "delivery; family `split`: whole stream, two deliveries at every split index; body protocol attached "
               "when the response arrives or after the connection is gone; parser level and protocol level")
OUTSIDE = ["three or more deliveries; truncation combined with a split (thorough tier adds even k split at k / 2)",
           "malformed status lines / header sections (the skeleton is well-formed); several chunks; trailers",
           "pipelined bytes after a complete response at protocol level (HTTP11ClientProtocol ignores `rest`)",
           "request transmission (Request.writeTo is a stub that has finished): states TRANSMITTING*, abort(), cancel",
           "the real transport: a fake records pause/resume/loseConnection and keeps delivering (harness `paused`: a "
           "fake that holds data back while paused and delivers 0..2 held-back segments from resumeProducing())"]
ASSUMPTIONS = ["LBytes/LBuf reproduce bytes semantics for the operations used (differential selftest on every run); "
               "the lifted classes agree with the real ones on the concrete vectors (results and observation logs)",
               "HTTPParser.CONNECTION_CONTROL_HEADERS and Headers' dict are equality-lookup containers in the lifted "
               "world (hashing a symbolic name would realise it); names are concrete in every stream",
               "parser-level harness: the finisher does what HTTP11ClientProtocol._finishResponse does (disconnects "
               "the parser once)"]
EXPLANATION = ("lifted real client parser + protocol + decoders on response streams with symbolic body bytes; framing "
               "shape, truncation point and split index case-split by the solver")

lbytes.FAST_CLASS = True
lbytes.NORMALISE = True

# ---- the lifted world ---------------------------------------------------------------------------------

LA = lift.lift("twisted.web._abnf", use_re=True)
LH = lift.lift("twisted.web.http_headers", overrides={"_istoken": LA._istoken}, encode_calls=True)
LB = lift.lift("twisted.protocols.basic", names=["LineReceiver", "_PauseableMixin"])


class _NameCache:
    """stands in for _NameEncoder._canonicalHeaderCache: only concrete names are cached"""

    def __init__(self):
        self.d = {}

    def get(self, k, d=None):
        if isinstance(k, str) or lbytes._is_conc(k.s):
            return self.d.get(k, d)
        return d

    def __len__(self):
        return len(self.d)

    def __setitem__(self, k, v):
        if isinstance(k, str) or (lbytes._is_conc(k.s) and lbytes._is_conc(v.s)):
            self.d[k] = v


if LH.__real__:
    Headers = LH.Headers
else:
    LH._nameEncoder._canonicalHeaderCache = _NameCache()
    LH._NameEncoder._caseMappings = lbytes.SymDict(LH._NameEncoder._caseMappings)

    class Headers(LH.Headers):
        """lifted Headers; name -> values map looked up by equality instead of hashing"""
        __slots__ = []

        def __init__(self, rawHeaders=None):
            self._rawHeaders = lbytes.SymDict()
            if rawHeaders is not None:
                for name, values in rawHeaders.items():
                    self.setRawHeaders(name, values)

LHT = lift.lift("twisted.web.http", names=["_IdentityTransferDecoder", "_ChunkedTransferDecoder", "_chunkExtChars"],
                overrides={"_hexint": LA._hexint, "_ishexdigits": LA._ishexdigits})
L = lift.lift("twisted.web._newclient", names=["HTTPParser", "HTTPClientParser", "_contentLength", "HTTP11ClientProtocol"],
              overrides={"LineReceiver": LB.LineReceiver, "Headers": Headers, "_decint": LA._decint,
                         "_IdentityTransferDecoder": LHT._IdentityTransferDecoder,
                         "_ChunkedTransferDecoder": LHT._ChunkedTransferDecoder})
if not L.__real__:
    L.HTTPParser.CONNECTION_CONTROL_HEADERS = lbytes.SymSet(list(L.HTTPParser.CONNECTION_CONTROL_HEADERS))
    L.HTTPClientParser._transferDecoders = lbytes.SymDict(list(L.HTTPClientParser._transferDecoders.items()))

ResponseDone, ResponseFailed, ResponseNeverReceived = _real.ResponseDone, _real.ResponseFailed, _real.ResponseNeverReceived
PotentialDataLoss = _real_http.PotentialDataLoss

# ---- streams ------------------------------------------------------------------------------------------

# (method, blocks before the final head, status line, framing, has body)
SHAPES = [
    ("GET", "", "HTTP/1.1 200 OK", "cl", True),
    ("GET", "", "HTTP/1.1 200 OK", "chunked", True),
    ("GET", "", "HTTP/1.1 200 OK", "close", True),
    ("GET", "HTTP/1.1 100 Continue\r\nX-I: 1\r\n\r\n", "HTTP/1.1 200 OK", "cl", True),
    ("GET", "", "HTTP/1.1 204 No Content", "none", False),
    ("GET", "", "HTTP/1.1 304 Not Modified", "cl5", False),
    ("HEAD", "", "HTTP/1.1 200 OK", "cl5", False),
    ("HEAD", "", "HTTP/1.0 200 OK", "chunked", False),
]
CODES = [200, 200, 200, 200, 204, 304, 200, 200]
# interim (1xx) responses that carry headers of their own, in front of every final framing: nothing of an
# interim response may influence the framing, the headers or the body of the final response
INTERIMS = [
    "HTTP/1.1 100 Continue\r\nContent-Length: 0\r\nX-I: 1\r\n\r\n",
    "HTTP/1.1 100 Continue\r\nContent-Length: 7\r\n\r\n",
    "HTTP/1.1 103 Early Hints\r\nTransfer-Encoding: chunked\r\nX-I: 1\r\n\r\n",
    "HTTP/1.1 100 Continue\r\nConnection: close\r\nX-I: 1\r\n\r\n",
]
NBASE = len(SHAPES)
for _fr in ("cl", "chunked", "close"):
    for _it in INTERIMS:
        SHAPES.append(("GET", _it, "HTTP/1.1 200 OK", _fr, True))
        CODES.append(200)
# chunked body whose size lines carry a chunk extension (RFC 9112 7.1.1: ignored by the recipient)
XSHAPE = len(SHAPES)
SHAPES.append(("GET", "", "HTTP/1.1 200 OK", "chunkedx", True))
CODES.append(200)


def _build(shape, body, hv):
    """-> (method, head text, wire text after the head, offset of the body data inside wire, kind)"""
    method, pre, status, framing, hasbody = SHAPES[shape]
    head = pre + status + "\r\nX-A: a" + hv + "b\r\n"
    nb = _pos(8, len(body))
    if framing == "cl":
        head += "Content-Length: %d\r\n" % nb
    elif framing == "cl5":
        head += "Content-Length: 5\r\n"
    elif framing in ("chunked", "chunkedx"):
        head += "Transfer-Encoding: chunked\r\n"
    head += "\r\n"
    if not hasbody:
        # bytes following a response that has no body belong to the next message
        return method, head, body, 0, "nobody"
    if framing == "cl":
        return method, head, body + "Z", 0, "cl"
    if framing == "chunkedx":
        if nb == 0:
            return method, head, "0;x=y\r\n\r\nZ", 0, "chunked"
        return method, head, "%x;x=y\r\n" % nb + body + "\r\n0;z\r\n\r\nZ", 7, "chunked"
    if framing == "chunked":
        if nb == 0:
            return method, head, "0\r\n\r\nZ", 0, "chunked"
        return method, head, "%x\r\n" % nb + body + "\r\n0\r\n\r\nZ", 3, "chunked"
    return method, head, body, 0, "close"


def _pos(n, v):
    """turn a symbolic position into one concrete-position path per value 0..n"""
    for k in range(n + 1):
        if v == k:
            return k
    return n


class _Transport:
    disconnecting = False

    def __init__(self):
        self.ev = []

    def write(self, data):
        pass

    def writeSequence(self, seq):
        pass

    def pauseProducing(self):
        self.ev.append("pause")

    def resumeProducing(self):
        self.ev.append("resume")

    def stopProducing(self):
        self.ev.append("stop")

    def loseConnection(self):
        self.ev.append("lose")

    def abortConnection(self):
        self.ev.append("abort")


class _Body(Protocol):
    def __init__(self):
        self.data = []
        self.lost = []
        self.made = 0

    def connectionMade(self):
        self.made += 1

    def dataReceived(self, data):
        if self.lost:
            self.data.append("<data after connectionLost>")
        self.data.append(t(data))

    def connectionLost(self, reason):
        self.lost.append(reason)


class _Request:
    uri = b"/"
    headers = None
    bodyProducer = None
    absoluteURI = b"http://h/"

    def __init__(self, method, persistent):
        self.method = b(method)
        self.persistent = persistent

    def writeTo(self, transport):
        return succeed(None)

    def stopWriting(self):
        pass


def _expect(shape, body, hv, k, split, resp, fails, bp, fin, level):
    """the oracle: what the request Deferred, the body protocol and the finisher must have seen when the
    first k bytes of the stream arrived (in the pieces [0, split) and [split, k)) and the connection then
    closed.  Written from the property statement / RFC 9112 6.3, not from the code."""
    method, head, wire, doff, kind = _build(shape, body, hv)
    nb = _pos(B['nb'], len(body))
    chead, cwire = _build(shape, "?" * nb, "?")[1:3]
    hl = len(chead)
    if k < hl:
        # headers incomplete: a failure, exactly once; no response, nothing for a body protocol
        if resp or len(fails) != 1 or fin:
            return False
        f = fails[0]
        if not f.check(ResponseFailed):
            return False
        if (k == 0) != (f.check(ResponseNeverReceived) is not None):
            return False
        return True
    if len(resp) != 1 or fails:
        return False
    r = resp[0]
    if r.code != CODES[shape]:
        return False
    got = r.headers.getRawHeaders(b("x-a"))
    if got is None or len(got) != 1:
        return False
    # only the final response's own entity headers are visible (Content-Length is one for HEAD); nothing
    # of an interim response is
    if r.headers.hasHeader(b("x-i")) or len(list(r.headers.getAllRawHeaders())) != (2 if shape == 6 else 1):
        return False
    if hv == "\r":
        # RFC 9112 2.2: a bare CR in a field value is invalid or is replaced by SP
        if t(got[0]) != "a b":
            return False
    elif t(got[0]) != "a" + hv + "b":
        return False
    if bp.made != 1 or len(bp.lost) != 1:
        return False
    data = "".join(bp.data)
    reason = bp.lost[0]
    avail = k - hl                      # bytes of `wire` that arrived
    # the piece in which a given stream offset arrived ends at:
    def piece_end(off):
        return split if off <= split and split > 0 else k
    if kind == "nobody":
        if r.length != 0:
            return False
        if data != "" or not reason.check(ResponseDone):
            return False
        return level == "proto" or fin == [(head + wire)[hl:piece_end(hl)]]
    if kind == "cl":
        if r.length != nb:
            return False
        if data != wire[:min(avail, nb)]:
            return False
        if avail >= nb:
            if not reason.check(ResponseDone):
                return False
            return level == "proto" or fin == [(head + wire)[hl + nb:piece_end(hl + nb)]]
        return reason.check(ResponseFailed) is not None and fin == []
    if kind == "chunked":
        if r.length is not UNKNOWN_LENGTH:
            return False
        if data != body[:max(0, min(nb, avail - doff))]:
            return False
        end = len(cwire) - 1            # the terminating CRLF of the last-chunk section; 'Z' is extra
        if avail >= end:
            if not reason.check(ResponseDone):
                return False
            return level == "proto" or fin == [(head + wire)[hl + end:piece_end(hl + end)]]
        return reason.check(ResponseFailed) is not None and fin == []
    # close-delimited: everything up to the close is the body; the end cannot be told from truncation
    if r.length is not UNKNOWN_LENGTH:
        return False
    if data != wire[:avail]:
        return False
    return reason.check(PotentialDataLoss) is not None and len(fin) <= 1


def _complete(shape, body, k):
    """did the whole (self-delimited) response arrive within the first k bytes?"""
    nb = _pos(B['nb'], len(body))
    method, chead, cwire, doff, kind = _build(shape, "?" * nb, "?")
    avail = k - len(chead)
    if kind == "nobody":
        return avail >= 0
    if kind == "cl":
        return avail >= nb
    if kind == "chunked":
        return avail >= len(cwire) - 1
    return False


def _drive_parser(shape, body, hv, k, split, late):
    method, head, wire, doff, kind = _build(shape, body, hv)
    stream = head + wire
    resp, fails, fin = [], [], []
    bp = _Body()
    tr = _Transport()
    st = {"lost": False}

    def disconnect():
        # HTTP11ClientProtocol._disconnectParser: at most once
        if not st["lost"]:
            st["lost"] = True
            p.connectionLost(Failure(ConnectionDone()))

    def finisher(rest):
        fin.append(t(rest))
        disconnect()

    def onresp(r):
        resp.append(r)
        if not late:
            r.deliverBody(bp)

    p = L.HTTPClientParser(_Request(method, True), finisher)
    p.makeConnection(tr)
    p._responseDeferred.addCallbacks(onresp, lambda f: fails.append(f) and None)
    if split > 0:
        p.dataReceived(b(stream[:split]))
    if split < k and not st["lost"]:
        p.dataReceived(b(stream[split:k]))
    disconnect()
    if late and resp:
        resp[0].deliverBody(bp)
    return resp, fails, bp, fin


def _drive_proto(shape, body, hv, k, split, late, persistent):
    method, head, wire, doff, kind = _build(shape, body, hv)
    stream = head + wire
    resp, fails = [], []
    bp = _Body()
    tr = _Transport()
    qc = []

    def onresp(r):
        resp.append(r)
        if not late:
            r.deliverBody(bp)

    pr = L.HTTP11ClientProtocol(qc.append)
    pr.makeConnection(tr)
    d = pr.request(_Request(method, persistent))
    d.addCallbacks(onresp, lambda f: fails.append(f) and None)
    if split > 0:
        pr.dataReceived(b(stream[:split]))
    if split < k and pr.state == "WAITING":
        # after the response is complete the connection is idle or closing: nothing more is fed
        pr.dataReceived(b(stream[split:k]))
    pr.connectionLost(Failure(ConnectionDone()))
    if late and resp:
        resp[0].deliverBody(bp)
    return resp, fails, bp, tr, qc, pr


def _chars(s):
    """the same text rebuilt from its characters: a symbolic str of fixed length becomes a sequence of
    known length with symbolic elements (cheaper for every later slice)"""
    n = _pos(8, len(s))
    return "".join([s[i] for i in range(n)])


def _args(shape, body, hv, k, split):
    # lengths are taken from a concrete stand-in stream (len() of a partly symbolic text is a symbolic int)
    nb = _pos(B['nb'], len(body))
    method, head, wire, doff, kind = _build(shape, "?" * nb, "?")
    n = len(head) + len(wire)
    kk = n if k < 0 else _pos(n, k)
    sp = _pos(kk, split)
    return kk, sp


def parser(shape: int, body: str, hv: str, k: int, split: int, late: bool) -> bool:
    """
    pre: 0 <= shape < len(SHAPES) and len(body) <= B['nb'] and len(hv) == 1
    pre: all(ord(c) < 256 for c in body + hv) and hv != "\\n"
    pre: -1 <= k and 0 <= split
    post: _
    """
    sh = _pos(len(SHAPES) - 1, shape)
    body, hv = _chars(body), _chars(hv)
    kk, sp = _args(sh, body, hv, k, split)
    resp, fails, bp, fin = _drive_parser(sh, body, hv, kk, sp, late)
    api.obs((len(resp), len(fails), bp.data, len(bp.lost), fin))
    cover()
    return _expect(sh, body, hv, kk, sp, resp, fails, bp, fin, "parser")


def proto(shape: int, body: str, hv: str, k: int, split: int, late: bool, persistent: bool) -> bool:
    """
    pre: 0 <= shape < len(SHAPES) and len(body) <= B['nb'] and len(hv) == 1
    pre: all(ord(c) < 256 for c in body + hv) and hv != "\\n"
    pre: -1 <= k and 0 <= split
    post: _
    """
    sh = _pos(len(SHAPES) - 1, shape)
    body, hv = _chars(body), _chars(hv)
    kk, sp = _args(sh, body, hv, k, split)
    resp, fails, bp, tr, qc, pr = _drive_proto(sh, body, hv, kk, sp, late, persistent)
    api.obs((len(resp), len(fails), bp.data, len(bp.lost), tr.ev, len(qc), pr.state))
    cover()
    if not _expect(sh, body, hv, kk, sp, resp, fails, bp, [], "proto"):
        return False
    # the connection is handed back for reuse exactly when a complete, self-delimited response arrived on
    # a persistent request (once, and then the protocol does not close it itself)
    if (len(qc) == 1) != (persistent and _complete(sh, body, kk)) or len(qc) > 1:
        return False
    if qc and (qc[0] is not pr or "lose" in tr.ev or "abort" in tr.ev):
        return False
    return pr.state == "CONNECTION_LOST"


# ---- a transport that honours pauseProducing ---------------------------------------------------------------

class _PausingTransport(_Transport):
    """bytes 'from the network' are held back while the protocol has paused the transport; up to `burst` of
    the held-back segments are handed to the protocol synchronously from inside resumeProducing() (what TLS
    and other buffering transports do), the rest on the next reactor turn (pump)"""

    def __init__(self, burst):
        _Transport.__init__(self)
        self.burst = burst
        self.pending = []
        self.paused = False
        self.closed = False
        self.proto = None

    def pauseProducing(self):
        self.ev.append("pause")
        self.paused = True

    def resumeProducing(self):
        self.ev.append("resume")
        self.paused = False
        n = 0
        while self.pending and not self.paused and n < self.burst:
            n += 1
            self._deliver(self.pending.pop(0))

    def loseConnection(self):
        self.ev.append("lose")
        self.closed = True

    def abortConnection(self):
        self.ev.append("abort")
        self.closed = True

    def _deliver(self, seg):
        if not self.closed:
            self.proto.dataReceived(b(seg))

    def feed(self, seg):
        if self.paused or self.pending:
            self.pending.append(seg)
        else:
            self._deliver(seg)

    def pump(self):
        while self.pending and not self.paused:
            self._deliver(self.pending.pop(0))


def _cuts(n):
    return [0, 1, n // 2, n]


def paused(shape: int, body: str, c1: int, c2: int, when: int, burst: int) -> bool:
    """
    pre: 0 <= shape <= 2 and len(body) == 2 and all(ord(c) < 256 for c in body)
    pre: 0 <= c1 <= c2 <= 3 and 0 <= when <= 2 and 0 <= burst <= 2
    post: _
    """
    # complete response (Content-Length / chunked / close-delimited) in up to three segments
    # [head + wire[:a]] [wire[a:b]] [wire[b:]]; the application calls deliverBody() in the request callback
    # (when == 0) or on a later turn, after `when` more segments reached the (paused) transport
    sh = _pos(2, shape)
    body = _chars(body)
    method, head, wire, doff, kind = _build(sh, body, "x")
    chead, cwire = _build(sh, "??", "x")[1:3]
    if kind != "close":
        wire, cwire = wire[:len(cwire) - 1], cwire[:-1]     # no pipelined byte here
    hl, wl = len(chead), len(cwire)
    cuts = _cuts(wl)
    a = _pos(wl, cuts[_pos(3, c1)])
    bb = _pos(wl, cuts[_pos(3, c2)])
    wh = _pos(2, when)
    stream = head + wire
    segs = [stream[:hl + a]]
    if bb > a:
        segs.append(stream[hl + a:hl + bb])
    if wl > bb:
        segs.append(stream[hl + bb:hl + wl])
    resp, fails = [], []
    bp = _Body()
    tr = _PausingTransport(_pos(2, burst))
    qc = []

    def onresp(r):
        resp.append(r)
        if wh == 0:
            r.deliverBody(bp)

    pr = L.HTTP11ClientProtocol(qc.append)
    tr.proto = pr
    pr.makeConnection(tr)
    d = pr.request(_Request(method, True))
    d.addCallbacks(onresp, lambda f: fails.append(f) and None)
    delivered = wh == 0
    for i, seg in enumerate(segs):
        if not delivered and i >= wh and resp:
            delivered = True
            resp[0].deliverBody(bp)
        tr.pump()
        tr.feed(seg)
    if not delivered and resp:
        resp[0].deliverBody(bp)
    tr.pump()
    if tr.pending:
        return False        # the transport was left paused although a consumer is attached
    pr.connectionLost(Failure(ConnectionDone()))
    api.obs((len(resp), len(fails), bp.data, len(bp.lost), tr.ev, len(qc), pr.state))
    cover()
    if not _expect(sh, body, "x", hl + wl, 0, resp, fails, bp, [], "proto"):
        return False
    if "".join(bp.data) != (wire if kind == "close" else body):
        return False
    if (len(qc) == 1) != (kind != "close") or "abort" in tr.ev or (qc and "lose" in tr.ev):
        return False
    return pr.state == "CONNECTION_LOST"


def _shards_for(hname):
    def shards(tier):
        out = []
        nb = BOUNDS[tier]["nb"]
        quick = tier == "quick"
        for s in range(len(SHAPES)):
            if quick and s == 3:
                continue     # subsumed by the interim-with-headers shapes (kept in the thorough tier)
            interim = NBASE <= s < XSHAPE
            if s == XSHAPE:
                # every split index of the whole stream at both levels (thorough: all families, all lengths)
                for n in ([nb] if quick else list(range(0, nb + 1))):
                    out.append(("shape == %d" % s, "len(body) == %d" % n, "k == -1", "split >= 1"))
                    if not quick:
                        out.append(("shape == %d" % s, "len(body) == %d" % n, "split == 0"))
                continue
            lens = [nb] if (s >= 4) else ([0, nb] if quick else list(range(0, nb + 1)))
            for n in lens:
                fam_k = ("shape == %d" % s, "len(body) == %d" % n, "split == 0")
                fam_split = ("shape == %d" % s, "len(body) == %d" % n, "k == -1", "split >= 1")
                # quick tier, interim shapes: truncation family at protocol level, split family at parser level
                if not (quick and interim and hname == "parser"):
                    out.append(fam_k)
                if not (quick and interim and hname == "proto"):
                    out.append(fam_split)
                if not quick:   # truncation combined with a split in the middle of what arrived
                    out.append(("shape == %d" % s, "len(body) == %d" % n, "k >= 2", "split * 2 == k"))
        return out
    return shards


def _shards(tier):
    return _shards_for("all")(tier)


HARNESSES = [
    H(parser, shards=_shards_for("parser"), timeout={"quick": 200, "thorough": 1500}),
    H(proto, shards=_shards_for("proto"), timeout={"quick": 200, "thorough": 1500}),
    H(paused, shards=[("shape == 0",), ("shape == 1",), ("shape == 2",)], timeout={"quick": 200, "thorough": 600}),
]

VECTORS = {
    "paused": [(0, "hi", 0, 3, 1, 2), (0, "hi", 1, 2, 2, 1), (1, "hi", 0, 2, 1, 1), (1, "ab", 2, 3, 2, 0),
               (2, "zz", 0, 1, 1, 2), (2, "zz", 3, 3, 0, 0), (1, "hi", 0, 0, 2, 2), (0, "hi", 2, 2, 1, 0)],
    "parser": [(0, "hi", "x", -1, 0, False), (0, "hi", "x", 30, 0, True), (0, "", ":", -1, 20, False),
               (1, "\r\n", " ", -1, 50, False), (1, "ab", "x", 52, 0, False), (1, "", "x", -1, 3, True),
               (2, "zz", "\t", -1, 33, False), (2, "", "x", 10, 0, False), (3, "q", "x", -1, 24, False),
               (3, "q", "x", 27, 0, True), (4, "XY", "x", -1, 0, False), (5, "XY", "x", -1, 40, True),
               (6, "XY", "x", -1, 0, False), (7, "XY", "x", -1, 45, False), (0, "hi", "x", 0, 0, False),
               (0, "hi", "\r", -1, 0, False), (8, "hi", "x", -1, 0, False), (9, "hi", "x", -1, 60, True),
               (10, "hi", "x", -1, 0, False), (13, "hi", "x", -1, 70, False), (16, "hi", "x", -1, 0, False),
               (18, "hi", "x", -1, 66, False), (19, "", "x", -1, 0, True), (17, "hi", "x", 80, 0, False),
               (20, "hi", "x", -1, 52, False), (20, "hi", "x", -1, 51, True), (20, "", "x", -1, 50, False),
               (20, "hi", "x", 61, 0, False)],
    "proto": [(0, "hi", "x", -1, 0, False, True), (0, "hi", "x", 30, 0, True, False), (1, "ab", "x", -1, 49, False, True),
              (1, "ab", "x", 55, 0, False, True), (2, "zz", "x", -1, 5, True, True), (3, "q", "x", -1, 25, False, False),
              (4, "XY", "x", -1, 0, False, True), (5, "XY", "x", -1, 1, True, True), (6, "XY", "x", -1, 0, False, False),
              (7, "XY", "x", -1, 44, False, True), (0, "hi", "x", 0, 0, False, True), (2, "", "x", 17, 0, False, True),
              (8, "hi", "x", -1, 0, False, True), (9, "hi", "x", -1, 0, False, True), (11, "hi", "x", -1, 0, False, True),
              (12, "hi", "x", -1, 61, False, True), (15, "hi", "x", -1, 0, True, True), (16, "hi", "x", -1, 0, False, True),
              (17, "hi", "x", 85, 0, False, False), (19, "hi", "x", -1, 30, False, True),
              (20, "hi", "x", -1, 52, False, True), (20, "hi", "x", -1, 53, True, False), (20, "hi", "x", -1, 0, False, True)],
}


def selftest():
    return lbytes.selftest()
