"""C58 ClientService: one connection or attempt at a time, retries wait, every waiter is resolved.

Public API only (`ClientService(endpoint, factory, retryPolicy, clock, prepareConnection)`,
startService, stopService, whenConnected) plus the environment's side: the fake endpoint's connect
Deferred (fired / failed by the harness, cancellation observed), `protocol.connectionLost` delivered
through the factory wrapper ClientService handed to the endpoint, a prepareConnection hook whose
Deferred the harness fires or fails, and the real `task.Clock`.  The solver chooses the event
history; the harness keeps an independent specification-level book (what must have happened by
now) and compares it after every event.
"""
from twisted.application.internet import ClientService
from twisted.internet.defer import CancelledError, Deferred
from twisted.internet.error import ConnectError, ConnectionDone
from twisted.internet.task import Clock
from twisted.python.failure import Failure

from vlib.api import H, cover

PROPERTY = "C58"
LEVEL = "model_checking"
ENCODED = ["twisted.application._client_service:makeMachine", "twisted.application._client_service:_Core",
           "twisted.application._client_service:ClientService",
           "twisted.application._client_service:_DisconnectFactory",
           "twisted.application._client_service:_ReconnectingProtocolProxy",
           "twisted.internet.task:Clock.advance", "twisted.internet.task:Clock.callLater"]
BOUNDS = {"quick": {"plain": 5, "prep": 5, "k": 2}, "thorough": {"plain": 7, "prep": 6, "k": 3}}
B = {}
BOUNDS_TEXT = ("every history of <= plain events (no prepareConnection hook; the application protocol's own connectionLost() symbolically returns or raises) and of <= prep events (hook returning a "
               "Deferred the harness fires or fails later; with a hook returning at once: one event less) over "
               "{startService, stopService, whenConnected(None), whenConnected(k) with k symbolic in 0..k (0 and 1 both mean: fail at the next failed attempt), attempt "
               "succeeds, attempt fails, connection drops, prepareConnection Deferred succeeds / fails, advance the "
               "clock to the retry / by half the remaining delay}; retry policy 1, 2, 4, ... seconds for the 1st, "
               "2nd, 3rd consecutive failure (concrete floats)")
OUTSIDE = ["an application protocol whose connectionLost() raises is part of `plain` only (symbolic flag), not of `prep`",
           "calling stopService / whenConnected re-entrantly from a whenConnected callback (automat refuses a "
           "re-entrant input that returns a value); protocol factories returning None; retry policies with symbolic "
           "or non-positive delays; the default jittered backoffPolicy; real endpoints/reactors",
           "attempt Deferreds whose canceller fires them itself; prepareConnection Deferreds with their own canceller",
           "histories longer than the bound",
           "the three OPEN findings about the prepareConnection window (stop / connection loss while the hook's "
           "Deferred is pending; a rejected connection is left open) are excluded exactly by EXCLUDE while open"]
ASSUMPTIONS = ["an event that cannot happen in the current state (firing an attempt that is not pending, dropping a "
               "connection that does not exist, advancing a clock with no timer, a duplicate startService - which "
               "is executed and checked to change nothing) ends the path: the history without it is inside the bound",
               "the fake endpoint fires its Deferred with the protocol built by the factory ClientService passed "
               "to connect(), after makeConnection, as stream endpoints do; cancelling an attempt fails it at once "
               "with CancelledError (Deferred.cancel semantics)",
               "the harness's book (want/ consecutive failures / per-waiter failure counts / connection at stop "
               "time) is the specification the observations are compared with"]
EXPLANATION = ("real ClientService driven through its public API by a solver-chosen event history with a fake "
               "endpoint/transport and the real task.Clock; after every event the observations are compared with a "
               "specification-level book")

START, STOP, WC_NONE, WC_K, SUCCEED, FAIL, DROP, PREP_OK, PREP_FAIL, ADV_FULL, ADV_HALF = range(11)


class _Boom(Exception):
    pass


class _LostBoom(Exception):
    pass


class _Proto:
    def __init__(self, lost_raises=False):
        self.transport = None
        self.lost = 0
        self.lost_raises = lost_raises    # the application's own connectionLost() raises

    def makeConnection(self, transport):
        self.transport = transport

    def connectionLost(self, reason):
        self.lost += 1
        if self.lost_raises:      # decided by the solver here, at the first lost connection
            raise _LostBoom()


class _Factory:
    def __init__(self, lost_raises=False):
        self.lost_raises = lost_raises

    def buildProtocol(self, addr):
        return _Proto(self.lost_raises)


class _Transport:
    def __init__(self):
        self.lose_called = 0

    def loseConnection(self):
        self.lose_called += 1


class _Conn:
    def __init__(self, proxy, proto, transport):
        self.proxy, self.proto, self.transport = proxy, proto, transport
        self.open = True
        self.accepted = False     # prepareConnection finished successfully (or there is no hook)
        self.rejected = False


class _Attempt:
    def __init__(self, factory):
        self.factory = factory
        self.status = "pending"
        self.d = Deferred(canceller=self._cancel)

    def _cancel(self, d):
        self.status = "cancelled"


class _Waiter:
    def __init__(self, limit):
        self.limit = limit       # None or int
        self.fails = 0           # attempt failures seen while pending
        self.results = []        # ("ok", proto) | ("fail", exception class)
        self.expect = None       # what the book says it must have resolved to (None = still pending)

    def fired(self, r):
        self.results.append(("ok", r))
        return r

    def failed(self, f):
        self.results.append(("fail", f.type))
        return None


class _Stop:
    def __init__(self, conn):
        self.conn = conn        # the connection that was open when stopService was called
        self.fired = 0


class _Env:
    def __init__(self, use_prep, lost_raises=False):
        self.clock = Clock()
        self.bad = None
        self.attempts = []
        self.conns = []
        self.prep_pending = []      # (Deferred, conn)
        self.waiters = []
        self.stops = []
        # the book
        self.ever_started = False
        self.want = False           # started and not stopped since
        self.stopped_once = False   # some stopService has completed and no start since
        self.fails = 0              # consecutive failures (no established connection in between)
        self.not_before = None      # earliest time the next attempt may start
        self.policy_calls = []
        self.svc = ClientService(self, _Factory(lost_raises), retryPolicy=self.policy, clock=self.clock,
                                 prepareConnection=(None if use_prep == 0 else
                                                    self.prepare if use_prep == 1 else self.prepare_sync))
        self.sync_prepared = []
        self.use_prep = use_prep

    def flag(self, what):
        if self.bad is None:
            self.bad = what

    # ---- environment objects handed to ClientService ----
    def policy(self, n):
        self.policy_calls.append(n)
        if n != self.fails:
            self.flag("retry policy consulted with the wrong failure count")
        return _delay(n)

    def connect(self, factory):       # IStreamClientEndpoint.connect
        if self.pending_attempt() is not None:
            self.flag("second attempt while one is in progress")
        if self.current_conn() is not None:
            self.flag("attempt while a connection is open")
        if not self.want:
            self.flag("attempt although the service is stopped")
        if self.not_before is not None and self.clock.seconds() < self.not_before:
            self.flag("retry before the policy delay")
        self.not_before = None
        a = _Attempt(factory)
        self.attempts.append(a)
        return a.d

    def _conn_of(self, protocol):
        conn = None
        for c in self.conns:
            if c.proto is protocol or c.proxy is protocol:
                conn = c
        if conn is None:
            self.flag("prepareConnection called with an unknown protocol")
        return conn

    def prepare(self, protocol):           # hook returning a Deferred the harness fires later
        d = Deferred()
        conn = self._conn_of(protocol)
        if conn is not None and (conn.proto.transport is None or self.waiters_fired_with(conn.proto)):
            self.flag("prepareConnection must run after makeConnection and before any waiter fires")
        self.prep_pending.append((d, conn))
        return d

    def prepare_sync(self, protocol):      # hook returning at once; its result must be ignored
        conn = self._conn_of(protocol)
        if conn is not None and (conn.proto.transport is None or self.waiters_fired_with(conn.proto)):
            self.flag("prepareConnection must run after makeConnection and before any waiter fires")
        self.sync_prepared.append(conn)
        return "ignored"

    def waiters_fired_with(self, proto):
        for w in self.waiters:
            if w.results and w.results[0][0] == "ok" and w.results[0][1] is proto:
                return True
        return False

    # ---- queries ----
    def pending_attempt(self):
        for a in self.attempts:
            if a.status == "pending":
                return a
        return None

    def current_conn(self):
        """the open connection the service is responsible for (not one it rejected)"""
        for c in self.conns:
            if c.open and not c.rejected:
                return c
        return None

    def established(self):
        c = self.current_conn()
        if c is not None and c.accepted:
            return c
        return None

    # ---- the book: what the specification says must happen ----
    def book_failure(self, counts_for_waiters):
        """an attempt failed / the established connection dropped while the service wants one"""
        self.fails += 1
        self.not_before = self.clock.seconds() + _delay(self.fails)
        if counts_for_waiters:
            for w in self.waiters:
                if w.expect is None and w.limit is not None:
                    w.fails += 1
                    if w.fails >= w.limit:
                        w.expect = "fail"

    def book_connected(self, conn):
        conn.accepted = True
        self.fails = 0
        for w in self.waiters:
            if w.expect is None:
                w.expect = conn.proto

    def book_cancel_waiters(self):
        for w in self.waiters:
            if w.expect is None:
                w.expect = "cancelled"

    def check(self):
        for w in self.waiters:
            if len(w.results) > 1:
                return self.flag("whenConnected Deferred fired twice")
            if w.expect is None:
                if w.results:
                    return self.flag("whenConnected Deferred fired although nothing happened")
            else:
                if not w.results:
                    return self.flag("whenConnected Deferred not fired by its deadline")
                kind, val = w.results[0]
                if w.expect == "cancelled":
                    if not (kind == "fail" and val is CancelledError):
                        return self.flag("waiter not cancelled")
                elif w.expect == "fail":
                    if not (kind == "fail" and (val is ConnectError or val is _Boom or val is CancelledError)):
                        return self.flag("waiter not failed at its limit")
                else:
                    if not (kind == "ok" and val is w.expect):
                        return self.flag("waiter did not get the connected protocol")
        for s in self.stops:
            if s.fired > 1:
                return self.flag("stopService Deferred fired twice")
            closed = s.conn is None or not s.conn.open
            if closed and s.fired != 1:
                return self.flag("stopService Deferred not fired although the connection is closed")
            if not closed and s.fired != 0:
                return self.flag("stopService Deferred fired while the connection is open")
            if s.conn is not None and s.conn.transport.lose_called < 1:
                return self.flag("loseConnection not called")
        if self.pending_attempt() is not None and self.current_conn() is not None:
            return self.flag("attempt and connection at the same time")
        n = 0
        for c in self.conns:
            if c.open and not c.rejected:
                n += 1
        if n > 1:
            return self.flag("two open connections")
        if not self.want and self.current_conn() is None:
            if self.pending_attempt() is not None or self.clock.getDelayedCalls():
                return self.flag("stopped service still has an attempt or a retry timer")
        return None


def _delay(n):
    # retry policy: 1, 2, 4, ... seconds for the 1st, 2nd, 3rd consecutive failure
    d = 1.0
    for _i in range(n - 1):
        d = d * 2.0
    return d


def _run(use_prep, ops, ks, lost_raises=False):
    env = _Env(use_prep, lost_raises)
    svc = env.svc
    for i in range(len(ops)):
        o = ops[i]
        if o == START:
            if env.want:
                svc.startService()      # duplicate start: must change nothing (a no-op event)
                env.check()
                return env.bad is None
            env.want = True
            env.ever_started = True
            env.stopped_once = False
            env.not_before = None       # a fresh start is not a retry
            svc.startService()
            if env.current_conn() is None and env.pending_attempt() is None:
                return False            # a started service with no connection must be connecting
        elif o == STOP:
            cur = env.current_conn()
            att = env.pending_attempt()
            env.want = False
            env.not_before = None
            st = _Stop(cur)
            env.stops.append(st)
            if cur is None:
                env.book_cancel_waiters()
                env.stopped_once = True
            d = svc.stopService()

            def _fired(r, st=st):
                st.fired += 1
                return r
            d.addBoth(_fired)
            if att is not None and att.status != "cancelled":
                return False            # the attempt in progress must be cancelled by stopService
        elif o == WC_NONE or o == WC_K:
            w = _Waiter(None if o == WC_NONE else ks[i])
            est = env.established()
            closing = False
            for s in env.stops:
                if s.conn is not None and s.conn.open:
                    closing = True
            if est is not None and not closing:
                w.expect = est.proto
            elif env.stopped_once and not env.want and env.current_conn() is None:
                w.expect = "cancelled"
            env.waiters.append(w)
            d = svc.whenConnected(failAfterFailures=w.limit)
            d.addCallbacks(w.fired, w.failed)
        elif o == SUCCEED:
            att = env.pending_attempt()
            if att is None:
                return True             # no-op event
            proxy = att.factory.buildProtocol(None)
            tr = _Transport()
            proxy.makeConnection(tr)
            conn = _Conn(proxy, proxy._protocol, tr)
            if conn.proto.transport is not tr:
                return False
            env.conns.append(conn)
            att.status = "ok"
            if use_prep != 1:
                env.book_connected(conn)
            att.d.callback(proxy)
            if use_prep == 2 and (len(env.sync_prepared) != len(env.conns) or env.sync_prepared[-1] is not conn):
                return False            # the hook runs once per new connection
        elif o == FAIL:
            att = env.pending_attempt()
            if att is None:
                return True
            att.status = "failed"
            env.book_failure(True)
            att.d.errback(Failure(ConnectError()))
        elif o == DROP:
            conn = None
            for c in env.conns:
                if c.open:
                    conn = c
                    break
            if conn is None:
                return True
            conn.open = False
            closing = False
            if not conn.rejected:
                for s in env.stops:
                    if s.conn is conn:
                        closing = True
                if closing:
                    if not env.want:
                        env.book_cancel_waiters()
                        env.stopped_once = True
                elif conn.accepted:
                    env.book_failure(False)
                else:
                    env.book_failure(True)   # lost while prepareConnection was still pending
            try:
                conn.proxy.connectionLost(Failure(ConnectionDone()))
            except _LostBoom:
                pass    # the application protocol's own error comes back to the transport; the service
                #         must have been told about the lost connection all the same (checks below)
            if conn.proto.lost != 1:
                return False
            if not conn.rejected and closing and env.want and env.pending_attempt() is None:
                return False            # restarted while closing: reconnect as soon as the old one is gone
            if not conn.rejected and not closing and env.want and len(env.clock.getDelayedCalls()) != 1:
                return False            # a lost connection is retried after the policy delay
        elif o == PREP_OK or o == PREP_FAIL:
            if not env.prep_pending:
                return True
            d, conn = env.prep_pending.pop(0)
            if o == PREP_OK:
                if conn.open and env.want:
                    env.book_connected(conn)
                d.callback(None)
            else:
                conn.rejected = True
                if env.want:
                    env.book_failure(True)
                d.errback(Failure(_Boom()))
                if conn.open and conn.transport.lose_called < 1:
                    return False        # a rejected connection must be closed by the service
        else:
            calls = env.clock.getDelayedCalls()
            if not calls:
                return True
            dt = calls[0].getTime() - env.clock.seconds()
            if len(calls) > 1 or dt <= 0:
                return False
            if o == ADV_FULL:
                env.clock.advance(dt)
                if env.pending_attempt() is None:
                    return False        # the retry must start when its delay has passed
            else:
                env.clock.advance(dt / 2)
        env.check()
        if env.bad is not None:
            return False
    cover()
    return env.bad is None


def plain(n: int, o0: int, o1: int, o2: int, o3: int, o4: int, o5: int, o6: int,
          k0: int, k1: int, k2: int, k3: int, k4: int, k5: int, k6: int, lr: bool) -> bool:
    """
    pre: 0 <= n <= B['plain']
    pre: 0 <= o0 <= 10 and 0 <= o1 <= 10 and 0 <= o2 <= 10 and 0 <= o3 <= 10
    pre: 0 <= o4 <= 10 and 0 <= o5 <= 10 and 0 <= o6 <= 10
    pre: 0 <= k0 <= B['k'] and 0 <= k1 <= B['k'] and 0 <= k2 <= B['k'] and 0 <= k3 <= B['k']
    pre: 0 <= k4 <= B['k'] and 0 <= k5 <= B['k'] and 0 <= k6 <= B['k']
    post: _
    """
    return _run(0, _ops(n, [o0, o1, o2, o3, o4, o5, o6]), [k0, k1, k2, k3, k4, k5, k6], lost_raises=lr)


def prep(pm: int, n: int, o0: int, o1: int, o2: int, o3: int, o4: int, o5: int, o6: int,
         k0: int, k1: int, k2: int, k3: int, k4: int, k5: int, k6: int) -> bool:
    """
    pre: 0 <= pm <= 1 and 0 <= n <= B['prep'] and (pm == 0 or n < B['prep'])
    pre: 0 <= o0 <= 10 and 0 <= o1 <= 10 and 0 <= o2 <= 10 and 0 <= o3 <= 10
    pre: 0 <= o4 <= 10 and 0 <= o5 <= 10 and 0 <= o6 <= 10
    pre: 0 <= k0 <= B['k'] and 0 <= k1 <= B['k'] and 0 <= k2 <= B['k'] and 0 <= k3 <= B['k']
    pre: 0 <= k4 <= B['k'] and 0 <= k5 <= B['k'] and 0 <= k6 <= B['k']
    post: _
    """
    if pm == 0:
        return _run(1, _ops(n, [o0, o1, o2, o3, o4, o5, o6]), [k0, k1, k2, k3, k4, k5, k6])
    return _run(2, _ops(n, [o0, o1, o2, o3, o4, o5, o6]), [k0, k1, k2, k3, k4, k5, k6])


# ---- open findings: which family (if any) a history belongs to -------------------------------
K_STOP_PREP = "stop-during-prepare-leaks-connection"
K_LOST_PREP = "lost-during-prepare-notransition"
K_REJECT = "rejected-connection-left-open"


def _family(use_prep, n, o0, o1, o2, o3, o4, o5, o6):
    """Specification-level walk over the events (no real code): returns the key of the first known
    finding family the history runs into, or None.  It stops exactly where the harness stops (no-op
    events), so evaluating it in a precondition adds no paths of its own."""
    want = att = timer = closing = False
    conn = None            # None | "prep" | "est"
    for o in _ops(n, [o0, o1, o2, o3, o4, o5, o6]):
        if o == START:
            if want:
                return None
            want = True
            if conn is None:
                att = True
        elif o == STOP:
            want = False
            if conn == "prep":
                return K_STOP_PREP
            if conn == "est":
                closing = True
            else:
                att = timer = False
        elif o == WC_NONE or o == WC_K:
            pass
        elif o == SUCCEED:
            if not att:
                return None
            att = False
            conn = "prep" if use_prep else "est"
        elif o == FAIL:
            if not att:
                return None
            att = False
            timer = True
        elif o == DROP:
            if conn is None:
                return None
            if conn == "prep":
                return K_LOST_PREP
            conn = None
            if closing:
                closing = False
                if want:
                    att = True
            else:
                timer = True
        elif o == PREP_OK:
            if conn != "prep":
                return None
            conn = "est"
        elif o == PREP_FAIL:
            if conn != "prep":
                return None
            return K_REJECT
        else:
            if not timer:
                return None
            if o == ADV_FULL:
                timer = False
                att = True
    return None


_ARGS = "n, o0, o1, o2, o3, o4, o5, o6"
EXCLUDE = {
    K_STOP_PREP: {"prep": "_family(pm == 0, %s) != K_STOP_PREP" % _ARGS},
    K_LOST_PREP: {"prep": "_family(pm == 0, %s) != K_LOST_PREP" % _ARGS},
    K_REJECT: {"prep": "_family(pm == 0, %s) != K_REJECT" % _ARGS},
}


def classify(harness_name, args):
    return _family(harness_name == "prep" and args["pm"] == 0, *[args[k] for k in ("n", "o0", "o1", "o2", "o3", "o4", "o5", "o6")])


def _ops(n, os_):
    for k in range(8):
        if n == k:
            return os_[:k]
    return os_


def _shards(extra):
    # before the first startService only start/stop/whenConnected do anything (a first event >= 4 is a
    # no-op); the subtree behind a first startService is split by the second event
    out = [("n <= 1 or o0 >= 4",)]
    for m in extra:
        for a in (1, 2, 3):
            out.append(("n >= 2 and o0 == %d%s" % (a, m),))
        for b_ in (1, 2, 3, 4, 5):
            out.append(("n >= 2 and o0 == 0 and o1 == %d%s" % (b_, m),))
        out.append(("n >= 2 and o0 == 0 and (o1 == 0 or o1 >= 6)%s" % m,))
    return out


HARNESSES = [
    H(plain, shards=_shards([""]), timeout={"quick": 100, "thorough": 1500}),
    H(prep, shards=_shards([" and pm == 0", " and pm == 1"]), timeout={"quick": 100, "thorough": 1500}),
]

VECTORS = {
    "plain": [(4, 0, 4, 1, 6, 0, 0, 0, 1, 1, 1, 1, 1, 1, 1, False), (5, 0, 3, 5, 9, 5, 0, 0, 1, 2, 1, 1, 1, 1, 1, False),
              (7, 0, 4, 1, 2, 0, 1, 6, 1, 1, 1, 1, 1, 1, 1, False), (5, 0, 5, 10, 10, 4, 0, 0, 1, 1, 1, 1, 1, 1, 1, False),
              (2, 2, 1, 0, 0, 0, 0, 0, 1, 1, 1, 1, 1, 1, 1, False), (3, 0, 3, 5, 0, 0, 0, 0, 1, 0, 1, 1, 1, 1, 1, False),
              (7, 0, 3, 5, 9, 5, 9, 5, 1, 3, 1, 1, 1, 1, 1, False),
              (4, 0, 4, 6, 9, 0, 0, 0, 1, 1, 1, 1, 1, 1, 1, True), (4, 0, 4, 1, 6, 0, 0, 0, 1, 1, 1, 1, 1, 1, 1, True),
              (6, 0, 4, 1, 0, 6, 2, 0, 1, 1, 1, 1, 1, 1, 1, True)],
    "prep": [(0, 7, 0, 2, 4, 7, 3, 6, 9, 1, 1, 1, 1, 2, 1, 1), (1, 6, 0, 2, 4, 3, 1, 6, 0, 1, 1, 1, 1, 1, 1, 1)],
}
