"""C11 Cooperator: only runnable tasks advance, round-robin, each whenDone exactly once."""
import sys
from typing import List

from twisted.internet.defer import Deferred, DeferredList, FirstError
from twisted.internet.task import (Cooperator, NotPaused, SchedulerStopped, TaskDone, TaskFailed, TaskFinished,
                                   TaskStopped)
from twisted.python.failure import Failure

from vlib.api import H, cover

PROPERTY = "C11"
LEVEL = "model_checking"
ENCODED = ["twisted.internet.task:Cooperator._tick", "twisted.internet.task:Cooperator._tasksWhileNotStopped",
           "twisted.internet.task:Cooperator._addTask", "twisted.internet.task:Cooperator._removeTask",
           "twisted.internet.task:Cooperator._reschedule", "twisted.internet.task:Cooperator.stop",
           "twisted.internet.task:Cooperator.cooperate", "twisted.internet.task:Cooperator.coiterate",
           "twisted.internet.task:CooperativeTask.__init__", "twisted.internet.task:CooperativeTask.whenDone",
           "twisted.internet.task:CooperativeTask.pause", "twisted.internet.task:CooperativeTask.resume",
           "twisted.internet.task:CooperativeTask.stop", "twisted.internet.task:CooperativeTask._completeWith",
           "twisted.internet.task:CooperativeTask._checkFinish",
           "twisted.internet.task:CooperativeTask._oneWorkUnit"]
BOUNDS = {"quick": {"n": 2, "slen": 3, "hist": 4, "histb": 3, "n3": 3, "hist3": 4},
          "thorough": {"n": 2, "slen": 3, "hist": 5, "histb": 4, "n3": 3, "hist3": 5}}
B = {}
BOUNDS_TEXT = ("Cooperator(started=True) with a list scheduler and a termination predicate that ends the tick after "
               "one work unit; n tasks (history: n=2 with <= hist operations, history3: n3=3 with <= hist3 "
               "operations) all created up front (the last one through coiterate(), the others through cooperate()), iterator scripts of slen symbolic steps {0 yield value, 1 yield "
               "unfired Deferred, 2 raise, any other integer stop} then StopIteration (history_base: n=2, <= histb "
               "operations, step 2 raises a BaseException that is not an Exception, plain Deferreds); the yielded Deferreds of a run "
               "are symbolically all plain Deferred / instances of a trivial Deferred subclass / "
               "DeferredList([d], fireOnOneErrback=True, consumeErrors=True) around the Deferred that is fired (the "
               "DeferredList kind only in history, n=2); operations {tick, pause i, resume i, stop i, fire "
               "the Deferred task i waits on with success / failure, Cooperator.stop()}; a history ends at the "
               "first operation that is not applicable or that only raises (its exception is checked)")
OUTSIDE = ["resume() of a task that is paused only because it waits on a Deferred it yielded (unbalanced "
           "resume: documented misuse, makes the task runnable while it waits)",
           "tasks added after the first tick, Cooperator.start()/started=False, coiterate(doneDeferred=...), time based "
           "termination predicates with more than one work unit per tick, iterators yielding already fired "
           "Deferreds, re-entrant calls from whenDone callbacks",
           "starvation bound beyond the bounded histories: the reference round-robin (list position kept across "
           "removals, so a removal can make the next task wait one more round) is matched exactly; strict "
           "alternation is asserted only for windows without changes of the runnable set"]
ASSUMPTIONS = ["the scheduler is a list of fake delayed calls with cancel(); 'tick' runs the single pending one",
               "first completion wins: after stop()/exhaustion/failure/Cooperator.stop() the completion state and "
               "the whenDone result never change",
               "pause()/stop() on a task finished by Cooperator.stop() raise SchedulerStopped (the recorded "
               "completion state, not a TaskFinished subtype); resume() of an unpaused finished task raises "
               "NotPaused"]
EXPLANATION = ("symbolic iterator scripts and operation histories on the real Cooperator/CooperativeTask with an "
               "explicit scheduler; every next() call, whenDone firing, raised exception, _tasks order, pause "
               "counts and the pending delayed call are compared with a reference model after every operation")


def _fail(msg):
    # plain False under the solver (post: _ needs a falsy value), a diagnostic tuple in replay / vector validation
    return False if "crosshair" in sys.modules else (False, msg)


class _Boom(Exception):
    pass


class _BaseBoom(BaseException):
    """raised by iterators in history_base: a BaseException that is not an Exception (like asyncio.CancelledError,
    SystemExit, GeneratorExit); not related to CrossHair's control exceptions"""


class _DFail(Exception):
    pass


class _SubDeferred(Deferred):
    """a trivial application subclass of Deferred"""


class _DC:
    def __init__(self, f):
        self.f = f
        self.cancelled = False
        self.called = False

    def cancel(self):
        self.cancelled = True


def _one_unit():
    return lambda: True


def _conc(v, hi):
    for c in range(hi + 1):
        if v == c:
            return c
    return -1


_FIN_EXC = {"done": TaskDone, "failed": TaskFailed, "stopped": TaskStopped, "sched": SchedulerStopped}


def _run(n, scripts, ops, slen, dkind, boom=_Boom):
    calls = []                      # delayed calls handed out by the scheduler

    def scheduler(f):
        dc = _DC(f)
        calls.append(dc)
        return dc

    coop = Cooperator(terminationPredicateFactory=_one_unit, scheduler=scheduler)
    nexts = []                      # (task, epoch) for every next() call
    pend = [None] * n               # Deferred to fire for the one task i yielded and waits on
    yielded = [None] * n            # the object task i yielded (pend[i] itself, or a DeferredList around it)
    dk = [None]
    badnext = []
    done = [[] for _ in range(n)]   # whenDone firings

    # ---- reference model -------------------------------------------------------------------
    m_tasks = []                    # runnable tasks in Cooperator._tasks order
    m_idx = [0]                     # position of the round-robin iterator in m_tasks
    upause = [0] * n                # user pauses
    wait = [False] * n              # waits on an unfired yielded Deferred
    dfailed = [False] * n           # its Deferred failed (pause count is never given back)
    fin = [None] * n                # None | done | failed | stopped | sched | dfail
    pos = [0] * n                   # script position
    stopped = [False]
    epoch = [0]                     # bumped whenever the runnable set changes
    exp_done = [None] * n

    def runnable(i):
        return fin[i] is None and upause[i] == 0 and not wait[i]

    def m_remove(i):
        m_tasks.remove(i)
        epoch[0] += 1

    def m_add(i):
        if stopped[0]:
            fin[i] = "sched"
            exp_done[i] = "sched"
        else:
            m_tasks.append(i)
            epoch[0] += 1

    class It:
        def __init__(self, i):
            self.i = i

        def __iter__(self):
            return self

        def __next__(self):
            i = self.i
            if not runnable(i) or stopped[0]:
                badnext.append(i)   # advanced while paused / waiting / finished / stopped
            nexts.append((i, epoch[0], tuple(m_tasks)))
            p = pos[i]
            pos[i] = p + 1
            st = scripts[i * slen + p] if p < slen else 3     # 0 value, 1 Deferred, 2 raise, anything else stop
            if st == 0:
                return ("v", i, p)
            if st == 1:
                if dk[0] is None:
                    dk[0] = _conc(dkind, 2)         # one path per kind of yielded Deferred, fixed for the run
                if dk[0] == 1:
                    d = y = _SubDeferred()
                elif dk[0] == 2:
                    d = Deferred()
                    y = DeferredList([d], fireOnOneErrback=True, consumeErrors=True)
                else:
                    d = y = Deferred()
                pend[i] = d
                yielded[i] = y
                wait[i] = True
                m_remove(i)
                return y
            if st == 2:
                fin[i] = "failed"
                exp_done[i] = "boom"
                m_remove(i)
                raise boom()
            fin[i] = "done"
            exp_done[i] = "iter"
            m_remove(i)
            raise StopIteration()

    its = [It(i) for i in range(n)]
    tasks = []
    for i in range(n):
        if i < n - 1:
            t = coop.cooperate(its[i])
            wd = t.whenDone()
        else:
            # the last task is started through coiterate(): its Deferred is observed instead of whenDone()
            wd = coop.coiterate(its[i])
            t = coop._tasks[-1]
        tasks.append(t)
        m_tasks.append(i)
        wd.addCallbacks(lambda r, i=i: done[i].append(("ok", r)),
                        lambda f, i=i: done[i].append(("fail", f)))

    def pending_calls():
        return [dc for dc in calls if not dc.cancelled and not dc.called]

    def done_ok(i):
        e = exp_done[i]
        if e is None:
            return done[i] == []
        if len(done[i]) != 1:
            return False
        kind, r = done[i][0]
        if e == "iter":
            return kind == "ok" and r is its[i]
        if kind != "fail" or not isinstance(r, Failure):
            return False
        if e == "dfail" and dk[0] == 2:
            # a DeferredList(fireOnOneErrback=True) reports the failure wrapped in FirstError
            return r.check(FirstError) is not None and r.value.subFailure.check(_DFail) is not None
        want = {"boom": boom, "dfail": _DFail, "stopped": TaskStopped, "sched": SchedulerStopped}[e]
        return r.check(want) is not None

    def state_ok():
        if badnext:
            return "next() on a task that is not runnable: %r" % (badnext,)
        if [tasks.index(t) for t in coop._tasks] != m_tasks:
            return "_tasks %r, model %r" % ([tasks.index(t) for t in coop._tasks], m_tasks)
        pc = pending_calls()
        if len(pc) > 1 or (len(pc) == 1) != (len(m_tasks) > 0 and not stopped[0]):
            return "pending delayed calls %d with runnable %r" % (len(pc), m_tasks)
        for i in range(n):
            if tasks[i]._pauseCount != upause[i] + (1 if (wait[i] or dfailed[i]) else 0):
                return "pause count of %d" % i
            f = fin[i]
            cs = tasks[i]._completionState
            if (cs is None) != (f is None):
                return "completion of %d: %r vs model %r" % (i, cs, f)
            if f is not None and type(cs) is not _FIN_EXC["failed" if f == "dfail" else f]:
                return "completion state of %d: %r vs model %r" % (i, cs, f)
            if not done_ok(i):
                return "whenDone of %d: %r, expected %r" % (i, done[i], exp_done[i])
            if m_tasks.count(i) != (1 if runnable(i) and not stopped[0] else 0):
                return "model"
        return None

    def finish(result):
        # late whenDone() on finished tasks fires at once with the same result; unfinished ones stay silent
        if result is True:
            for i in range(n):
                late = []
                tasks[i].whenDone().addBoth(late.append)
                if fin[i] is None:
                    if late:
                        return _fail("late whenDone fired for unfinished task")
                else:
                    if len(late) != 1 or len(done[i]) != 1 or late[0] is not done[i][0][1]:
                        return _fail("late whenDone differs from the first one")
        for d in pend + yielded:
            if d is not None:
                d.addErrback(lambda f: None)
        return result

    msg = state_ok()
    if msg:
        return finish(_fail("initial: " + msg))
    for sym_o in ops:
        o = _conc(sym_o, 5 * n + 1)                 # one path per operation code, concrete afterwards
        if o < 0:
            return finish(True)                     # not an operation code
        if o == 0:                                  # ---- tick
            pc = pending_calls()
            if len(pc) != 1:
                return finish(True)                 # nothing scheduled (checked by state_ok): not applicable
            if m_idx[0] >= len(m_tasks):
                m_idx[0] = 0                        # new round
            want = m_tasks[m_idx[0]]
            m_idx[0] += 1
            before = len(nexts)
            pc[0].called = True
            try:
                pc[0].f()
            except _BaseBoom:
                return finish(_fail("the tick let the iterator's BaseException escape into the scheduler"))
            # exactly one work unit, on the task the round-robin points at
            if [x[0] for x in nexts[before:]] != [want]:
                return finish(_fail("tick advanced %r, expected [%d]" % (nexts[before:], want)))
        elif o <= n:                                # ---- pause i
            i = o - 1
            try:
                tasks[i].pause()
                exc = None
            except TaskFinished as e:
                exc = type(e)
            except SchedulerStopped as e:
                exc = type(e)
            if fin[i] is not None:
                if exc is not _FIN_EXC["failed" if fin[i] == "dfail" else fin[i]]:
                    return finish(_fail("pause on finished task %d raised %r (%s)" % (i, exc, fin[i])))
                msg = state_ok()
                return finish(_fail(msg) if msg else True)
            if exc is not None:
                return finish(_fail("pause raised %r" % (exc,)))
            if runnable(i):
                m_remove(i)
            upause[i] += 1
        elif o <= 2 * n:                            # ---- resume i
            i = o - n - 1
            if upause[i] == 0 and (wait[i] or dfailed[i]):
                return finish(True)                 # unbalanced resume of a waiting task: outside the claim
            try:
                tasks[i].resume()
                exc = None
            except NotPaused:
                exc = NotPaused
            if upause[i] == 0:
                if exc is not NotPaused:
                    return finish(_fail("resume of unpaused task did not raise NotPaused"))
                msg = state_ok()
                return finish(_fail(msg) if msg else True)
            if exc is not None:
                return finish(_fail("resume raised NotPaused"))
            upause[i] -= 1
            if runnable(i):
                m_add(i)
        elif o <= 3 * n:                            # ---- stop i
            i = o - 2 * n - 1
            try:
                tasks[i].stop()
                exc = None
            except TaskFinished as e:
                exc = type(e)
            except SchedulerStopped as e:
                exc = type(e)
            if fin[i] is not None:
                if exc is not _FIN_EXC["failed" if fin[i] == "dfail" else fin[i]]:
                    return finish(_fail("stop on finished task %d raised %r (%s)" % (i, exc, fin[i])))
                msg = state_ok()
                return finish(_fail(msg) if msg else True)
            if exc is not None:
                return finish(_fail("stop raised %r" % (exc,)))
            if runnable(i):
                m_remove(i)
            fin[i] = "stopped"
            exp_done[i] = "stopped"
        elif o <= 5 * n:                            # ---- fire the Deferred task i waits on
            ok = o <= 4 * n
            i = o - (3 * n if ok else 4 * n) - 1
            if not wait[i]:
                return finish(True)                 # not applicable
            d = pend[i]
            wait[i] = False
            if ok:
                if runnable(i):
                    m_add(i)
                d.callback(None)
            else:
                dfailed[i] = True
                if fin[i] is None:                  # first completion wins
                    fin[i] = "dfail"
                    exp_done[i] = "dfail"
                d.errback(_DFail())
            # the task's own callbacks must not leave an error in the Deferred it yielded
            leftover = []
            yielded[i].addErrback(leftover.append)
            if leftover:
                return finish(_fail("error left in the yielded Deferred: %r" % (leftover[0].type,)))
        else:                                       # ---- Cooperator.stop()
            if stopped[0]:
                return finish(True)
            stopped[0] = True
            for i in list(m_tasks):
                fin[i] = "sched"
                exp_done[i] = "sched"
            del m_tasks[:]
            epoch[0] += 1
            coop.stop()
        msg = state_ok()
        if msg:
            return finish(_fail(msg))
    cover()
    # strict alternation in windows where the runnable set did not change: between two consecutive advances
    # of a task, every other runnable task advanced exactly once
    for a in range(len(nexts)):
        t, ep, members = nexts[a]
        for b in range(a + 1, len(nexts)):
            if nexts[b][1] != ep:
                break
            if nexts[b][0] == t:
                between = sorted(x[0] for x in nexts[a + 1:b])
                if between != sorted(x for x in members if x != t):
                    return finish(_fail("unfair window %r" % (nexts[a:b + 1],)))
                break
    return finish(True)


def history(scripts: List[int], ops: List[int], dkind: int) -> bool:
    """
    pre: len(scripts) == B['n'] * B['slen']
    pre: len(ops) <= B['hist']
    pre: 0 <= dkind <= 2
    post: _
    """
    return _run(B['n'], scripts, ops, B['slen'], dkind)


def history_base(scripts: List[int], ops: List[int]) -> bool:
    """
    pre: len(scripts) == B['n'] * B['slen']
    pre: len(ops) <= B['histb']
    post: _
    """
    # same as history, but script step 2 raises a BaseException that is not an Exception: the tick must not
    # propagate it, the task fails (whenDone: Failure wrapping it, pause()/stop(): TaskFailed), a next tick is
    # scheduled and the other tasks keep being advanced
    return _run(B['n'], scripts, ops, B['slen'], 0, boom=_BaseBoom)


def history3(scripts: List[int], ops: List[int], dkind: int) -> bool:
    """
    pre: len(scripts) == B['n3'] * B['slen']
    pre: len(ops) <= B['hist3']
    pre: 0 <= dkind <= 1
    post: _
    """
    return _run(B['n3'], scripts, ops, B['slen'], dkind)


def _shards(nkey, two_level):
    def f(tier):
        n = BOUNDS[tier][nkey]
        # split on the first operation; tick-first (the bulk) is split again on the first script step of task 0;
        # resume / fire as first operation end the history at once and share one shard with the empty history
        out = [("len(ops) == 0 or (%d <= ops[0] <= %d) or ops[0] >= %d" % (n + 1, 2 * n, 3 * n + 1),
                "len(ops) == 0 or ops[0] != %d" % (5 * n + 1))]
        heavy = [("len(ops) >= 1 and ops[0] == 0", "scripts[0] == %d" % s) for s in (0, 2)]
        # first step yields a Deferred: one shard per kind of Deferred (history: 3 kinds, history3: 2)
        heavy += [("len(ops) >= 1 and ops[0] == 0", "scripts[0] == 1 and dkind == %d" % k)
                  for k in range(3 if not two_level else 2)]
        heavy += [("len(ops) >= 1 and ops[0] == 0", "scripts[0] < 0 or scripts[0] > 2")]
        heavy += [("len(ops) >= 1 and ops[0] == %d" % o,) for o in list(range(1, n + 1)) +
                  list(range(2 * n + 1, 3 * n + 1)) + [5 * n + 1]]
        if two_level:
            second = ["len(ops) < 2 or ops[1] <= 0", "len(ops) >= 2 and 1 <= ops[1] <= %d" % n,
                      "len(ops) >= 2 and %d <= ops[1] <= %d" % (n + 1, 3 * n), "len(ops) >= 2 and ops[1] >= %d" % (3 * n + 1)]
            third = ["len(ops) < 3 or ops[2] <= 0", "len(ops) >= 3 and 1 <= ops[2] <= %d" % n,
                     "len(ops) >= 3 and %d <= ops[2] <= %d" % (n + 1, 3 * n), "len(ops) >= 3 and ops[2] >= %d" % (3 * n + 1)]
            h2 = []
            for h in heavy:
                tick_first = "ops[0] == 0" in h[0]
                for k, x in enumerate(second):
                    if k == 0 and tick_first:
                        h2 += [h + (x, y) for y in third]      # tick, tick, ...: the largest subtree
                    else:
                        h2.append(h + (x,))
            heavy = h2
        out += heavy
        out += [("len(ops) >= 1 and ops[0] < 0",)]
        return out
    return f


HARNESSES = [
    H(history, shards=_shards("n", False), timeout={"quick": 120, "thorough": 1500}),
    H(history3, shards=_shards("n3", True), timeout={"quick": 120, "thorough": 1500}),
    H(history_base, shards=[("len(ops) == 0 or ops[0] != 0",), ("len(ops) >= 1 and ops[0] == 0", "scripts[0] == 2"),
                            ("len(ops) >= 1 and ops[0] == 0", "scripts[0] != 2")],
      timeout={"quick": 120, "thorough": 900}),
]

VECTORS = {
    "history": [([0, 0, 0, 0, 0, 0], [0, 0, 0, 0], 0), ([1, 0, 3, 0, 2, 0], [0, 0, 7, 0], 1),
                ([1, 0, 0, 0, 0, 0], [0, 1, 7, 3], 2), ([0, 0, 0, 0, 0, 0], [1, 0, 3, 11], 0),
                ([1, 0, 0, 1, 0, 0], [0, 0, 9, 5], 1), ([3, 0, 0, 2, 0, 0], [0, 0, 1, 6], 0),
                ([1, 0, 0, 0, 0, 0], [0, 5, 9, 1], 2), ([1, 0, 0, 1, 0, 0], [0, 0, 9, 8], 2),
                ([1, 0, 0, 0, 0, 0], [0, 9, 0, 0], 1), ([1, 0, 0, 0, 0, 0], [0, 7, 0, 0], 2)],
    "history3": [([0] * 9, [0, 0, 0, 0], 0), ([1, 0, 0, 0, 0, 0, 0, 0, 0], [0, 10, 0, 0], 1),
                 ([0, 0, 0, 0, 0, 0, 0, 0, 0], [0, 1, 0, 0], 0), ([0, 0, 0, 2, 0, 0, 0, 0, 0], [0, 0, 16], 0),
                 ([0, 0, 0, 1, 0, 0, 0, 0, 0], [0, 0, 2, 14], 1), ([1, 0, 0, 0, 0, 0, 0, 0, 0], [0, 13, 0, 0], 1)],
    "history_base": [([2, 0, 0, 0, 0, 0], [0, 0, 0]), ([0, 0, 0, 2, 0, 0], [0, 0, 1]), ([2, 0, 0, 2, 0, 0], [0, 0, 5])],
}
