"""C51 DirDBM survives a crash at any point (including a second crash during recovery).

Engine E4 (vlib/fakefs.py): the real DirDBM and the real FilePath methods it uses run against an
in-memory filesystem.  The operation sequence, the values, the index of the filesystem call at which
the process dies, the number of units a dying write() still gets onto the disk and the index of a
second crash inside the recovery done by DirDBM.__init__ are symbolic.
"""
from typing import List

from twisted.persisted import dirdbm as _dirdbm
from twisted.python import filepath as _filepath

from vlib import api, fakefs
from vlib.api import H, cover
from vlib.fakefs import Crash, FakeFS, Rope, installed

PROPERTY = "C51"
LEVEL = "model_checking"
ENCODED = ["twisted.persisted.dirdbm:DirDBM.__init__", "twisted.persisted.dirdbm:DirDBM.__setitem__",
           "twisted.persisted.dirdbm:DirDBM.__delitem__", "twisted.persisted.dirdbm:DirDBM.__getitem__",
           "twisted.persisted.dirdbm:DirDBM.keys", "twisted.persisted.dirdbm:DirDBM.__len__",
           "twisted.persisted.dirdbm:DirDBM.has_key", "twisted.persisted.dirdbm:DirDBM._writeFile",
           "twisted.persisted.dirdbm:DirDBM._readFile", "twisted.persisted.dirdbm:DirDBM._encode",
           "twisted.python.filepath:FilePath.child", "twisted.python.filepath:FilePath.siblingExtension",
           "twisted.python.filepath:FilePath.exists", "twisted.python.filepath:FilePath.isdir",
           "twisted.python.filepath:FilePath.remove", "twisted.python.filepath:FilePath.moveTo",
           "twisted.python.filepath:FilePath.restat", "twisted.python.filepath:FilePath.listdir",
           "twisted.python.filepath:FilePath.createDirectory"]
BOUNDS = {"quick": {"ops": 2, "steps": 8, "maxlen": 8192}, "thorough": {"ops": 3, "steps": 12, "maxlen": None}}
B = {}
BOUNDS_TEXT = ("two keys, each initially absent or present; <= ops operations from {set k0 v, set k1 v, delete "
               "k0, delete k1}; every value an opaque byte string of any length >= 0 (empty included; in the quick "
               "tier at most `maxlen` = one file buffer, so that every value takes the buffered path; the thorough "
               "tier also explores values larger than the buffer, which are written through), every "
               "written value distinguishable from every other; crash at every filesystem step 0..steps (more "
               "than any run makes) or no crash; torn write of every length; optional second crash inside the "
               "recovery run by DirDBM.__init__ on reopen; then a final clean reopen.  interrupt_history: 1..ops "
               "operations, one survived interruption at any temp-file create/truncate/write step (torn write of "
               "every length), live view of the same object checked, then a clean reopen")
OUTSIDE = ["more than two keys / longer histories",
           "value *content*: neither DirDBM nor FilePath inspects a value (any attempt raises in the harness); "
           "two different writes carrying equal bytes are not modelled as equal (the oracle is only stricter "
           "for that)",
           "Shelf (pickled values), copyTo, clear, getModificationTime",
           "write-back caching: DirDBM calls flush() but never fsync, so data reaching the disk after the "
           "rename that publishes it is outside the filesystem contract assumed below",
           "concurrent use of one directory by two processes",
           "the order in which glob/listdir report names (the model reports them sorted)"]
ASSUMPTIONS = ["fake filesystem contract: rename/remove/mkdir are atomic; a crashed write leaves a prefix of "
               "its data; data and directory operations become durable in program order; after the crash no "
               "further call of the dead process reaches the disk (DirDBM.__setitem__ catches BaseException "
               "to remove the temporary file: that remove is part of the dead process and does not happen); "
               "model validated against the real OS on a script of 70 calls on every run",
               "file objects are buffered as in CPython (8192 byte buffer; value lengths are unbounded, so both "
               "the buffered and the write-through case are explored): data reaches the disk at flush/close or "
               "when it no longer fits; a crash loses unflushed buffers and may tear the flush in progress",
               "interrupt_history models an interruption the application SURVIVES: one non-Exception "
               "BaseException (KeyboardInterrupt-like, defined in the harness) is raised by the filesystem call "
               "that creates, truncates or writes the temporary file (the window DirDBM.__setitem__ protects "
               "with its cleanup handler; a write leaves a prefix as for a crash); the filesystem keeps working, "
               "the harness catches the exception and goes on with the same DirDBM object.  An interruption "
               "arriving between the completed temporary file and the remove/rename that publishes it is NOT "
               "injected: __setitem__ has no handler there and the live directory then shows the .rpl file "
               "until the next reopen",
               "under the solver a value is an opaque span (fakefs.Rope: value number + symbolic length; a torn "
               "write stores a shorter span of the same value; content access raises) and the name `bytes` "
               "inside twisted.persisted.dirdbm is bound to a class that compares equal to both bytes and Rope "
               "(so the `type(v) == bytes` guards accept it); in replay values are real bytes (one letter per "
               "value) and nothing but the filesystem names is rebound"]
EXPLANATION = ("real DirDBM on a fake filesystem: symbolic operation history, value lengths, crash step, torn-write "
               "length and recovery crash step; the reopened database is compared with a dict model")

K = [b"a", b"b"]
SYM = api.MODE != "real"


class _BytesMeta(type):
    def __eq__(cls, other):
        return other is bytes or other is Rope

    def __ne__(cls, other):
        return not (other is bytes or other is Rope)

    def __hash__(cls):
        return 7


class _BytesLike(metaclass=_BytesMeta):
    """bound to the name `bytes` in dirdbm under the solver"""


def _extra():
    return {_dirdbm: {"bytes": _BytesLike}} if SYM else {}


def selftest():
    assert (type(b"x") == _BytesLike) and (type(Rope()) == _BytesLike)
    assert not (type("x") == _BytesLike) and not (type(1) == _BytesLike)
    assert _canon(Rope.payload(1, 2)) == [(1, 0, 2)] and _canon(Rope.payload(1, 0)) == [] and _canon(None) is None
    return fakefs.selftest() + 7


def _mk(wid, n):
    """value number `wid` of length n: an opaque span under the solver, real bytes (a letter per value)
    in replay"""
    if SYM:
        return Rope.payload(wid, n)
    return bytes([65 + wid]) * n


def _canon(x):
    """comparable form of a value (None = no such key): span list / text"""
    if x is None:
        return None
    if isinstance(x, Rope):
        return x.norm()
    return x.decode("latin-1")


def _get(db, key):
    try:
        return _canon(db[key])
    except KeyError:
        return None


def _check(fs, db, model, pending):
    """database state after the final reopen against the model; pending = (key index, old, new) of the
    interrupted operation or None"""
    present = []
    for i in (0, 1):
        actual = _get(db, K[i])
        if pending is not None and pending[0] == i:
            if actual != pending[1] and actual != pending[2]:
                return False
        elif actual != model[i]:
            return False
        if (K[i] in db) != (actual is not None):
            return False
        if actual is not None:
            present.append(i)
    if sorted(db.keys()) != [K[i] for i in present]:
        return False
    if len(db) != len(present):
        return False
    # nothing but the files of the present keys is left in the directory
    want = sorted(db._encode(K[i]).decode("ascii") for i in present)
    return fs.ls("/db") == want


def crash_history(ops: List[int], na: int, nb: int, nc: int, ni: int, nj: int, init: int, crash_at: int,
                  cut: int, crash2: int) -> bool:
    """
    pre: len(ops) <= B['ops'] and all(0 <= o <= 3 for o in ops)
    pre: na >= 0 and nb >= 0 and nc >= 0 and ni >= 0 and nj >= 0 and cut >= 0
    pre: B['maxlen'] is None or (na <= B['maxlen'] and nb <= B['maxlen'] and nc <= B['maxlen'] and ni <= B['maxlen'] and nj <= B['maxlen'])
    pre: 0 <= init <= 3 and -1 <= crash_at <= B['steps'] and -1 <= crash2 <= 1
    post: _
    """
    fs = FakeFS(empty=Rope() if SYM else b"")
    lens = [na, nb, nc]
    with installed(fs, _dirdbm, _filepath, extra=_extra()):
        db = _dirdbm.DirDBM("/db")
        model = [None, None]
        if init == 1 or init == 3:
            db[K[0]] = _mk(3, ni)
            model[0] = _canon(_mk(3, ni))
        if init >= 2:
            db[K[1]] = _mk(4, nj)
            model[1] = _canon(_mk(4, nj))
        fs.arm(crash_at, cut)
        pending = None
        try:
            for i in range(len(ops)):
                op = ops[i]
                ki = 1 if (op == 1 or op == 3) else 0
                if op < 2:
                    pending = (ki, model[ki], _canon(_mk(i, lens[i])))
                    db[K[ki]] = _mk(i, lens[i])
                else:
                    pending = (ki, model[ki], None)
                    try:
                        del db[K[ki]]
                    except KeyError:
                        if model[ki] is not None:
                            return False
                if fs.crashed:
                    break
                model[ki] = pending[2]
                pending = None
        except Crash:
            pass
        if not fs.crashed:
            if pending is not None:
                return False
            cover("nocrash")
        else:
            cover("crashed")
        # reopen; the recovery itself may crash once more
        fs.reboot(crash2)
        db2 = None
        try:
            db2 = _dirdbm.DirDBM("/db")
        except Crash:
            pass
        if fs.crashed:
            cover("crash2")
            fs.reboot()
            db2 = _dirdbm.DirDBM("/db")
        cover()
        return _check(fs, db2, model, pending)


class _Interrupt(BaseException):
    """a KeyboardInterrupt-like interruption that the application catches and survives"""


def _live_ok(fs, db, model, amb):
    """the SAME database object after a survived interruption: amb = (key index, old, new) or None"""
    present = []
    for i in (0, 1):
        actual = _get(db, K[i])
        if amb is not None and amb[0] == i:
            if actual != amb[1] and actual != amb[2]:
                return False
        elif actual != model[i]:
            return False
        if (K[i] in db) != (actual is not None):
            return False
        if actual is not None:
            present.append((K[i], actual))
    if sorted(db.keys()) != [k for k, _ in present]:
        return False
    if len(db) != len(present):
        return False
    items = sorted((k, _canon(v)) for k, v in db.items())       # must not raise on a temp name
    if items != present:
        return False
    want = sorted(db._encode(k).decode("ascii") for k, _ in present)
    return fs.ls("/db") == want


def interrupt_history(ops: List[int], na: int, nb: int, nc: int, ni: int, nj: int, init: int, int_at: int,
                      cut: int) -> bool:
    """
    pre: 1 <= len(ops) <= B['ops'] and all(0 <= o <= 3 for o in ops)
    pre: na >= 0 and nb >= 0 and nc >= 0 and ni >= 0 and nj >= 0 and cut >= 0
    pre: B['maxlen'] is None or (na <= B['maxlen'] and nb <= B['maxlen'] and nc <= B['maxlen'] and ni <= B['maxlen'] and nj <= B['maxlen'])
    pre: 0 <= init <= 3 and 0 <= int_at <= B['steps']
    post: _
    """
    fs = FakeFS(empty=Rope() if SYM else b"")
    lens = [na, nb, nc]
    with installed(fs, _dirdbm, _filepath, extra=_extra()):
        db = _dirdbm.DirDBM("/db")
        model = [None, None]
        if init == 1 or init == 3:
            db[K[0]] = _mk(3, ni)
            model[0] = _canon(_mk(3, ni))
        if init >= 2:
            db[K[1]] = _mk(4, nj)
            model[1] = _canon(_mk(4, nj))
        fs.arm(-1, cut)
        fs.arm_interrupt(int_at, _Interrupt)
        amb = None
        for i in range(len(ops)):
            op = ops[i]
            ki = 1 if (op == 1 or op == 3) else 0
            new = _canon(_mk(i, lens[i])) if op < 2 else None
            fired = fs.interrupted
            try:
                if op < 2:
                    db[K[ki]] = _mk(i, lens[i])
                else:
                    try:
                        del db[K[ki]]
                    except KeyError:
                        if amb is not None and amb[0] == ki:
                            if amb[1] is not None and amb[2] is not None:
                                return False
                        elif model[ki] is not None:
                            return False
            except _Interrupt:
                cover("interrupted")
                amb = (ki, model[ki], new)
                continue
            except OSError:
                # the cleanup handler itself failed (nothing to remove) while handling the interruption
                if fired or not fs.interrupted:
                    return False
                cover("interrupted")
                amb = (ki, model[ki], new)
                continue
            model[ki] = new
            if amb is not None and amb[0] == ki:
                amb = None
        if fs.crashed:
            return False
        if amb is not None:
            cover("live_amb")
        if not _live_ok(fs, db, model, amb):
            return False
        cover()
        # and the usual check after a clean restart
        fs.reboot()
        db2 = _dirdbm.DirDBM("/db")
        return _check(fs, db2, model, amb)


def _shards_int(tier):
    out = []
    for init in range(4):
        for c in range(4):
            first = ("init == %d" % init, "ops[0] == %d" % c)
            if c >= 2 and init != 3:
                out.append(first)
                continue
            out.append(first + ("len(ops) == 1 or ops[1] == 0",))
            out.append(first + ("len(ops) >= 2 and ops[1] == 1",))
            out.append(first + ("len(ops) >= 2 and ops[1] >= 2",))
    return out


def _shards(tier):
    out = []
    for init in range(4):
        for c in (0, 1):
            first = "len(ops) >= 1 and ops[0] == %d" % c
            out.append(("init == %d" % init, ("len(ops) == 0 or " if c == 0 else "") + "len(ops) == 1 and ops[0] == %d" % c))
            out.append(("init == %d" % init, first, "len(ops) >= 2 and ops[1] <= 1"))
            out.append(("init == %d" % init, first, "len(ops) >= 2 and ops[1] >= 2"))
        for c in (2, 3):
            out.append(("init == %d" % init, "len(ops) >= 1 and ops[0] == %d" % c))
    return out


HARNESSES = [
    H(crash_history, shards=_shards, labels=("end", "crashed", "crash2", "nocrash"),
      timeout={"quick": 150, "thorough": 900}),
    H(interrupt_history, shards=_shards_int, labels=("end", "interrupted", "live_amb"),
      timeout={"quick": 150, "thorough": 900}),
]

VECTORS = {
    "interrupt_history": [
        ([0, 1], 2, 1, 0, 1, 1, 3, 1, 1), ([0], 2, 0, 0, 1, 1, 1, 0, 0), ([1, 3], 2, 0, 0, 1, 1, 0, 1, 1),
        ([0, 2], 2, 0, 0, 1, 1, 1, 1, 1), ([0, 0], 2, 3, 0, 1, 1, 1, 5, 2), ([2, 0], 0, 2, 0, 1, 1, 3, 2, 0),
    ],
    "crash_history": [
        ([0, 1], 1, 1, 0, 1, 1, 3, -1, 0, -1),
        ([0, 0], 1, 2, 0, 1, 1, 1, 2, 1, -1),     # crash after the .rpl is complete
        ([0], 2, 0, 0, 1, 1, 1, 1, 1, 0),         # torn .rpl, crash again in recovery
        ([0], 2, 0, 0, 1, 1, 1, 3, 0, 0),         # old removed, .rpl not yet renamed; crash in recovery
        ([1], 2, 0, 0, 1, 1, 0, 1, 1, -1),        # torn .new
        ([2, 0], 0, 1, 0, 1, 1, 3, 1, 0, 1),
        ([3, 3], 0, 0, 0, 1, 1, 2, 5, 0, -1),
        ([0, 2], 0, 0, 0, 0, 0, 1, 4, 0, -1),     # empty values are values
    ],
}
