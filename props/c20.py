"""C20 HTTP server responses are framed exactly and headers cannot be injected.

Engine E2.  `http_headers` (whole module), `_abnf`, and `Request` / `HTTPChannel.writeHeaders` / `toChunk`
of twisted.web.http are recompiled from /repo's source onto LBytes.  Kernels: `_sanitizeLinearWhitespace`
on fully symbolic text, header-name validation through `Headers.setRawHeaders/addRawHeader`, header
values given as bytes or as text (UTF-8 encoded by the real code).  Response level: a lifted real
`http.Request` attached to a fake channel whose writeHeaders/write/writeSequence ARE the (lifted) real
HTTPChannel methods and whose transport records what is written; the emitted text is cut into lines by a
reference tokenizer written here that accepts CRLF, a lone CR and a lone LF as line ends (the most
lenient reading any peer could apply), and compared with what the application asked for.
"""
from vlib import api, lbytes, lift
from vlib.api import H, cover
from vlib.lift import b, t

PROPERTY = "C20"
LEVEL = "model_checking"
ENCODED = ["twisted.web.http_headers:_sanitizeLinearWhitespace", "twisted.web.http_headers:_NameEncoder.encode",
           "twisted.web.http_headers:Headers.setRawHeaders", "twisted.web.http_headers:Headers.addRawHeader",
           "twisted.web.http_headers:Headers.getRawHeaders", "twisted.web.http_headers:Headers.hasHeader", "twisted.web.http_headers:Headers.getAllRawHeaders",
           "twisted.web._abnf:_istoken", "twisted.web.http:Request.setResponseCode",
           "twisted.web.http:Request.setHeader", "twisted.web.http:Request.addCookie",
           "twisted.web.http:Request.write", "twisted.web.http:Request.finish",
           "twisted.web.http:HTTPChannel.writeHeaders", "twisted.web.http:HTTPChannel.write",
           "twisted.web.http:HTTPChannel.writeSequence", "twisted.web.http:toChunk"]
BOUNDS = {"quick": {"s": 3, "nm": 2, "hv": 2, "rs": 3, "ck": 1, "cv": 2, "ca": 1, "bw": 2},
          "thorough": {"s": 5, "nm": 3, "hv": 3, "rs": 4, "ck": 2, "cv": 2, "ca": 2, "bw": 3}}
B = {}
BOUNDS_TEXT = ("_sanitizeLinearWhitespace on every text of <= s bytes; header names of <= nm bytes (bytes or "
               "text, set or add), each used three times (same object twice, then a new object) and, at the "
               "response level, set twice + added once before the response is written; header values of <= hv characters (bytes 0..255, or text of any code "
               "point, UTF-8 encoded by the real code); reason phrase of <= rs bytes; cookie key <= ck / value <= "
               "cv bytes alone, or value <= 1 byte with one attribute (Expires/Domain/Path/Max-Age/Comment) of <= ca bytes; the same as "
               "text (any code point) with key and value symbolic when there is no attribute and fixed when "
               "the attribute is symbolic; "
               "<= 2 body writes of <= bw bytes each; HTTP/1.0 and 1.1, GET and HEAD, status 200/204/304/100, "
               "Content-Length set by the application or not")
OUTSIDE = ["h11 (or any third-party parser) as the oracle: the reference tokenizer is the one in this file",
           "Date / Server / Content-Type defaults: they are added by twisted.web.server.Request, not by http.Request",
           "a 1xx status with a body: http.Request frames it like a 200 (chunked); the property only names "
           "HEAD, 204 and 304 as bodiless",
           "'=' inside a cookie name and cookie-octet validity (only line breaks and ';' are the injection "
           "vectors claimed)",
           "Content-Length set by the application that disagrees with what it writes (twisted does not check it)",
           "lastModified / etag attributes, producers, HTTP/2, the connection-persistence decision"]
ASSUMPTIONS = ["LBytes reproduces bytes semantics for the operations used, in particular bytes.splitlines "
               "(differentially tested on every run: vlib.lbytes.selftest); the lifted code agrees with the "
               "real code on the concrete vectors below",
               "str.encode('utf8') is replaced in the lifted world by a pure-Python encoder validated against "
               "CPython's on all boundary code points on every run",
               "Headers' dict and the module-global header-name cache (_nameEncoder._canonicalHeaderCache) are "
               "equality-lookup ordered maps in the lifted world (this only avoids hashing symbolic names: a name "
               "used twice DOES hit the cache); every harness call starts from an EMPTY name cache (cleared on the "
               "real module in replay), so paths are independent; names cached by earlier, unrelated calls in a "
               "long-lived process are outside the bound except through the repeated uses made here",
               "the fake channel provides getPeer/getHost/requestDone/factory=None; its writeHeaders/write/"
               "writeSequence are HTTPChannel's own functions"]
EXPLANATION = ("lifted real Headers / Request / HTTPChannel.writeHeaders on symbolic reason, header, cookie and "
               "body text; output cut by a lenient reference tokenizer and compared with the request made")

lbytes.NORMALISE = True


# ---- UTF-8 encoder (str.encode is C code: it would realise symbolic text) ------------------------

def _utf8_chars(cs):
    """UTF-8 bytes (as a list of 1-char latin-1 strs) of a list of characters; arithmetic only"""
    out = []
    for c in cs:
        o = ord(c)
        if o < 0x80:
            out.append(c)
        elif o < 0x800:
            out.append(chr(0xC0 + o // 64))
            out.append(chr(0x80 + o % 64))
        elif o < 0x10000:
            if 0xD800 <= o <= 0xDFFF:
                raise UnicodeEncodeError("utf-8", "?", 0, 1, "surrogates not allowed")
            out.append(chr(0xE0 + o // 4096))
            out.append(chr(0x80 + (o // 64) % 64))
            out.append(chr(0x80 + o % 64))
        else:
            out.append(chr(0xF0 + o // 262144))
            out.append(chr(0x80 + (o // 4096) % 64))
            out.append(chr(0x80 + (o // 64) % 64))
            out.append(chr(0x80 + o % 64))
    return out


def _utf8_encode(text, errors="strict"):
    return "".join(_utf8_chars([c for c in text]))


lbytes.CODECS["utf-8"] = lbytes.CODECS["utf8"] = (_utf8_encode, None)


# ---- the lifted world -------------------------------------------------------------------------------

LA = lift.lift("twisted.web._abnf", use_re=True)
LH = lift.lift("twisted.web.http_headers", overrides={"_istoken": LA._istoken}, encode_calls=True)


def fresh_name_cache():
    """every harness starts from an empty header-name cache.  `_nameEncoder._canonicalHeaderCache` is a
    module-global dict that outlives a call (and, under CrossHair, a path): real world -> cleared; lifted
    world -> a fresh equality-lookup map (a dict would hash = realise a symbolic name), so that a name
    used twice inside one harness call DOES take the cached code path the second time"""
    if LH.__real__:
        LH._nameEncoder._canonicalHeaderCache.clear()
    else:
        LH._nameEncoder._canonicalHeaderCache = lbytes.SymDict()


if LH.__real__:
    Headers = LH.Headers
else:
    fresh_name_cache()
    LH._NameEncoder._caseMappings = lbytes.SymDict(LH._NameEncoder._caseMappings)

    class Headers(LH.Headers):
        """the lifted Headers with its name->values dict replaced by an insertion-ordered map that
        looks keys up by equality instead of hashing"""
        __slots__ = []

        def __init__(self, rawHeaders=None):
            self._rawHeaders = lbytes.SymDict()
            if rawHeaders is not None:
                for name, values in rawHeaders.items():
                    self.setRawHeaders(name, values)

L = lift.lift("twisted.web.http", names=["Request", "HTTPChannel", "toChunk"],
              overrides={"_istoken": LA._istoken, "Headers": Headers, "InvalidHeaderName": LH.InvalidHeaderName,
                         "_nameEncoder": LH._nameEncoder,
                         "_sanitizeLinearWhitespace": LH._sanitizeLinearWhitespace},
              encode_calls=True)

TCHAR = "ABCDEFGHIJKLMNOPQRSTUVWXYZabcdefghijklmnopqrstuvwxyz0123456789!#$%&'*+-.^_`|~"   # RFC 9110 5.6.2
CODES = [200, 204, 304, 100]


class Rec:
    """recording transport: one text per bytes object written"""

    def __init__(self):
        self.w = []

    def write(self, data):
        self.w.append(t(data))

    def writeSequence(self, seq):
        for x in seq:
            self.w.append(t(x))


class Chan:
    """what http.Request needs from its channel; the three writing methods are HTTPChannel's own"""
    factory = None
    writeHeaders = L.HTTPChannel.writeHeaders
    write = L.HTTPChannel.write
    writeSequence = L.HTTPChannel.writeSequence

    def __init__(self):
        self.transport = Rec()
        self.done = 0

    def getPeer(self):
        return None

    def getHost(self):
        return None

    def requestDone(self, request):
        self.done += 1


# ---- helpers: everything on the oracle side is a list of 1-character strs ---------------------------

def conc_len(s, mx):
    for k in range(mx + 1):
        if len(s) == k:
            return k
    return mx


def chars_of(s, mx):
    """the characters of harness argument `s` (length <= mx) as a list of concrete length"""
    n = conc_len(s, mx)
    return [s[i] for i in range(n)]


def text_of(cs):
    out = ""
    for c in cs:
        out = out + c
    return out


def all_latin1(s):
    for c in s:
        if ord(c) > 255:
            return False
    return True


def no_surrogates(s):
    for c in s:
        if 0xD800 <= ord(c) <= 0xDFFF:
            return False
    return True


def flat(pieces):
    """the written pieces as one list of characters (concrete pieces natively)"""
    out = []
    for p in pieces:
        if lbytes._is_conc(p):
            out.extend(p)
        else:
            for c in p:
                out.append(c)
    return out


def eql(xs, ys):
    """two character lists are equal (the expected one on the left)"""
    if len(xs) != len(ys):
        return False
    for i in range(len(xs)):
        if not (xs[i] == ys[i]):
            return False
    return True


def is_break(c):
    return c == "\r" or c == "\n"


def ref_sanitize(cs):
    """the documented effect of _sanitizeLinearWhitespace (= b' '.join(x.splitlines())): each line
    break CRLF / CR / LF becomes one space, a line break at the very end disappears"""
    out = []
    i = 0
    n = len(cs)
    while i < n:
        c = cs[i]
        if is_break(c):
            if c == "\r" and i + 1 < n and cs[i + 1] == "\n":
                i += 2
            else:
                i += 1
            if i < n:
                out.append(" ")
        else:
            out.append(c)
            i += 1
    return out


def ref_cookie_part(cs):
    return [(" " if c == ";" else c) for c in ref_sanitize(cs)]


def tokenize(cs):
    """reference response tokenizer, head part: lines up to the first empty line.  CRLF, a lone CR and a
    lone LF all end a line.  Returns (status line, header lines, rest) or None when there is no
    empty line."""
    lines = []
    cur = []
    i = 0
    n = len(cs)
    while i < n:
        c = cs[i]
        if is_break(c):
            if c == "\r" and i + 1 < n and cs[i + 1] == "\n":
                i += 2
            else:
                i += 1
            if len(cur) == 0 and len(lines) > 0:
                return lines[0], lines[1:], cs[i:]
            lines.append(cur)
            cur = []
        else:
            cur.append(c)
            i += 1
    return None


def split_header(line):
    """field-name ':' SP field-value"""
    for i in range(len(line)):
        if line[i] == ":":
            if i + 1 < len(line) and line[i + 1] == " ":
                return line[:i], line[i + 2:]
            return None
    return None


def split_status(line):
    """HTTP-version SP status-code SP reason-phrase"""
    sp = []
    for i in range(len(line)):
        if line[i] == " ":
            sp.append(i)
            if len(sp) == 2:
                break
    if len(sp) < 2:
        return None
    return line[:sp[0]], line[sp[0] + 1:sp[1]], line[sp[1] + 1:]


def hexval(c):
    o = ord(c)
    if 48 <= o <= 57:
        return o - 48
    if 97 <= o <= 102:
        return o - 87
    if 65 <= o <= 70:
        return o - 55
    return -1


def dechunk(cs):
    """reference chunked decoder (RFC 9112 7.1, no extensions, no trailers): the body, or None when
    `cs` is not exactly one complete chunked body"""
    out = []
    i = 0
    n = len(cs)
    while True:
        v = 0
        nd = 0
        while i < n and hexval(cs[i]) >= 0:
            v = v * 16 + hexval(cs[i])
            i += 1
            nd += 1
        if nd == 0 or not eql(["\r", "\n"], cs[i:i + 2]):
            return None
        i += 2
        if v == 0:
            if eql(["\r", "\n"], cs[i:i + 2]) and i + 2 == n:
                return out
            return None
        if i + v + 2 > n:
            return None
        out.extend(cs[i:i + v])
        if not eql(["\r", "\n"], cs[i + v:i + v + 2]):
            return None
        i += v + 2


def pick_code(ci):
    for i in range(len(CODES)):
        if ci == i:
            return CODES[i]
    return CODES[0]


def respond(ver11, head, code, reason, headers, cookies, writes):
    """drive one real Request: returns the channel"""
    ch = Chan()
    r = L.Request(ch, False)
    r.method = b("HEAD" if head else "GET")
    r.clientproto = b("HTTP/1.1" if ver11 else "HTTP/1.0")
    r.uri = b("/")
    if reason is None:
        r.setResponseCode(code)
    else:
        r.setResponseCode(code, reason)
    for name, value in headers:
        r.setHeader(name, value)
    for args, kw in cookies:
        r.addCookie(*args, **kw)
    for w in writes:
        r.write(w)
    r.finish()
    return ch


def check_response(ch, ver11, head, code, exp_reason, exp_headers, exp_cookies, body, app_cl):
    """exp_reason / header values / cookies / body are character lists"""
    if ch.done != 1:
        return False
    tk = tokenize(flat(ch.transport.w))
    if tk is None:
        return False
    status, hlines, rest = tk
    st = split_status(status)
    if st is None:
        return False
    if not (eql(list("HTTP/1.1" if ver11 else "HTTP/1.0"), st[0]) and eql(list("%d" % code), st[1])
            and eql(exp_reason, st[2])):
        return False
    bodiless = head or code == 204 or code == 304
    chunked = ver11 and not bodiless and not app_cl
    exp = list(exp_headers)
    if chunked:
        exp.append(("Transfer-Encoding", list("chunked")))
    for ck in exp_cookies:
        exp.append(("Set-Cookie", ck))
    # exactly the header lines asked for: no symbolic value can add one
    if len(hlines) != len(exp):
        return False
    for i in range(len(exp)):
        nv = split_header(hlines[i])
        if nv is None:
            return False
        if not (eql(list(exp[i][0]), nv[0]) and eql(exp[i][1], nv[1])):
            return False
    if bodiless:
        return len(rest) == 0
    if chunked:
        got = dechunk(rest)
        if got is None:
            return False
        return eql(body, got)
    return eql(body, rest)


# ---- kernels -----------------------------------------------------------------------------------------

def sanitize(value: str) -> bool:
    """
    pre: len(value) <= B['s'] and all_latin1(value)
    post: _
    """
    cs = chars_of(value, B['s'])
    out = t(LH._sanitizeLinearWhitespace(b(text_of(cs))))
    api.obs(out)
    cover()
    got = [c for c in out]
    for c in got:
        if is_break(c):
            return False
    return eql(ref_sanitize(cs), got)


def _items(h):
    return [(t(k), [t(x) for x in vs]) for k, vs in h.getAllRawHeaders()]


def _put(h, nm, add, v):
    try:
        if add:
            h.addRawHeader(nm, b(v))
        else:
            h.setRawHeaders(nm, [b(v)])
    except LH.InvalidHeaderName:
        return False
    return True


def is_token(cs):
    valid = len(cs) > 0
    for c in cs:
        if not lbytes._char_in(c, TCHAR):
            valid = False
    return valid


def ieq(cs, key):
    """ASCII case-insensitive equality of two character lists"""
    if len(key) != len(cs):
        return False
    for i in range(len(cs)):
        a, k = ord(cs[i]), ord(key[i])
        if 65 <= a <= 90:
            a += 32
        if 65 <= k <= 90:
            k += 32
        if a != k:
            return False
    return True


def header_name(name: str, add: bool, as_text: bool) -> bool:
    """
    pre: len(name) <= B['nm'] and all_latin1(name)
    post: _
    """
    fresh_name_cache()
    cs = chars_of(name, B['nm'])
    nm = text_of(cs)
    if not as_text:
        nm = b(nm)
    h = Headers()
    # the SAME name three times: first use, second use on the same object (the name encoder's cache has
    # seen the name by now), third use on a new object with the other operation
    ok1 = _put(h, nm, add, "v")
    ok2 = _put(h, nm, add, "w")
    h2 = Headers()
    ok3 = _put(h2, nm, not add, "z")
    items = _items(h)
    items2 = _items(h2)
    api.obs((ok1, ok2, ok3, items, items2))
    cover()
    if not is_token(cs):
        # refused every time it is set, nothing stored anywhere
        return (not ok1) and (not ok2) and (not ok3) and len(items) == 0 and len(items2) == 0
    if not (ok1 and ok2 and ok3) or len(items) != 1 or len(items2) != 1:
        return False
    if not (ieq(cs, [c for c in items[0][0]]) and ieq(cs, [c for c in items2[0][0]])):
        return False
    vals = items[0][1]
    if add:
        if not (len(vals) == 2 and vals[0] == "v" and vals[1] == "w"):
            return False
    elif not (len(vals) == 1 and vals[0] == "w"):
        return False
    if not (len(items2[0][1]) == 1 and items2[0][1][0] == "z"):
        return False
    got = h.getRawHeaders(nm)
    return h.hasHeader(nm) and got is not None and len(got) == len(vals)


def header_value(value: str, as_text: bool, add: bool) -> bool:
    """
    pre: len(value) <= B['hv'] and no_surrogates(value)
    pre: as_text or all_latin1(value)
    post: _
    """
    fresh_name_cache()
    cs = chars_of(value, B['hv'])
    v = text_of(cs)
    if not as_text:
        v = b(v)
    h = Headers()
    h.setRawHeaders(b("x-a"), [b("first")])
    if add:
        h.addRawHeader(b("X-A"), v)
    else:
        h.setRawHeaders(b("X-A"), [b("zero"), v])
    items = [(t(k), [t(x) for x in vs]) for k, vs in h.getAllRawHeaders()]
    api.obs(items)
    cover()
    if not (len(items) == 1 and items[0][0] == "X-A" and len(items[0][1]) == 2):
        return False
    if items[0][1][0] != ("first" if add else "zero"):
        return False
    exp = ref_sanitize(_utf8_chars(cs) if as_text else cs)
    got = [c for c in items[0][1][1]]
    for c in got:
        if is_break(c):
            return False
    return eql(exp, got)


# ---- response level ----------------------------------------------------------------------------------

def resp_reason(reason: str, ver11: bool, head: bool, ci: int) -> bool:
    """
    pre: len(reason) <= B['rs'] and all_latin1(reason)
    pre: 0 <= ci < 4
    post: _
    """
    fresh_name_cache()
    code = pick_code(ci)
    cs = chars_of(reason, B['rs'])
    ch = respond(ver11, head, code, b(text_of(cs)), [(b("content-type"), b("text/html"))], [], [b("hi")])
    api.obs(ch.transport.w)
    cover()
    # the reason phrase cannot contain a line break on the wire: at most its sanitised form
    return check_response(ch, ver11, head, code, ref_sanitize(cs), [("Content-Type", list("text/html"))], [],
                          list("hi"), False)


def resp_header(value: str, as_text: bool, ver11: bool, ci: int) -> bool:
    """
    pre: len(value) <= B['hv'] and no_surrogates(value)
    pre: as_text or all_latin1(value)
    pre: 0 <= ci < 4
    post: _
    """
    fresh_name_cache()
    code = pick_code(ci)
    cs = chars_of(value, B['hv'])
    v = text_of(cs)
    if not as_text:
        v = b(v)
    ch = respond(ver11, False, code, None, [(b("x-a"), v), ("Content-Type", "text/html")], [], [b("hi")])
    api.obs(ch.transport.w)
    cover()
    exp = ref_sanitize(_utf8_chars(cs) if as_text else cs)
    reason = {200: "OK", 204: "No Content", 304: "Not Modified", 100: "Continue"}[code]
    return check_response(ch, ver11, False, code, list(reason),
                          [("X-A", exp), ("Content-Type", list("text/html"))], [], list("hi"), False)


def resp_badname(name: str, as_text: bool, ver11: bool) -> bool:
    """
    pre: 1 <= len(name) <= B['nm'] and all_latin1(name)
    post: _
    """
    fresh_name_cache()
    cs = chars_of(name, B['nm'])
    nm = text_of(cs)
    if not as_text:
        nm = b(nm)
    ch = Chan()
    r = L.Request(ch, False)
    r.method = b("GET")
    r.clientproto = b("HTTP/1.1" if ver11 else "HTTP/1.0")
    r.uri = b("/")
    r.setHeader(b("content-type"), b("text/html"))
    oks = []
    # the application tries the same name three times (second and third time the name encoder has
    # already seen it), then answers
    for v in ("1", "2"):
        try:
            r.setHeader(nm, b(v))
            oks.append(True)
        except LH.InvalidHeaderName:
            oks.append(False)
    try:
        r.responseHeaders.addRawHeader(nm, b("3"))
        oks.append(True)
    except LH.InvalidHeaderName:
        oks.append(False)
    r.write(b("hi"))
    r.finish()
    api.obs((oks, ch.transport.w))
    cover()
    tk = tokenize(flat(ch.transport.w))
    if tk is None:
        return False
    status, hlines, rest = tk
    if not eql(list(("HTTP/1.1" if ver11 else "HTTP/1.0") + " 200 OK"), status):
        return False
    hs = []
    for ln in hlines:
        nv = split_header(ln)
        if nv is None:
            return False
        hs.append(nv)
    valid = is_token(cs)
    exp = [("Content-Type", list("text/html"))]
    if valid:
        exp = exp + [(None, ["2"]), (None, ["3"])]
    if ver11:
        exp.append(("Transfer-Encoding", list("chunked")))
    if valid != (oks[0] and oks[1] and oks[2]) or valid == ((not oks[0]) and (not oks[1]) and (not oks[2])):
        return False
    # an invalid name leaves no trace on the wire: exactly the other header lines
    if len(hs) != len(exp):
        return False
    for i in range(len(exp)):
        if exp[i][0] is None:
            if not ieq(cs, hs[i][0]):
                return False
        elif not eql(list(exp[i][0]), hs[i][0]):
            return False
        if not eql(exp[i][1], hs[i][1]):
            return False
    if ver11:
        got = dechunk(rest)
        return got is not None and eql(list("hi"), got)
    return eql(list("hi"), rest)


ATTRS = [None, "expires", "domain", "path", "max_age", "comment"]
ATTR_TEXT = [None, "Expires", "Domain", "Path", "Max-Age", "Comment"]


def resp_cookie(k: str, v: str, a: str, which: int, as_text: bool) -> bool:
    """
    pre: len(k) <= B['ck'] and len(v) <= B['cv'] and len(a) <= B['ca']
    pre: no_surrogates(k + v + a) and (as_text or all_latin1(k + v + a))
    pre: 0 <= which < 6
    pre: which == 0 or len(v) <= 1
    pre: not as_text or (which == 0 and len(v) <= 1) or (k == "k" and v == "v")
    post: _
    """
    fresh_name_cache()
    w = 0
    for i in range(6):
        if which == i:
            w = i
    kc, vc, ac = chars_of(k, B['ck']), chars_of(v, B['cv']), chars_of(a, B['ca'])
    conv = (lambda cs: text_of(cs)) if as_text else (lambda cs: b(text_of(cs)))
    kw = {}
    if w > 0:
        kw[ATTRS[w]] = conv(ac)
    ch = respond(True, False, 200, None, [],
                 [((conv(kc), conv(vc)), kw),
                  ((b("sid"), "1"), {"secure": True, "httpOnly": True, "sameSite": "Lax", "path": b("/")})],
                 [b("hi")])
    api.obs(ch.transport.w)
    cover()
    enc = (lambda cs: _utf8_chars(cs)) if as_text else (lambda cs: cs)
    exp = ref_cookie_part(enc(kc)) + ["="] + ref_cookie_part(enc(vc))
    if w > 0:
        exp = exp + list("; " + ATTR_TEXT[w] + "=") + ref_cookie_part(enc(ac))
    # no attribute can be added through a value: ';' only where addCookie put one
    nsemi = 0
    for c in exp:
        if c == ";":
            nsemi += 1
    if nsemi != (1 if w > 0 else 0):
        return False
    return check_response(ch, True, False, 200, list("OK"), [],
                          [exp, list("sid=1; Path=/; Secure; HttpOnly; SameSite=lax")], list("hi"), False)


def resp_body(w1: str, w2: str, ver11: bool, head: bool, ci: int, cl: bool) -> bool:
    """
    pre: len(w1) <= B['bw'] and len(w2) <= B['bw'] and all_latin1(w1 + w2)
    pre: 0 <= ci < 4
    post: _
    """
    fresh_name_cache()
    code = pick_code(ci)
    c1, c2 = chars_of(w1, B['bw']), chars_of(w2, B['bw'])
    hs = []
    eh = []
    if cl:
        n = "%d" % (len(c1) + len(c2))
        hs.append((b("content-length"), b(n)))
        eh.append(("Content-Length", list(n)))
    ch = respond(ver11, head, code, b("Fine"), hs, [], [b(text_of(c1)), b(text_of(c2))])
    api.obs(ch.transport.w)
    cover()
    return check_response(ch, ver11, head, code, list("Fine"), eh, [], c1 + c2, cl)


def _len_shards(var, hi, lo=0):
    return [("len(%s) == %d" % (var, n),) for n in range(lo, hi + 1)]


# first character of a 3-byte header name by token-character class (the validity check forks ~19 ways
# per character)
_FIRST = ["name[0] < '#'", "'#' <= name[0] < '*'", "'*' <= name[0] < '-'", "'-' <= name[0] < '0'",
          "'0' <= name[0] < 'A'", "'A' <= name[0] < '^'", "'^' <= name[0] < '|'", "'|' <= name[0] < '~'",
          "'~' <= name[0]"]

HARNESSES = [
    H(sanitize, shards=lambda tier: _len_shards("value", BOUNDS[tier]["s"]), timeout={"quick": 60, "thorough": 900}),
    H(header_name, shards=lambda tier: [("len(name) == %d" % n, "as_text == %s" % x)
                                        for n in range(2) for x in (False, True)] +
                                       [("len(name) == 2", "as_text == %s" % x, "name[0] %s '@'" % op)
                                        for x in (False, True) for op in ("<", ">=")] +
                                       [("len(name) == %d" % n, "as_text == %s" % x, rng)
                                        for n in range(3, BOUNDS[tier]["nm"] + 1) for x in (False, True)
                                        for rng in _FIRST],
      timeout={"quick": 90, "thorough": 1500}),
    H(header_value, shards=lambda tier: [("len(value) == %d" % n, "as_text == %s" % x)
                                         for n in range(BOUNDS[tier]["hv"] + 1) for x in (False, True)],
      timeout={"quick": 60, "thorough": 900}),
    H(resp_reason, shards=lambda tier: [("len(reason) == %d" % n, "ver11 == %s" % x)
                                        for n in range(BOUNDS[tier]["rs"] + 1) for x in (False, True)],
      timeout={"quick": 60, "thorough": 1200}),
    H(resp_header, shards=lambda tier: [("len(value) == %d" % n, "as_text == %s" % x)
                                        for n in range(BOUNDS[tier]["hv"] + 1) for x in (False, True)],
      timeout={"quick": 60, "thorough": 1200}),
    H(resp_badname, shards=lambda tier: [("len(name) == 1", "as_text == %s" % x) for x in (False, True)] +
                                        [("len(name) == 2", "as_text == %s" % x, "name[0] %s '@'" % op)
                                         for x in (False, True) for op in ("<", ">=")] +
                                        [("len(name) == %d" % n, "as_text == %s" % x, rng)
                                         for n in range(3, BOUNDS[tier]["nm"] + 1) for x in (False, True)
                                         for rng in _FIRST],
      timeout={"quick": 90, "thorough": 1500}),
    H(resp_cookie, shards=lambda tier: [("which == %d" % w, "as_text == %s" % x)
                                        for w in range(6) for x in (False, True)],
      timeout={"quick": 90, "thorough": 1200}),
    H(resp_body, shards=lambda tier: [("len(w1) == %d" % n,) for n in range(BOUNDS[tier]["bw"] + 1)],
      timeout={"quick": 60, "thorough": 900}),
]

VECTORS = {
    "sanitize": [("a\rb",), ("\r\n",), ("\n\r",), ("a\n",), ("\r\r\n",), ("\x00\xff\x85",), ("",), ("\x0b\x0c\x1c",)],
    "header_name": [("a", False, False), ("te", True, False), ("A ", False, True), (":", True, True),
                    ("", False, False), ("\r\n", False, False), ("x\x00", True, False), ("\xe9", False, True),
                    ("~|", True, True), ("-", False, False)],
    "header_value": [("a\rb", False, False), ("\r\n", False, True), (" \x85", True, False), ("\xe9\n", True, True),
                     ("\U0001F600", True, False), ("\xff\x00", False, False), ("", True, True)],
    "resp_reason": [("K\r\n", True, False, 0), ("\r\n", True, False, 0), ("a\nb", False, False, 0),
                    ("\r", True, True, 2), ("\n\r", True, False, 3), ("OK", True, False, 0), ("", False, False, 0), ("N", True, True, 1), ("\xffx", True, False, 2),
                    (" ", False, True, 3)],
    "resp_header": [("a\rb", False, True, 0), ("\r\n", False, False, 0), ("\n", True, True, 1), ("Ā", True, True, 2),
                    ("x:", False, True, 3), ("\x85 ", True, False, 0)],
    "resp_badname": [("\r\n", False, True), ("a\n", True, True), ("x-", False, False), (":", True, False),
                     ("te", False, True), ("\x00", False, True), ("a ", True, False)],
    "resp_cookie": [("k", "v", "", 0, False), ("\r", "\n", ";", 1, False), (";", "=", "\n", 2, True),
                    ("\xe9", "Ā", "/", 3, True), ("k", "\r\n", "\r", 4, False), ("", "v;", ";", 5, False)],
    "resp_body": [("ab", "cd", True, False, 0, False), ("ab", "", True, False, 0, True), ("\r\n", "0", True, False, 0, False),
                  ("a", "b", False, False, 0, False), ("a", "b", True, True, 0, False), ("a", "b", True, False, 1, False),
                  ("a", "b", True, False, 2, True), ("", "", True, False, 3, False), ("\xff", "\x00", False, True, 1, True)],
}

def selftest():
    import sys
    n = lbytes.selftest()
    pts = [0, 1, 0x7f, 0x80, 0xff, 0x100, 0x7ff, 0x800, 0xd7ff, 0xe000, 0xfffd, 0xffff, 0x10000, 0x10ffff, 0x85, 0x2028]
    for a in pts:
        for c in pts:
            s = chr(a) + chr(c)
            assert _utf8_encode(s) == s.encode("utf8").decode("latin-1"), s
            n += 1
    for s in ("", "a\rb", "\r\n", "\n\r", "a\n", "\r\r\n", "x\n\ny", "\nq", "a\r\n\r\nb\r"):
        assert text_of(ref_sanitize(list(s))) == b" ".join(s.encode().splitlines()).decode(), s
        n += 1
    assert dechunk(list("2\r\nab\r\n0\r\n\r\n")) == ["a", "b"] and dechunk(list("0\r\n\r\n")) == []
    assert dechunk(list("2\r\nab\r\n")) is None and dechunk(list("2\r\nabc\r\n0\r\n\r\n")) is None
    assert dechunk(list("0\r\n\r\nx")) is None and dechunk(list("a\r\n0123456789\r\n0\r\n\r\n")) == list("0123456789")
    return n + 6
