"""C14 transport write buffering: bytes handed to the OS are exactly the bytes written, in order, once;
close only after the buffer drained (and never with a pull producer registered); push producers are
paused when the buffer is full and resumed when it drains.

Engine E3 (ropes): the REAL, unlifted `FileDescriptor.write/writeSequence/doWrite/loseConnection/
loseWriteConnection/_maybePauseProducer/_isSendBufferFull` and `_ConsumerMixin.registerProducer/
unregisterProducer` run on opaque byte strings (spans of a master stream with symbolic endpoints).
`writeSomeData` is the harness's OS: it accepts a symbolic number of bytes 0 <= l <= len(offered).
"""
from twisted.internet import abstract as _ab
from twisted.internet import main as _main

from vlib import api, rope
from vlib.api import H, cover

PROPERTY = "C14"
LEVEL = "model_checking"
ENCODED = ["twisted.internet.abstract:FileDescriptor.write", "twisted.internet.abstract:FileDescriptor.writeSequence",
           "twisted.internet.abstract:FileDescriptor.doWrite", "twisted.internet.abstract:FileDescriptor._postLoseConnection",
           "twisted.internet.abstract:FileDescriptor.loseConnection",
           "twisted.internet.abstract:FileDescriptor.loseWriteConnection",
           "twisted.internet.abstract:FileDescriptor._maybePauseProducer",
           "twisted.internet.abstract:FileDescriptor._isSendBufferFull",
           "twisted.internet.abstract:FileDescriptor.connectionLost",
           "twisted.internet.abstract:_ConsumerMixin.registerProducer",
           "twisted.internet.abstract:_ConsumerMixin.unregisterProducer"]
BOUNDS = {"quick": {"hist": 3, "rw": 3, "cap": 1 << 20}, "thorough": {"hist": 4, "rw": 5, "cap": 1 << 20}}
B = {}
BOUNDS_TEXT = ("inductive steps: ANY buffer state satisfying the representation invariant (dataBuffer of any length, "
               "any offset, 0-2 pending pieces of any length, all <= cap = 1 MiB; SEND_LIMIT >= 1 and bufferSize >= 0 "
               "any ints; every combination of producer kind / paused / disconnecting / half-close flags) and ONE "
               "operation with any length / any OS accept count; histories of hist operations from a fresh "
               "descriptor (lengths, accept counts, SEND_LIMIT, bufferSize symbolic) followed by a full drain; "
               "partial-write schedules: optional producer, rw write/doWrite operations in any order, optional "
               "loseConnection, drain")
OUTSIDE = ["real sockets and reactors (writeSomeData is the harness's OS model; the reactor only records "
           "addWriter/removeWriter/removeReader)",
           "writes larger than 1 MiB and more than two pending pieces in the inductive pre-state (lengths are "
           "symbolic integers; the code treats list lengths uniformly)",
           "writeSequence with other than two pieces",
           "producers that write or unregister re-entrantly from inside pauseProducing/resumeProducing",
           "whether a half-close (loseWriteConnection) eventually happens when a producer is registered",
           "data written after the write side was half-closed (_writeDisconnected) is dropped by design and is "
           "not part of the stream"]
ASSUMPTIONS = ["ropes: data content is never inspected by the code under test (any content access raises "
               "RopeContentAccess and is reported); every master-stream byte is treated as distinct",
               "the two module-level helpers of twisted.internet.abstract that touch content, `_concatenate` "
               "(b''.join of memoryview) and `lazyByteSlice` (memoryview slice), are rebound in the module to "
               "rope-aware versions (slice + concatenation) for the duration of each harness call and restored "
               "afterwards; in replay the real helpers run on real bytes",
               "SEND_LIMIT and bufferSize are set on the instance",
               "representation invariant assumed for the inductive steps and checked to be re-established by every "
               "operation (and reachable: the history harness checks it after every operation from a fresh "
               "descriptor): 0 <= offset <= len(dataBuffer); _tempDataLen == sum of pending piece lengths; "
               "dataBuffer[offset:] + pending pieces == stream[accepted:written]; _writeDisconnected implies "
               "_writeDisconnecting and an empty buffer; unsent data implies the writer is registered; "
               "disconnecting without producer implies the writer is registered",
               "writeSomeData returns 0 <= l <= len(data) or an exception instance (connection lost)"]
EXPLANATION = ("real FileDescriptor buffer methods on ropes: one symbolic operation from an arbitrary invariant-"
               "satisfying buffer state, and symbolic operation histories from a fresh descriptor, each checked "
               "against the stream/close/producer specification")


class _Reactor:
    def __init__(self, writing, reading):
        self.writing = writing
        self.reading = reading

    def addWriter(self, fd):
        self.writing = True

    def removeWriter(self, fd):
        self.writing = False

    def addReader(self, fd):
        self.reading = True

    def removeReader(self, fd):
        self.reading = False


class _Producer:
    def __init__(self, calls):
        self.calls = calls

    def pauseProducing(self):
        self.calls.append("pause")

    def resumeProducing(self):
        self.calls.append("resume")

    def stopProducing(self):
        self.calls.append("stop")


class _FD(_ab.FileDescriptor):
    def __init__(self, reactor):
        _ab.FileDescriptor.__init__(self, reactor)
        self.connected = 1
        self.script = []        # OS behaviour for the next writeSomeData calls: accept count, -1 = error
        self.offered = []       # (data offered to the OS, accepted count)
        self.events = []        # "post" = _postLoseConnection, "closewrite", "connlost"
        self.prodcalls = []

    def writeSomeData(self, data):
        want = self.script.pop(0) if self.script else 0
        if want < 0:
            self.offered.append((data, -1))
            return _main.CONNECTION_LOST
        k = rope.imin(want, len(data))
        self.offered.append((data, k))
        return k

    def _postLoseConnection(self):
        self.events.append("post")
        return _ab.FileDescriptor._postLoseConnection(self)

    def _closeWriteConnection(self):
        self.events.append("closewrite")

    def connectionLost(self, reason):
        self.events.append("connlost")
        _ab.FileDescriptor.connectionLost(self, reason)


def _patched():
    return rope.rebound(_ab, _concatenate=rope.rope_concatenate, lazyByteSlice=rope.rope_lazyByteSlice)


def _snap(fd):
    return {"dl": len(fd.dataBuffer), "off": fd.offset, "tlen": fd._tempDataLen,
            "prod": 0 if fd.producer is None else (1 if fd.streamingProducer else 2),
            "paused": bool(fd.producerPaused), "disc": bool(fd.disconnecting),
            "wdg": bool(fd._writeDisconnecting), "wdd": bool(fd._writeDisconnected),
            "writing": fd.reactor.writing, "reading": fd.reactor.reading, "connected": bool(fd.connected)}


_FLAGS = ("prod", "paused", "disc", "wdg", "wdd", "writing", "reading", "connected")


def _clear(fd):
    del fd.offered[:]
    del fd.events[:]
    del fd.prodcalls[:]


def _content_ok(fd, A, W):
    """dataBuffer[offset:] + pending pieces is exactly stream[A:W]; the length bookkeeping is consistent"""
    if fd.offset < 0 or fd.offset > len(fd.dataBuffer):
        return False
    n = 0
    for p in fd._tempDataBuffer:
        n = n + len(p)
    if n != fd._tempDataLen:
        return False
    unsent = rope.concat([fd.dataBuffer[fd.offset:]] + list(fd._tempDataBuffer))
    if not rope.is_span(unsent, A, W):
        return False
    return True


def _inv(fd, A, W):
    if not _content_ok(fd, A, W):
        return False
    if fd._writeDisconnected:
        if not fd._writeDisconnecting or len(fd.dataBuffer) != 0 or fd._tempDataLen != 0:
            return False
    if not fd.connected:
        return True
    if W > A and not fd.reactor.writing:
        return False
    if fd.disconnecting and fd.producer is None and not fd.reactor.writing:
        return False
    return True


def _post(fd, A, W, exp):
    s = _snap(fd)
    for k in _FLAGS:
        if s[k] != exp[k]:
            return False
    return _inv(fd, A, W)


# ---- the operations with their specification; each returns (ok, A', W', closed) -------------------------

def _op_write(fd, A, W, n):
    pre = _snap(fd)
    _clear(fd)
    fd.write(rope.span(W, W + n))
    exp = dict(pre)
    calls = []
    W2 = W
    if pre["connected"] and not pre["wdd"] and n > 0:
        W2 = W + n
        exp["writing"] = True
        if pre["prod"] == 1 and pre["dl"] + pre["tlen"] + n > fd.bufferSize:
            exp["paused"] = True
            calls = ["pause"]
    ok = (fd.prodcalls == calls and fd.offered == [] and fd.events == []
          and len(fd.dataBuffer) == pre["dl"] and fd.offset == pre["off"]
          and fd._tempDataLen == pre["tlen"] + (W2 - W) and _post(fd, A, W2, exp))
    return ok, A, W2, False


def _op_writeseq(fd, A, W, n1, n2):
    pre = _snap(fd)
    _clear(fd)
    fd.writeSequence([rope.span(W, W + n1), rope.span(W + n1, W + n1 + n2)])
    exp = dict(pre)
    calls = []
    W2 = W
    if pre["connected"] and not pre["wdd"]:
        W2 = W + n1 + n2
        exp["writing"] = True
        if pre["prod"] == 1 and pre["dl"] + pre["tlen"] + n1 + n2 > fd.bufferSize:
            exp["paused"] = True
            calls = ["pause"]
    ok = (fd.prodcalls == calls and fd.offered == [] and fd.events == []
          and len(fd.dataBuffer) == pre["dl"] and fd.offset == pre["off"]
          and fd._tempDataLen == pre["tlen"] + (W2 - W) and _post(fd, A, W2, exp))
    return ok, A, W2, False


def _op_dowrite(fd, A, W, l):
    pre = _snap(fd)
    _clear(fd)
    fd.script = [l]
    ret = fd.doWrite()
    if len(fd.offered) != 1:
        return False, A, W, False
    d, k = fd.offered[0]
    # what is offered to the OS is a prefix of the unsent stream; it is non-empty if anything is unsent
    rest = pre["dl"] - pre["off"]
    explen = rest if rest >= fd.SEND_LIMIT else rest + pre["tlen"]
    if len(d) != explen or not rope.is_span(d, A, A + explen):
        return False, A, W, False
    if W > A and explen <= 0:
        return False, A, W, False
    exp = dict(pre)
    if l < 0:
        # the OS reported a lost connection: doWrite hands the exception to the reactor, nothing is consumed
        ok = ret is _main.CONNECTION_LOST and fd.events == [] and fd.prodcalls == [] and _post(fd, A, W, exp)
        return ok, A, W, False
    if k != rope.imin(l, explen):
        return False, A, W, False
    A2 = A + k
    calls = []
    events = []
    expret = None
    closed = False
    if A2 == W:
        # drained: stop writing, then (in this order) let a pull / paused producer continue, else close if
        # asked to, else half-close if asked to
        exp["writing"] = False
        if len(fd.dataBuffer) != 0 or fd.offset != 0:
            return False, A, W, False
        if pre["prod"] != 0 and (pre["prod"] == 2 or pre["paused"]):
            exp["paused"] = False
            calls = ["resume"]
        elif pre["disc"]:
            events = ["post"]
            expret = _main.CONNECTION_DONE
            closed = True
        elif pre["wdg"]:
            exp["wdd"] = True
            events = ["closewrite"]
    ok = ret is expret and fd.events == events and fd.prodcalls == calls
    if closed:
        # the reactor now calls connectionLost; the buffer is empty and no pull producer is registered
        ok = ok and pre["prod"] != 2 and _content_ok(fd, A2, W)
        s = _snap(fd)
        for f in _FLAGS:
            if s[f] != exp[f]:
                ok = False
    else:
        ok = ok and _post(fd, A2, W, exp)
    return ok, A2, W, closed


def _op_register(fd, A, W, streaming):
    pre = _snap(fd)
    _clear(fd)
    try:
        fd.registerProducer(_Producer(fd.prodcalls), streaming)
        raised = False
    except RuntimeError:
        raised = True
    exp = dict(pre)
    calls = []
    if pre["prod"] == 0:
        exp["prod"] = 1 if streaming else 2
        if not streaming:
            calls = ["resume"]
    ok = (raised == (pre["prod"] != 0) and fd.prodcalls == calls and fd.offered == [] and fd.events == []
          and len(fd.dataBuffer) == pre["dl"] and fd.offset == pre["off"] and _post(fd, A, W, exp))
    return ok, A, W, False


def _op_unregister(fd, A, W):
    pre = _snap(fd)
    _clear(fd)
    fd.unregisterProducer()
    exp = dict(pre)
    exp["prod"] = 0
    if pre["connected"] and pre["disc"]:
        exp["writing"] = True       # so that the pending close can happen
    ok = (fd.prodcalls == [] and fd.offered == [] and fd.events == []
          and len(fd.dataBuffer) == pre["dl"] and fd.offset == pre["off"] and _post(fd, A, W, exp))
    return ok, A, W, False


def _op_lose(fd, A, W):
    pre = _snap(fd)
    _clear(fd)
    fd.loseConnection()
    exp = dict(pre)
    calls = []
    events = []
    closed = False
    if pre["connected"] and not pre["disc"]:
        if pre["wdd"]:
            # write side already shut down: nothing can be buffered, close immediately
            if A != W:
                return False, A, W, False
            events = ["connlost"]
            closed = True
            exp["connected"] = False
            exp["reading"] = False
            exp["writing"] = False
            if pre["prod"] != 0:
                calls = ["stop"]
                exp["prod"] = 0
        else:
            # flush first: only the flag is set and the writer is (re)started
            exp["disc"] = True
            exp["reading"] = False
            exp["writing"] = True
    ok = (fd.prodcalls == calls and fd.offered == [] and fd.events == events
          and len(fd.dataBuffer) == pre["dl"] and fd.offset == pre["off"] and _post(fd, A, W, exp))
    return ok, A, W, closed


def _op_losewrite(fd, A, W):
    pre = _snap(fd)
    _clear(fd)
    fd.loseWriteConnection()
    exp = dict(pre)
    exp["wdg"] = True
    exp["writing"] = True
    ok = (fd.prodcalls == [] and fd.offered == [] and fd.events == []
          and len(fd.dataBuffer) == pre["dl"] and fd.offset == pre["off"] and _post(fd, A, W, exp))
    return ok, A, W, False


# ---- inductive steps -------------------------------------------------------------------------------------

def _state(s0, dl, off, nt, t1, t2, sl, bs, prod, paused, disc, wdg, wdd, writing):
    """an arbitrary descriptor state satisfying the representation invariant; returns (fd, A, W)"""
    rope.reset()
    fd = _FD(_Reactor(True if writing else False, True))
    fd.SEND_LIMIT = sl
    fd.bufferSize = bs
    D = s0 + dl
    fd.dataBuffer = rope.span(s0, D)
    fd.offset = off
    W = D
    if nt >= 1:
        fd._tempDataBuffer.append(rope.span(W, W + t1))
        W = W + t1
    if nt >= 2:
        fd._tempDataBuffer.append(rope.span(W, W + t2))
        W = W + t2
    fd._tempDataLen = W - D
    if prod != 0:
        fd.producer = _Producer(fd.prodcalls)
        fd.streamingProducer = True if prod == 1 else False
    fd.producerPaused = True if paused else False
    if disc:
        fd.disconnecting = 1
    fd._writeDisconnecting = True if wdg else False
    fd._writeDisconnected = True if wdd else False
    return fd, s0 + off, W


def step_write(s0: int, dl: int, off: int, nt: int, t1: int, t2: int, sl: int, bs: int, prod: int, paused: bool,
               disc: bool, wdg: bool, wdd: bool, writing: bool, n: int) -> bool:
    """
    pre: 0 <= s0 <= B['cap'] and 0 <= off <= dl <= B['cap'] and 0 <= nt <= 2
    pre: 0 <= t1 <= B['cap'] and 0 <= t2 <= B['cap'] and (nt >= 1 or t1 == 0) and (nt >= 2 or t2 == 0)
    pre: 1 <= sl <= 4 * B['cap'] and 0 <= bs <= 4 * B['cap'] and 0 <= prod <= 2
    pre: (not wdd) or (wdg and dl == 0 and t1 + t2 == 0)
    pre: writing or (dl - off + t1 + t2 == 0 and not (disc and prod == 0))
    pre: 0 <= n <= B['cap']
    post: _
    """
    with _patched():
        fd, A, W = _state(s0, dl, off, nt, t1, t2, sl, bs, prod, paused, disc, wdg, wdd, writing)
        ok, A2, W2, closed = _op_write(fd, A, W, n)
        cover()
        return ok and A2 == A and (W2 == W + n or (wdd and W2 == W))


def step_writeseq(s0: int, dl: int, off: int, nt: int, t1: int, t2: int, sl: int, bs: int, prod: int, paused: bool,
                  disc: bool, wdg: bool, wdd: bool, writing: bool, n1: int, n2: int) -> bool:
    """
    pre: 0 <= s0 <= B['cap'] and 0 <= off <= dl <= B['cap'] and 0 <= nt <= 2
    pre: 0 <= t1 <= B['cap'] and 0 <= t2 <= B['cap'] and (nt >= 1 or t1 == 0) and (nt >= 2 or t2 == 0)
    pre: 1 <= sl <= 4 * B['cap'] and 0 <= bs <= 4 * B['cap'] and 0 <= prod <= 2
    pre: (not wdd) or (wdg and dl == 0 and t1 + t2 == 0)
    pre: writing or (dl - off + t1 + t2 == 0 and not (disc and prod == 0))
    pre: 0 <= n1 <= B['cap'] and 0 <= n2 <= B['cap']
    post: _
    """
    with _patched():
        fd, A, W = _state(s0, dl, off, nt, t1, t2, sl, bs, prod, paused, disc, wdg, wdd, writing)
        ok, A2, W2, closed = _op_writeseq(fd, A, W, n1, n2)
        cover()
        return ok and A2 == A and (W2 == W + n1 + n2 or (wdd and W2 == W))


def step_dowrite(s0: int, dl: int, off: int, nt: int, t1: int, t2: int, sl: int, bs: int, prod: int, paused: bool,
                 disc: bool, wdg: bool, wdd: bool, writing: bool, l: int) -> bool:
    """
    pre: 0 <= s0 <= B['cap'] and 0 <= off <= dl <= B['cap'] and 0 <= nt <= 2
    pre: 0 <= t1 <= B['cap'] and 0 <= t2 <= B['cap'] and (nt >= 1 or t1 == 0) and (nt >= 2 or t2 == 0)
    pre: 1 <= sl <= 4 * B['cap'] and 0 <= bs <= 4 * B['cap'] and 0 <= prod <= 2
    pre: (not wdd) or (wdg and dl == 0 and t1 + t2 == 0)
    pre: writing or (dl - off + t1 + t2 == 0 and not (disc and prod == 0))
    pre: 0 <= l <= 4 * B['cap']
    post: _
    """
    with _patched():
        fd, A, W = _state(s0, dl, off, nt, t1, t2, sl, bs, prod, paused, disc, wdg, wdd, writing)
        ok, A2, W2, closed = _op_dowrite(fd, A, W, l)
        cover()
        if not ok or W2 != W or A2 < A or A2 > W:
            return False
        # closed exactly when: everything handed over, close requested, and no pull / paused producer
        want_close = (A2 == W and disc and not (prod == 2 or (prod == 1 and paused)))
        return closed == want_close


def step_dowrite_error(s0: int, dl: int, off: int, nt: int, t1: int, t2: int, sl: int, bs: int, prod: int,
                       paused: bool, disc: bool, wdg: bool, wdd: bool, writing: bool) -> bool:
    """
    pre: 0 <= s0 <= B['cap'] and 0 <= off <= dl <= B['cap'] and 0 <= nt <= 2
    pre: 0 <= t1 <= B['cap'] and 0 <= t2 <= B['cap'] and (nt >= 1 or t1 == 0) and (nt >= 2 or t2 == 0)
    pre: 1 <= sl <= 4 * B['cap'] and 0 <= bs <= 4 * B['cap'] and 0 <= prod <= 2
    pre: (not wdd) or (wdg and dl == 0 and t1 + t2 == 0)
    pre: writing or (dl - off + t1 + t2 == 0 and not (disc and prod == 0))
    post: _
    """
    with _patched():
        fd, A, W = _state(s0, dl, off, nt, t1, t2, sl, bs, prod, paused, disc, wdg, wdd, writing)
        ok, A2, W2, closed = _op_dowrite(fd, A, W, -1)
        cover()
        return ok and A2 == A and W2 == W and not closed


def step_producer(s0: int, dl: int, off: int, nt: int, t1: int, t2: int, sl: int, bs: int, prod: int, paused: bool,
                  disc: bool, wdg: bool, wdd: bool, writing: bool, op: int) -> bool:
    """
    pre: 0 <= s0 <= B['cap'] and 0 <= off <= dl <= B['cap'] and 0 <= nt <= 2
    pre: 0 <= t1 <= B['cap'] and 0 <= t2 <= B['cap'] and (nt >= 1 or t1 == 0) and (nt >= 2 or t2 == 0)
    pre: 1 <= sl <= 4 * B['cap'] and 0 <= bs <= 4 * B['cap'] and 0 <= prod <= 2
    pre: (not wdd) or (wdg and dl == 0 and t1 + t2 == 0)
    pre: writing or (dl - off + t1 + t2 == 0 and not (disc and prod == 0))
    pre: 0 <= op <= 2
    post: _
    """
    with _patched():
        fd, A, W = _state(s0, dl, off, nt, t1, t2, sl, bs, prod, paused, disc, wdg, wdd, writing)
        if op == 0:
            ok, A2, W2, closed = _op_register(fd, A, W, True)
        elif op == 1:
            ok, A2, W2, closed = _op_register(fd, A, W, False)
        else:
            ok, A2, W2, closed = _op_unregister(fd, A, W)
        cover()
        return ok and A2 == A and W2 == W and not closed


def step_lose(s0: int, dl: int, off: int, nt: int, t1: int, t2: int, sl: int, bs: int, prod: int, paused: bool,
              disc: bool, wdg: bool, wdd: bool, writing: bool, half: bool) -> bool:
    """
    pre: 0 <= s0 <= B['cap'] and 0 <= off <= dl <= B['cap'] and 0 <= nt <= 2
    pre: 0 <= t1 <= B['cap'] and 0 <= t2 <= B['cap'] and (nt >= 1 or t1 == 0) and (nt >= 2 or t2 == 0)
    pre: 1 <= sl <= 4 * B['cap'] and 0 <= bs <= 4 * B['cap'] and 0 <= prod <= 2
    pre: (not wdd) or (wdg and dl == 0 and t1 + t2 == 0)
    pre: writing or (dl - off + t1 + t2 == 0 and not (disc and prod == 0))
    post: _
    """
    with _patched():
        fd, A, W = _state(s0, dl, off, nt, t1, t2, sl, bs, prod, paused, disc, wdg, wdd, writing)
        if half:
            ok, A2, W2, closed = _op_losewrite(fd, A, W)
        else:
            ok, A2, W2, closed = _op_lose(fd, A, W)
        cover()
        if not ok or A2 != A or W2 != W:
            return False
        # loseConnection never closes while data is buffered
        return (not closed) or A == W


# ---- histories from a fresh descriptor ---------------------------------------------------------------------

def _concrete(d, top):
    for k in range(top + 1):
        if d == k:
            return k
    return top


def _history(sl, bs, ops):
    """ops: (kind, x, y) with kind 0 write(x), 1 writeSequence([x, y]), 2 doWrite accepting x, 3/4 register a
    push/pull producer, 5 unregister, 6 loseConnection, 7 loseWriteConnection, 8 nothing; then a full drain"""
    rope.reset()
    fd = _FD(_Reactor(False, True))
    fd.SEND_LIMIT = sl
    fd.bufferSize = bs
    A = 0
    W = 0
    closed = False
    asked = False
    for (o, x, y) in ops:
        o = _concrete(o, 8)     # one path family per operation kind
        if o == 8 or closed:
            continue
        if o == 0:
            ok, A, W, closed = _op_write(fd, A, W, x)
        elif o == 1:
            ok, A, W, closed = _op_writeseq(fd, A, W, x, y)
        elif o == 2:
            ok, A, W, closed = _op_dowrite(fd, A, W, x)
        elif o == 3:
            ok, A, W, closed = _op_register(fd, A, W, True)
        elif o == 4:
            ok, A, W, closed = _op_register(fd, A, W, False)
        elif o == 5:
            ok, A, W, closed = _op_unregister(fd, A, W)
        elif o == 6:
            ok, A, W, closed = _op_lose(fd, A, W)
            asked = True
        else:
            ok, A, W, closed = _op_losewrite(fd, A, W)
        if not ok:
            return False
    # the OS now accepts everything: at most two doWrite calls hand over all that was written, in order
    # (two because a dataBuffer of >= SEND_LIMIT unsent bytes goes out before the pending pieces)
    for i in range(2):
        if closed:
            break
        ok, A, W, closed = _op_dowrite(fd, A, W, 8 * B['cap'])
        if not ok:
            return False
    cover()
    if A != W:
        return False
    if closed and not asked:
        return False
    if asked and fd.producer is None and not closed:
        return False        # close was requested, nothing is left, nobody holds it back: it must have happened
    return True


def history(sl: int, bs: int, o0: int, x0: int, y0: int, o1: int, x1: int, y1: int, o2: int, x2: int, y2: int,
            o3: int, x3: int, y3: int) -> bool:
    """
    pre: 1 <= sl <= 4 * B['cap'] and 0 <= bs <= 4 * B['cap']
    pre: 0 <= o0 <= 7 and 0 <= o1 <= 7 and 0 <= o2 <= 7 and 0 <= o3 <= 8
    pre: o3 == 8 or B['hist'] >= 4
    pre: 0 <= x0 <= B['cap'] and 0 <= x1 <= B['cap'] and 0 <= x2 <= B['cap'] and 0 <= x3 <= B['cap']
    pre: 0 <= y0 <= B['cap'] and 0 <= y1 <= B['cap'] and 0 <= y2 <= B['cap'] and 0 <= y3 <= B['cap']
    post: _
    """
    with _patched():
        return _history(sl, bs, ((o0, x0, y0), (o1, x1, y1), (o2, x2, y2), (o3, x3, y3)))


def history_rw(sl: int, bs: int, prod: int, r0: bool, x0: int, r1: bool, x1: int, r2: bool, x2: int, r3: bool,
               x3: int, r4: bool, x4: int, lose: bool) -> bool:
    """
    pre: 1 <= sl <= 4 * B['cap'] and 0 <= bs <= 4 * B['cap'] and 0 <= prod <= 2
    pre: 0 <= x0 <= B['cap'] and 0 <= x1 <= B['cap'] and 0 <= x2 <= B['cap'] and 0 <= x3 <= B['cap'] and 0 <= x4 <= B['cap']
    pre: B['rw'] >= 5 or (r4 and x4 == 0)
    pre: B['rw'] >= 4 or (r3 and x3 == 0)
    post: _
    """
    # partial-write schedules: an optional producer, then write(x) / doWrite(accepting x) in any order, then
    # optionally loseConnection, then the drain
    with _patched():
        ops = [((8, 3, 4)[_concrete(prod, 2)], 0, 0)]
        for (r, x) in ((r0, x0), (r1, x1), (r2, x2), (r3, x3), (r4, x4)):
            ops.append((2 if r else 0, x, 0))
        ops.append((6 if lose else 8, 0, 0))
        return _history(sl, bs, ops)


_NT = [("nt == 0",), ("nt == 1",), ("nt == 2",)]

HARNESSES = [
    H(step_write, shards=_NT, timeout={"quick": 60, "thorough": 300}),
    H(step_writeseq, shards=_NT, timeout={"quick": 60, "thorough": 300}),
    H(step_dowrite, shards=[("nt == %d" % a, "prod == %d" % p) for a in range(3) for p in range(3)],
      timeout={"quick": 60, "thorough": 300}),
    H(step_dowrite_error, shards=_NT, timeout={"quick": 60, "thorough": 300}),
    H(step_producer, shards=_NT, timeout={"quick": 60, "thorough": 300}),
    H(step_lose, shards=_NT, timeout={"quick": 60, "thorough": 300}),
    H(history, shards=lambda tier: [("o0 == %d" % a, "o1 == %d" % b2) + (("o3 == 8", "x3 == 0", "y3 == 0") if BOUNDS[tier]["hist"] < 4 else ())
                                    for a in range(8) for b2 in range(8)],
      timeout={"quick": 60, "thorough": 900}),
    H(history_rw, shards=[("prod == %d" % p, "r0 == %s" % a, "r1 == %s" % c) for p in range(3)
                          for a in (False, True) for c in (False, True)],
      timeout={"quick": 60, "thorough": 900}),
]

VECTORS = {
    "step_write": [(0, 0, 0, 0, 0, 0, 10, 4, 1, False, False, False, False, False, 5),
                   (3, 4, 1, 1, 2, 0, 10, 9, 1, False, False, False, False, True, 1),
                   (0, 0, 0, 0, 0, 0, 10, 4, 0, False, False, True, True, False, 5)],
    "step_writeseq": [(0, 2, 2, 2, 1, 0, 1, 3, 1, True, True, False, False, True, 0, 2)],
    "step_dowrite": [(0, 6, 2, 2, 1, 3, 3, 4, 1, True, True, False, False, True, 100),
                     (0, 6, 2, 2, 1, 3, 9, 4, 2, False, True, False, False, True, 8),
                     (5, 0, 0, 0, 0, 0, 9, 4, 0, False, True, False, False, True, 0),
                     (5, 1, 0, 0, 0, 0, 9, 4, 0, False, False, True, False, True, 1)],
    "step_dowrite_error": [(0, 6, 2, 2, 1, 3, 3, 4, 1, True, True, False, False, True)],
    "step_producer": [(0, 1, 0, 0, 0, 0, 3, 4, 0, False, True, False, False, True, 1),
                      (0, 1, 0, 0, 0, 0, 3, 4, 2, False, True, False, False, True, 2),
                      (0, 1, 0, 0, 0, 0, 3, 4, 1, False, True, False, False, True, 0)],
    "step_lose": [(0, 0, 0, 0, 0, 0, 3, 4, 1, False, False, True, True, False, False),
                  (0, 3, 1, 1, 2, 0, 3, 4, 0, False, False, False, False, True, False),
                  (0, 3, 1, 1, 2, 0, 3, 4, 0, False, False, False, False, True, True)],
    "history": [(1, 0, 7, 0, 0, 2, 1, 0, 6, 0, 0, 8, 0, 0), (4, 3, 0, 5, 0, 2, 2, 0, 6, 0, 0, 8, 0, 0), (1, 0, 3, 0, 0, 1, 2, 3, 2, 1, 0, 8, 0, 0),
                (100, 2, 4, 0, 0, 0, 7, 0, 6, 0, 0, 8, 0, 0), (2, 2, 7, 0, 0, 2, 0, 0, 0, 3, 0, 8, 0, 0)],
    "history_rw": [(3, 2, 1, False, 5, True, 2, False, 1, True, 9, True, 0, True),
                   (1, 0, 2, False, 1, False, 1, True, 1, True, 0, True, 0, False),
                   (4, 9, 0, True, 0, False, 6, True, 3, False, 2, True, 0, True)],
}


def selftest():
    return rope.selftest()
