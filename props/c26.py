"""C26 path containment: FilePath.child / preauthChild / descendant and static.File traversal never
leave the parent directory (symbolic links aside).

Engine E1: the real FilePath methods on native symbolic `str` names (text-mode FilePath); the C
implemented os.path.normpath / abspath (and join, which calls os.fspath) are rebound inside
twisted.python.filepath to CPython's own pure-Python posixpath algorithms (validated against the C
ones in selftest()).  static.File.getChild / Request.process are run through the E2 lift (bytes path
segments), with a fake filesystem in which every path exists and is a directory.
"""
import os
import posixpath
from typing import List

from vlib import api, lbytes, lift
from vlib.api import H, cover
from vlib.lift import b

from twisted.python import filepath as _fp
from twisted.python.filepath import FilePath, InsecurePath

PROPERTY = "C26"
LEVEL = "model_checking"
ENCODED = ["twisted.python.filepath:FilePath.child", "twisted.python.filepath:FilePath.preauthChild",
           "twisted.python.filepath:AbstractFilePath.descendant", "twisted.web.static:File.getChild",
           "twisted.web.static:File.createSimilarFile", "twisted.web.server:Request.process",
           "twisted.web.resource:getChildForRequest", "twisted.web.resource:Resource.getChildWithDefault"]
BOUNDS = {"quick": {"n": 7, "d": 5, "u": 4, "k": 3}, "thorough": {"n": 9, "d": 7, "u": 5, "k": 4}}
B = {}
BOUNDS_TEXT = ("parent fixed to /r/ab (sibling /r/abc in mind); child/preauthChild name of <= n arbitrary code "
               "points; descendant of <= 2 segments with <= d characters in total; request path '/' + <= u "
               "arbitrary bytes < 0x80, and '/' + <= k tokens from a traversal menu ('..', '.', '%2e', '%2E', '%2f', "
               "'%2F', '%5c', '%00', '/', 'abc', 'x', '%', '\\\\')")
OUTSIDE = ["symbolic links (the property excludes them) and any real filesystem: os.stat / os.path.exists as "
           "seen by twisted.python.filepath are fakes that record the path and answer 'a directory' for every "
           "path (the most permissive tree)",
           "bytes-mode FilePath and non-UTF-8 request segments (getChild answers NotFound before touching a path; "
           "bytes >= 0x80 in a request are outside the symbolic alphabet of the request harnesses)",
           "Windows path rules (os.sep '\\\\', drive letters, the colon check)",
           "names longer than n characters; request paths beyond the stated bounds",
           "index file search, ignoredExts, processors and directory listings of static.File (empty here)"]
ASSUMPTIONS = ["posixpath.normpath/abspath/join: CPython's pure-Python algorithms (the ImportError fallback of "
               "posixpath.normpath) stand in for the C accelerated ones; compared with os.path on a corpus of "
               "hostile paths on every run (selftest)",
               "repr() of a *symbolic* str is a constant under the solver (twisted formats the offending name "
               "into InsecurePath messages only; formatting would realise it); replay uses the real repr",
               "request harnesses: urllib's unquote_to_bytes is replaced in the lifted world by a pure %XX "
               "decoder, compared with the real one on a corpus on every run"]
EXPLANATION = ("real FilePath.child/preauthChild/descendant and static.File traversal on symbolic names; result "
               "path must be the parent or a normalised path below it, else InsecurePath / NotFound")

ROOT = "/r/ab"


# ---- pure-Python posixpath (CPython 3.12 Lib/posixpath.py, fallback branch) --------------------

def _normpath(path):
    sep = "/"
    if path == "":
        return "."
    # posixpath.splitroot
    if path[:1] != sep:
        initial_slashes = ""
    elif path[1:2] != sep or path[2:3] == sep:
        initial_slashes = sep
        path = path[1:]
    else:
        initial_slashes = "//"
        path = path[2:]
    comps = path.split(sep)
    new_comps = []
    for comp in comps:
        if comp == "" or comp == ".":
            continue
        if (comp != ".." or (not initial_slashes and not new_comps) or
                (new_comps and new_comps[-1] == "..")):
            new_comps.append(comp)
        elif new_comps:
            new_comps.pop()
    path = initial_slashes + sep.join(new_comps)
    return path or "."


def _join(a, *p):
    sep = "/"
    path = a
    for bb in p:
        if bb.startswith(sep):
            path = bb
        elif not path or path.endswith(sep):
            path += bb
        else:
            path += sep + bb
    return path


def _abspath(path):
    if not path.startswith("/"):
        path = _join(os.getcwd(), path)
    return _normpath(path)


def _guard(pure, real):
    def f(path, *rest):
        if isinstance(path, (bytes, os.PathLike)):
            return real(path, *rest)
        return pure(path, *rest)
    return f


def quiet_symbolic_repr():
    """twisted formats the offending name into its InsecurePath / InvalidPath messages
    (f"{path!r} ..."); repr() of a symbolic str realises it, i.e. one path per concrete name.  The
    messages never matter here: under CrossHair repr() of a *symbolic* str is a constant."""
    try:
        from crosshair.libimpl.builtinslib import AnySymbolicStr
    except ImportError:
        return
    AnySymbolicStr.__repr__ = lambda self: "'<symbolic str>'"


def rebind_posixpath():
    _fp.normpath = _guard(_normpath, os.path.normpath)
    _fp.abspath = _guard(_abspath, os.path.abspath)
    _fp.joinpath = _guard(_join, os.path.join)


if api.MODE != "real":
    rebind_posixpath()
    quiet_symbolic_repr()


# ---- oracle --------------------------------------------------------------------------------------

def _contained(p, direct):
    """p is ROOT itself, or a *normalised* path below ROOT (no '', '.', '..' segments, so that no
    segment can climb out again); direct: exactly one segment below"""
    if p == ROOT:
        return True
    pre = ROOT + "/"
    if not p.startswith(pre):
        return False
    rest = p[len(pre):]
    segs = rest.split("/")
    if direct and len(segs) != 1:
        return False
    for s in segs:
        if s == "" or s == "." or s == "..":
            return False
    return True


def child(name: str) -> bool:
    """
    pre: len(name) <= B['n']
    post: _
    """
    parent = FilePath(ROOT)
    try:
        r = parent.child(name)
    except InsecurePath:
        cover("refused")
        return True
    cover()
    return _contained(r.path, True)


def preauth(path: str) -> bool:
    """
    pre: len(path) <= B['n']
    post: _
    """
    parent = FilePath(ROOT)
    try:
        r = parent.preauthChild(path)
    except InsecurePath:
        cover("refused")
        return True
    cover()
    return _contained(r.path, False)


def descendant(segs: List[str]) -> bool:
    """
    pre: len(segs) <= 2 and sum([len(s) for s in segs]) <= B['d']
    post: _
    """
    parent = FilePath(ROOT)
    try:
        r = parent.descendant(segs)
    except InsecurePath:
        cover("refused")
        return True
    cover()
    if not _contained(r.path, False):
        return False
    # each segment adds at most one level
    return r.path == ROOT or len(r.path[len(ROOT) + 1:].split("/")) <= len(segs)


# ---- static.File behind a Site: Request.process -> getChildForRequest -> File.getChild ----------

_HEXD = "0123456789abcdefABCDEF"


def _hexval(c):
    o = ord(c)
    if 48 <= o <= 57:
        return o - 48
    if 97 <= o <= 102:
        return o - 87
    if 65 <= o <= 70:
        return o - 55
    return -1


def _unquote_text(s):
    """urllib.parse.unquote_to_bytes on the latin-1 text view: %XX with two hex digits is decoded,
    any other '%' stays"""
    bits = s.split("%")
    if len(bits) == 1:
        return s
    res = [bits[0]]
    for item in bits[1:]:
        h = _hexval(item[0]) if len(item) >= 2 else -1
        l = _hexval(item[1]) if len(item) >= 2 else -1
        if h >= 0 and l >= 0:
            res.append(chr(h * 16 + l))
            res.append(item[2:])
        else:
            res.append("%")
            res.append(item)
    return "".join(res)


def _unquote_l(x):
    return lbytes.LBytes(_unquote_text(lbytes._s(x)))


from twisted.web import resource as _resource, server as _server  # noqa: E402

LS = lift.lift("twisted.web.static", names=["File"])
LR = lift.lift("twisted.web.server", names=["Request"], overrides={"unquote": _unquote_l})


class _NotFound(_resource._UnsafeNoResource):
    def __init__(self):
        _resource._UnsafeNoResource.__init__(self, "File not found.")
        self.children = lbytes.SymDict()   # compared, not hashed: the segment is symbolic


class _File(LS.File):
    childNotFound = _NotFound()

    def __init__(self, *a, **k):
        LS.File.__init__(self, *a, **k)
        self.children = lbytes.SymDict()
        self.processors = lbytes.SymDict()


class _Stop(Exception):
    pass


class _Channel:
    site = None


class _Req(LR.Request):
    def __init__(self, site, path):
        ch = _Channel()
        ch.site = site
        self.channel = ch
        self.path = path
        self.served = None

    def setHeader(self, k, v):
        pass

    def render(self, resrc):
        self.served = resrc

    def processingFailed(self, reason):
        reason.raiseException()


_DIRSTAT = os.stat_result((0o040755, 1, 1, 1, 0, 0, 0, 0, 0, 0))


def _serve(path_text):
    """run the real Request.process for b'/' + path against Site(File(ROOT)) on a filesystem where
    every path exists and is a directory; returns (served resource, [paths stat()ed])"""
    seen = []

    def fstat(p, *a, **k):
        seen.append(p)
        return _DIRSTAT

    def fexists(p):
        seen.append(p)
        return True

    saved = (_fp.stat, _fp.exists)
    _fp.stat, _fp.exists = fstat, fexists
    try:
        site = _server.Site(_File(ROOT))
        req = _Req(site, b("/" + path_text))
        req.process()
    finally:
        _fp.stat, _fp.exists = saved
    return req.served, seen


def _served_ok(res, seen):
    for p in seen:
        if not (isinstance(p, str) and _contained(p, False)):
            return False
    if isinstance(res, _File):
        cover("served")
        return _contained(res.path, False)
    cover("notfound")
    return isinstance(res, _resource._UnsafeErrorPageBase)


def request(url: str) -> bool:
    """
    pre: len(url) <= B['u'] and all(ord(c) < 128 for c in url)
    post: _
    """
    res, seen = _serve(url)
    cover()
    return _served_ok(res, seen)


MENU = ["..", ".", "%2e", "%2E", "%2f", "%2F", "%5c", "%00", "/", "abc", "x", "%", "\\"]


def request_menu(toks: List[int]) -> bool:
    """
    pre: len(toks) <= B['k'] and all(0 <= i < len(MENU) for i in toks)
    post: _
    """
    # the solver picks the token sequence; each sequence is then one concrete request
    url = ""
    for i in toks:
        for j in range(len(MENU)):
            if i == j:
                url = url + MENU[j]
                break
    res, seen = _serve(url)
    api.obs((url, type(res).__name__, getattr(res, "path", None), seen))
    cover()
    return _served_ok(res, seen)


def _len_shards(name, key):
    return lambda tier: [("len(%s) == %d" % (name, i),) for i in range(0, BOUNDS[tier][key] + 1)]


def _menu_shards(tier):
    k = BOUNDS[tier]["k"]
    out = [("len(toks) <= %d" % (k - 1),)]
    if tier == "quick":
        out += [("len(toks) == %d" % k, "%d <= toks[0] < %d" % (lo, lo + 3)) for lo in range(0, len(MENU), 3)]
    else:
        out += [("len(toks) == %d" % k, "toks[0] == %d" % a) for a in range(len(MENU))]
    return out


_CLS = ["%s < '%%'", "%s == '%%'", "'%%' < %s < '.'", "%s == '.'", "%s == '/'", "%s > '/'"]
_HEXCLS = ["%s < 'A'", "'A' <= %s < 'a'", "%s >= 'a'"]


def _url_shards(tier):
    u = BOUNDS[tier]["u"]
    top = "len(url) == %d" % u
    out = [("len(url) <= %d" % (u - 2),), ("len(url) == %d" % (u - 1),)]
    for c in _CLS:
        first = c % "url[0]"
        if first == "url[0] == '%'":
            # after a '%' the hex-digit decoding multiplies the cases
            for h in _HEXCLS:
                if tier == "quick":
                    out.append((top, first, h % "url[1]"))
                else:
                    out += [(top, first, h % "url[1]", h2 % "url[2]") for h2 in _HEXCLS]
        elif tier == "quick":
            out.append((top, first))
        else:
            out += [(top, first, c2 % "url[1]") for c2 in _CLS]
    return out


def _desc_shards(tier):
    d = BOUNDS[tier]["d"]
    out = [("len(segs) == 0",)] + [("len(segs) == 1", "len(segs[0]) == %d" % i) for i in range(0, d + 1)]
    out += [("len(segs) == 2", "len(segs[0]) == %d" % i, "len(segs[1]) == %d" % j)
            for i in range(0, d + 1) for j in range(0, d + 1 - i)]
    return out


HARNESSES = [
    H(child, shards=_len_shards("name", "n"), labels=("end", "refused"), timeout={"quick": 120, "thorough": 1500}),
    H(preauth, shards=_len_shards("path", "n"), labels=("end", "refused"), timeout={"quick": 120, "thorough": 1500}),
    H(descendant, shards=_desc_shards, labels=("end", "refused"), timeout={"quick": 60, "thorough": 900}),
    H(request, shards=_url_shards, labels=("end", "served", "notfound"),
      timeout={"quick": 120, "thorough": 1500}),
    H(request_menu, shards=_menu_shards, labels=("end", "served", "notfound"),
      timeout={"quick": 120, "thorough": 1500}, note="solver-driven case split over a traversal token menu"),
]

VECTORS = {
    "child": [("x",), ("..",), ("",), (".",), ("a/b",), ("/etc",), ("x\x00",), ("../abc",), ("x/..",), ("//",)],
    "preauth": [("x",), ("../abX",), ("../ab",), ("../ab/x",), ("a/../..",), ("/r/ab/x",), ("//r/ab/x",), ("",),
                ("a//b/",), ("../abc",)],
    "descendant": [([],), (["x"],), (["x", "y"],), (["..", "ab"],), (["x", ".."],), (["", ""],), (["a/b"],)],
    "request": [("x",), ("",), ("..",), ("%2e%2e",), ("a/..",), ("%2f",), ("%2e.",), ("x%00",), ("../abc",),
                ("%2e%2e%2fabc",), ("a//b",), ("%",), ("%2",), ("%zz",)],
    "request_menu": [([0, 8, 9],), ([2, 2, 4],), ([],), ([10, 8, 0],), ([7],), ([11, 2],), ([12, 0, 12],)],
}

_CORPUS_PARTS = ["", "/", "//", "///", ".", "..", "a", "ab", "abc", "x\x00", "\x00", "./", "../", "/..", "/.",
                 "a/", "/a", "\\", "é", " ", "r/ab", "/r/ab", "..a", "a..", "...", "-"]


def selftest():
    n = 0
    for a in _CORPUS_PARTS:
        for c in _CORPUS_PARTS:
            for d in ("", "/", "..", "/../x", "a"):
                p = a + c + d
                assert _normpath(p) == os.path.normpath(p), (p, _normpath(p), os.path.normpath(p))
                assert _abspath(p) == os.path.abspath(p), p
                assert _join(ROOT, a, c + d) == os.path.join(ROOT, a, c + d), (a, c, d)
                assert _join(a, p) == posixpath.join(a, p)
                n += 4
    from urllib.parse import unquote_to_bytes
    for a in ["", "%", "%2", "%2e", "%2E", "%2f", "%zz", "%%", "a%2eb", "%2", "%e", "%25", "%00", "%ff", "%Fg", "x", "%2e%2e%2f",
              "%g0", "%0", "%a", "%A1", "/"]:
        for c in ["", "%", "%2e", "2e", "e", "/..", "%2F%"]:
            assert _unquote_text(a + c) == unquote_to_bytes((a + c).encode("latin-1")).decode("latin-1"), a + c
            n += 1
    return n + lbytes.selftest()
