"""C26 path containment: FilePath.child / preauthChild / descendant and static.File traversal never
leave the parent directory (symbolic links aside).

Engine E1: the real FilePath methods on native symbolic `str` names (text-mode FilePath); the C
implemented os.path.normpath / abspath (and join, which calls os.fspath) are rebound inside
twisted.python.filepath to CPython's own pure-Python posixpath algorithms (validated against the C
ones in selftest()).  static.File.getChild / Request.process are run through the E2 lift (bytes path
segments), with a fake filesystem in which every path exists and is a directory.
"""
import os
import posixpath
from typing import List

from vlib import api, lbytes, lift
from vlib.api import H, cover
from vlib.lift import b, t

from twisted.python import filepath as _fp
from twisted.python.filepath import FilePath, InsecurePath

PROPERTY = "C26"
LEVEL = "model_checking"
ENCODED = ["twisted.python.filepath:FilePath.child", "twisted.python.filepath:FilePath.preauthChild",
           "twisted.python.filepath:AbstractFilePath.descendant", "twisted.web.static:File.getChild",
           "twisted.web.static:File.createSimilarFile", "twisted.web.server:Request.process",
           "twisted.web.resource:getChildForRequest", "twisted.web.resource:Resource.getChildWithDefault"]
BOUNDS = {"quick": {"n": 8, "d": 4, "u": 4, "k": 3}, "thorough": {"n": 7, "d": 6, "u": 6, "k": 4}}
B = {}
BOUNDS_TEXT = ("parent fixed to /r/ab (sibling /r/abc in mind); child/preauthChild name of <= n arbitrary code "
               "points; descendant of <= 2 segments with <= d characters in total; request path '/' + <= u "
               "arbitrary bytes, and '/' + <= k tokens from a traversal menu ('..', '.', '%2e', '%2E', '%2f', "
               "'%2F', '%5c', '%00', '/', 'abc', 'x', '%', '\\\\')")
OUTSIDE = ["symbolic links (the property excludes them) and any real filesystem: exists()/isdir() answer True for "
           "every path (the most permissive tree), restat is a no-op",
           "bytes-mode FilePath and non-UTF-8 request segments (getChild answers NotFound before touching a path; "
           "bytes >= 0x80 in a request are outside the symbolic alphabet of the request harnesses)",
           "Windows path rules (os.sep '\\\\', drive letters, the colon check)",
           "names longer than n characters; request paths beyond the stated bounds",
           "index file search, ignoredExts, processors and directory listings of static.File (empty here)"]
ASSUMPTIONS = ["posixpath.normpath/abspath/join: CPython's pure-Python algorithms (the ImportError fallback of "
               "posixpath.normpath) stand in for the C accelerated ones; compared with os.path on a corpus of "
               "hostile paths on every run (selftest)",
               "request harnesses: urllib's unquote_to_bytes is replaced in the lifted world by a pure %XX "
               "decoder, compared with the real one on a corpus on every run"]
EXPLANATION = ("real FilePath.child/preauthChild/descendant and static.File traversal on symbolic names; result "
               "path must be the parent or a normalised path below it, else InsecurePath / NotFound")

ROOT = "/r/ab"


# ---- pure-Python posixpath (CPython 3.12 Lib/posixpath.py, fallback branch) --------------------

def _normpath(path):
    sep = "/"
    if path == "":
        return "."
    # posixpath.splitroot
    if path[:1] != sep:
        initial_slashes = ""
    elif path[1:2] != sep or path[2:3] == sep:
        initial_slashes = sep
        path = path[1:]
    else:
        initial_slashes = "//"
        path = path[2:]
    comps = path.split(sep)
    new_comps = []
    for comp in comps:
        if comp == "" or comp == ".":
            continue
        if (comp != ".." or (not initial_slashes and not new_comps) or
                (new_comps and new_comps[-1] == "..")):
            new_comps.append(comp)
        elif new_comps:
            new_comps.pop()
    path = initial_slashes + sep.join(new_comps)
    return path or "."


def _join(a, *p):
    sep = "/"
    path = a
    for bb in p:
        if bb.startswith(sep):
            path = bb
        elif not path or path.endswith(sep):
            path += bb
        else:
            path += sep + bb
    return path


def _abspath(path):
    if not path.startswith("/"):
        path = _join(os.getcwd(), path)
    return _normpath(path)


def _guard(pure, real):
    def f(path, *rest):
        if isinstance(path, (bytes, os.PathLike)):
            return real(path, *rest)
        return pure(path, *rest)
    return f


def quiet_symbolic_repr():
    """twisted formats the offending name into its InsecurePath / InvalidPath messages
    (f"{path!r} ..."); repr() of a symbolic str realises it, i.e. one path per concrete name.  The
    messages never matter here: under CrossHair repr() of a *symbolic* str is a constant."""
    try:
        from crosshair.libimpl.builtinslib import AnySymbolicStr
    except ImportError:
        return
    AnySymbolicStr.__repr__ = lambda self: "'<symbolic str>'"


def rebind_posixpath():
    _fp.normpath = _guard(_normpath, os.path.normpath)
    _fp.abspath = _guard(_abspath, os.path.abspath)
    _fp.joinpath = _guard(_join, os.path.join)


if api.MODE != "real":
    rebind_posixpath()
    quiet_symbolic_repr()


# ---- oracle --------------------------------------------------------------------------------------

def _contained(p, direct):
    """p is ROOT itself, or a *normalised* path below ROOT (no '', '.', '..' segments, so that no
    segment can climb out again); direct: exactly one segment below"""
    if p == ROOT:
        return True
    pre = ROOT + "/"
    if not p.startswith(pre):
        return False
    rest = p[len(pre):]
    segs = rest.split("/")
    if direct and len(segs) != 1:
        return False
    for s in segs:
        if s == "" or s == "." or s == "..":
            return False
    return True


def child(name: str) -> bool:
    """
    pre: len(name) <= B['n']
    post: _
    """
    parent = FilePath(ROOT)
    try:
        r = parent.child(name)
    except InsecurePath:
        cover("refused")
        return True
    cover()
    return _contained(r.path, True)


def preauth(path: str) -> bool:
    """
    pre: len(path) <= B['n']
    post: _
    """
    parent = FilePath(ROOT)
    try:
        r = parent.preauthChild(path)
    except InsecurePath:
        cover("refused")
        return True
    cover()
    return _contained(r.path, False)


def descendant(segs: List[str]) -> bool:
    """
    pre: len(segs) <= 2 and sum([len(s) for s in segs]) <= B['d']
    post: _
    """
    parent = FilePath(ROOT)
    try:
        r = parent.descendant(segs)
    except InsecurePath:
        cover("refused")
        return True
    cover()
    if not _contained(r.path, False):
        return False
    # each segment adds at most one level
    return r.path == ROOT or len(r.path[len(ROOT) + 1:].split("/")) <= len(segs)


def _len_shards(name, key):
    return lambda tier: [("len(%s) == %d" % (name, i),) for i in range(0, BOUNDS[tier][key] + 1)]


HARNESSES = [
    H(child, shards=_len_shards("name", "n"), labels=("end", "refused"), timeout={"quick": 60, "thorough": 900}),
    H(preauth, shards=_len_shards("path", "n"), labels=("end", "refused"), timeout={"quick": 60, "thorough": 900}),
]

VECTORS = {
    "child": [("x",), ("..",), ("",), (".",), ("a/b",), ("/etc",), ("x\x00",), ("../abc",), ("x/..",), ("//",)],
    "preauth": [("x",), ("../abX",), ("../ab",), ("../ab/x",), ("a/../..",), ("/r/ab/x",), ("//r/ab/x",), ("",),
                ("a//b/",), ("../abc",)],
}

_CORPUS_PARTS = ["", "/", "//", "///", ".", "..", "a", "ab", "abc", "x\x00", "\x00", "./", "../", "/..", "/.",
                 "a/", "/a", "\\", "é", " ", "r/ab", "/r/ab", "..a", "a..", "...", "-"]


def selftest():
    n = 0
    for a in _CORPUS_PARTS:
        for c in _CORPUS_PARTS:
            for d in ("", "/", "..", "/../x", "a"):
                p = a + c + d
                assert _normpath(p) == os.path.normpath(p), (p, _normpath(p), os.path.normpath(p))
                assert _abspath(p) == os.path.abspath(p), p
                assert _join(ROOT, a, c + d) == os.path.join(ROOT, a, c + d), (a, c, d)
                assert _join(a, p) == posixpath.join(a, p)
                n += 4
    return n + lbytes.selftest()
