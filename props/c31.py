"""C31 AMP request/response matching and failure of pending calls on disconnect.

Engine E1 (object code, concrete boxes, real bytes): two real `amp.AMP` instances A and B joined by
in-memory queues of serialized boxes (one transport.write per box = box-level delivery through the
real BinaryBoxProtocol parser).  The SCHEDULE is symbolic: a List[int] over {A/B calls a command whose
responder answers now / later / raises a declared error / raises an undeclared error; deliver the
next box A->B / B->A; fire the oldest or newest pending responder with a result or a declared error;
connection lost}, plus a CHAINED call whose result handler issues one further call (retry-on-failure
user code, also from the errback run during connection loss).  A reference model predicts, after every step, the queue lengths and the outcome
of every callRemote Deferred; the real objects must agree after every step and at the end (where the
connection is lost if it was not already).
"""
import contextlib
import sys
from typing import List

from twisted.internet.defer import Deferred
from twisted.internet.error import ConnectionDone, ConnectionLost
from twisted.protocols import amp
from twisted.python.failure import Failure

from vlib.api import H, cover

PROPERTY = "C31"
LEVEL = "model_checking"
ENCODED = ["twisted.protocols.amp:BoxDispatcher._sendBoxCommand", "twisted.protocols.amp:BoxDispatcher.callRemote",
           "twisted.protocols.amp:BoxDispatcher.ampBoxReceived", "twisted.protocols.amp:BoxDispatcher._answerReceived",
           "twisted.protocols.amp:BoxDispatcher._errorReceived", "twisted.protocols.amp:BoxDispatcher._commandReceived",
           "twisted.protocols.amp:BoxDispatcher.failAllOutgoing", "twisted.protocols.amp:BoxDispatcher._nextTag",
           "twisted.protocols.amp:BoxDispatcher.dispatchCommand", "twisted.protocols.amp:BoxDispatcher._safeEmit",
           "twisted.protocols.amp:Command._doCommand", "twisted.protocols.amp:CommandLocator._wrapWithSerialization",
           "twisted.protocols.amp:BinaryBoxProtocol.connectionLost", "twisted.protocols.amp:BinaryBoxProtocol.sendBox",
           "twisted.protocols.amp:AMP.connectionLost", "twisted.protocols.amp:QuitBox._sendTo"]
BOUNDS = {"quick": {"len": 6, "calls": 3, "bkinds": 2, "chains": 1, "ckinds": 4, "bckinds": 0, "bsub": 0, "subany": 0, "mid": 2},
          "thorough": {"len": 8, "calls": 3, "bkinds": 4, "chains": 1, "ckinds": 4, "bckinds": 2, "bsub": 1, "subany": 1, "mid": 4}}
B = {}
BOUNDS_TEXT = ("midbox: every history of <= mid steps over {A calls now, A calls later, B calls now, deliver A->B, "
               "deliver B->A}, then the connection is lost after EVERY proper byte prefix (offset 0 .. len-1) of the "
               "next box in either direction, with reason ConnectionDone or ConnectionLost; schedule: every schedule of <= len steps with <= calls callRemote invocations in total; the first call is "
               "A's (A and B are the same class: symmetry); A's commands have all 4 responder behaviours (answer now, "
               "answer later or never, declared error, undeclared error), B's the first `bkinds` of them; at most "
               "`chains` CHAINED call per schedule (A: first `ckinds` behaviours, B: first `bckinds`): its result "
               "handler - success callback or errback, also the errback run by failAllOutgoing while the loss is "
               "being processed - issues one further callRemote, which is tracked like any other call (a chained "
               "call uses two of the call budget); a fifth behaviour - the responder fails with a strict SUBCLASS of "
               "the declared error, at once (step 23/24) or through its Deferred (step 25) - must reach the caller as "
               "the declared error class with the connection left up (quick tier: only as the first call / while a "
               "single responder is pending; thorough: anywhere, both peers); a step that is not enabled (empty queue, nothing pending, call "
               "budget used; op code 14 is never enabled) ends the schedule, so the list of exactly `len` step codes "
               "covers all shorter schedules too")
OUTSIDE = ["byte-level disconnect positions after histories longer than `mid` steps or outside the reduced step "
           "alphabet of the midbox harness (call now / later by A, call now by B, deliveries); the byte parser is C30",
           "more than `calls` commands / longer schedules; responders failing later with an UNdeclared error",
           "symbolic argument values (boxes are concrete: each call carries its own distinct integer tag)",
           "TLS / protocol-switch commands, requiresAnswer=False commands, errors raised by the caller's own "
           "callbacks (unhandledError path)"]
ASSUMPTIONS = ["transports are recording fakes: write() queues one serialized box, loseConnection() only sets a flag "
               "(the harness issues connectionLost on both sides as a schedule step or at the end)",
               "amp._log is replaced by a Logger with a no-op observer (log formatting is not under test)",
               "the AMP calls of one step run with CrossHair's tracer suspended: all their inputs are concrete "
               "(the symbolic step value has been matched against a concrete op code by the solver first)"]
EXPLANATION = ("two real AMP peers over in-memory box queues driven by a symbolic schedule, compared step by step "
               "with a reference model of requests, answers, errors and connection loss")

try:
    from twisted.logger import Logger
    amp._log = Logger(namespace="twisted.protocols.amp", observer=lambda event: None)
except Exception:  # noqa
    pass


class DeclaredError(Exception):
    pass


class _Base(amp.Command):
    arguments = [(b"tag", amp.Integer())]
    response = [(b"tag", amp.Integer())]
    errors = {DeclaredError: b"DECLARED"}


class CmdNow(_Base):
    pass


class CmdLater(_Base):
    pass


class CmdDecl(_Base):
    pass


class CmdUndecl(_Base):
    pass


class CmdSub(_Base):
    pass


class SubDeclaredError(DeclaredError):
    """a strict subclass of the declared error: must travel as the DECLARED error"""


CMDS = [CmdNow, CmdLater, CmdDecl, CmdUndecl, CmdSub]
NOW, LATER, DECL, UNDECL, SUBDECL = 0, 1, 2, 3, 4


class Peer(amp.AMP):
    def __init__(self, name, world):
        amp.AMP.__init__(self)
        self.name = name
        self.world = world

    @CmdNow.responder
    def r_now(self, tag):
        return {"tag": tag}

    @CmdLater.responder
    def r_later(self, tag):
        d = Deferred()
        self.world.pending.append((self.name, tag, d))
        return d

    @CmdDecl.responder
    def r_decl(self, tag):
        raise DeclaredError("declared")

    @CmdUndecl.responder
    def r_undecl(self, tag):
        raise RuntimeError("undeclared")

    @CmdSub.responder
    def r_sub(self, tag):
        raise SubDeclaredError("subclass of the declared error")


class _Transport:
    def __init__(self):
        self.queue = []
        self.closing = False

    def write(self, data):
        self.queue.append(data)

    def loseConnection(self):
        self.closing = True

    def getPeer(self):
        return "peer"

    def getHost(self):
        return "host"


class _World:
    def __init__(self):
        self.pending = []       # (responder side, tag, Deferred) in creation order
        self.peers = {"A": Peer("A", self), "B": Peer("B", self)}
        self.tr = {"A": _Transport(), "B": _Transport()}
        for n in ("A", "B"):
            self.peers[n].makeConnection(self.tr[n])
        self.lost = False
        self.reason = None      # side -> the Failure handed to that side's connectionLost
        self.res = []           # per call: list of observed outcomes
        # reference model
        self.mq = {"A": [], "B": []}   # outgoing model queues: ("req", id, kind) / ("ans"|"decl"|"unk", id)
        self.mpend = []                # ids in creation order, parallel to self.pending
        self.done = {}                 # id -> expected outcome
        self.caller = []               # id -> side
        self.mclose = {"A": False, "B": False}   # side asked its transport to close (fatal error sent)
        self.chain = {}                # id of a chained call -> its side (its result handler issues ONE more call)
        self.nbase = 0                 # calls issued by schedule steps (and by the final check)
        self.nchain = 0

    def other(self, n):
        return "B" if n == "A" else "A"

    def call(self, side, kind, chained=False, child=False):
        cid = len(self.res)
        tag = 100 + cid
        self.res.append([])
        self.caller.append(side)
        if not child:
            self.nbase += 1
        if chained:
            self.chain[cid] = side
            self.nchain += 1
        d = self.peers[side].callRemote(CMDS[kind], tag=tag)

        def ok(r, cid=cid):
            self.res[cid].append(("ok", r.get("tag")))
            return r

        def err(f, cid=cid):
            if f.type is DeclaredError:
                self.res[cid].append(("decl",))
            elif f.check(amp.UnknownRemoteError):
                self.res[cid].append(("unknown",))
            elif self.reason is not None and f.value is self.reason[side].value:
                # exactly the reason that was passed to connectionLost (same exception object)
                self.res[cid].append(("lost",))
            else:
                self.res[cid].append(("other", f.type.__name__))
        d.addCallbacks(ok, err)
        if chained:
            # retry-style user code: whatever the outcome (success callback or errback, also the errback
            # run by failAllOutgoing DURING connection loss), issue exactly one further call from there
            d.addCallback(lambda _, side=side: self.call(side, NOW, child=True))
        if self.lost:
            self.done[cid] = ("lost",)      # also for a call issued while the loss is being processed
        else:
            self.mq[side].append(("req", cid, kind))

    def deliver(self, frm):
        to = self.other(frm)
        data = self.tr[frm].queue.pop(0)
        ent = self.mq[frm].pop(0)
        self.peers[to].dataReceived(data)
        if ent[0] == "req":
            cid, kind = ent[1], ent[2]
            if kind == NOW:
                self.mq[to].append(("ans", cid))
            elif kind == LATER:
                self.mpend.append(cid)
            elif kind == DECL or kind == SUBDECL:
                # a subclass of the declared error is the declared error on the wire; connection stays up
                self.mq[to].append(("decl", cid))
            else:
                self.mq[to].append(("unk", cid))
                self.mclose[to] = True      # an undeclared error is fatal: QuitBox, then loseConnection()
        elif ent[0] == "ans":
            self.done[ent[1]] = ("ok", 100 + ent[1])
        elif ent[0] == "decl":
            self.done[ent[1]] = ("decl",)
        else:
            self.done[ent[1]] = ("unknown",)

    def fire(self, idx, ok, sub=False):
        side, tag, d = self.pending.pop(idx)
        cid = self.mpend.pop(idx)
        if sub:
            d.errback(Failure(SubDeclaredError("later, subclass")))
            if not self.lost:
                self.mq[side].append(("decl", cid))
        elif ok:
            d.callback({"tag": tag})
            if not self.lost:
                self.mq[side].append(("ans", cid))
        else:
            d.errback(Failure(DeclaredError("later")))
            if not self.lost:
                self.mq[side].append(("decl", cid))

    def lose(self, cls=ConnectionDone):
        self.lost = True            # from here on (i.e. also inside connectionLost) calls must fail at once
        self.reason = {"A": Failure(cls()), "B": Failure(cls())}
        for n in ("A", "B"):
            self.peers[n].connectionLost(self.reason[n])
            self.tr[n].queue = []
            self.mq[n] = []
        for cid in range(len(self.res)):
            if cid not in self.done:
                self.done[cid] = ("lost",)

    def agree(self):
        """real state == model state"""
        for n in ("A", "B"):
            if len(self.tr[n].queue) != len(self.mq[n]):
                return False
            if self.tr[n].closing != self.mclose[n]:
                return False
        if len(self.pending) != len(self.mpend):
            return False
        for i in range(len(self.pending)):
            if self.pending[i][1] != 100 + self.mpend[i]:
                return False
        for cid in range(len(self.res)):
            want = [self.done[cid]] if cid in self.done else []
            if self.res[cid] != want:
                return False
        # a chained call has issued its one further call exactly when it is done
        nchild = 0
        for cid in self.chain:
            if cid in self.done:
                nchild += 1
        return len(self.res) == self.nbase + nchild


# op codes
A_CALL, B_CALL, D_AB, D_BA, F_OLD_OK, F_OLD_ERR, F_NEW_OK, LOSE = 0, 4, 8, 9, 10, 11, 12, 13
STOP, A_CHAIN, B_CHAIN = 14, 15, 19     # 15-18 / 19-22: chained call of kind 0-3 by A / B
A_SUB, B_SUB, F_OLD_SUBERR, NCODES = 23, 24, 25, 26   # call whose responder raises a SUBCLASS of the declared
#                                                       error (sync); fire the oldest pending one with it


def _decode_call(sel):
    """(side, kind, chained) of a call step code, or None"""
    if sel < B_CALL:
        return "A", sel - A_CALL, False
    if sel < D_AB:
        return "B", sel - B_CALL, False
    if A_CHAIN <= sel < B_CHAIN:
        return "A", sel - A_CHAIN, True
    if B_CHAIN <= sel < A_SUB:
        return "B", sel - B_CHAIN, True
    if sel == A_SUB:
        return "A", SUBDECL, False
    if sel == B_SUB:
        return "B", SUBDECL, False
    return None


def _enabled(w, ncalls):
    en = []
    if ncalls < B['calls']:
        en += [A_CALL + k for k in range(4)]
        if ncalls > 0:
            en += [B_CALL + k for k in range(B['bkinds'])]
        if ncalls == 0 or B['subany']:
            en.append(A_SUB)            # quick tier: only as the first call of the schedule
        if ncalls > 0 and B['bsub']:
            en.append(B_SUB)
        if w.nchain < B['chains'] and ncalls + 2 <= B['calls']:     # a chained call uses two of the call budget
            en += [A_CHAIN + k for k in range(B['ckinds'])]
            if ncalls > 0:
                en += [B_CHAIN + k for k in range(B['bckinds'])]
    if not w.lost:
        if w.mq["A"]:
            en.append(D_AB)
        if w.mq["B"]:
            en.append(D_BA)
    if len(w.mpend) >= 1:
        en += [F_OLD_OK, F_OLD_ERR]
        if len(w.mpend) == 1 or B['subany']:
            en.append(F_OLD_SUBERR)     # quick tier: only while a single responder is pending
    if len(w.mpend) >= 2:
        en.append(F_NEW_OK)
    if not w.lost:
        en.append(LOSE)
    return en


def _untraced():
    """Everything the AMP objects see is concrete (the step chosen by the solver has been matched against
    a concrete op code before it is used), so the real code runs with CrossHair's tracer suspended:
    same semantics, ~100x cheaper per path.  The schedule itself (list length, each `o == code`) is
    decided by the solver."""
    tr = sys.modules.get("crosshair.tracers")
    if tr is None:
        return contextlib.nullcontext()
    return tr.NoTracing()


def _step(w, sel):
    c = _decode_call(sel)
    if c is not None:
        w.call(c[0], c[1], chained=c[2])
    elif sel == D_AB:
        w.deliver("A")
    elif sel == D_BA:
        w.deliver("B")
    elif sel == F_OLD_OK:
        w.fire(0, True)
    elif sel == F_OLD_ERR:
        w.fire(0, False)
    elif sel == F_OLD_SUBERR:
        w.fire(0, False, sub=True)
    elif sel == F_NEW_OK:
        w.fire(len(w.pending) - 1, True)
    else:
        w.lose()
    return w.agree()


def _run(ops, allow=None):
    with _untraced():
        w = _World()
    ncalls = 0
    for o in ops:
        with _untraced():
            en = _enabled(w, ncalls)
            if allow is not None:
                en = [c for c in en if c in allow]
        sel = None
        for code in en:
            if o == code:        # the solver picks the step
                sel = code
                break
        if sel is None:
            break               # a step that is not enabled ends the schedule
        c = _decode_call(sel)
        if c is not None:
            ncalls += 2 if c[2] else 1
        with _untraced():
            ok = _step(w, sel)
        if not ok:
            return False, w
    return True, w


def _final(w, cls=ConnectionDone):
    # whatever is still unanswered fails with the connection-loss reason, exactly once
    if not w.lost:
        w.lose(cls)
    if not w.agree():
        return False
    for cid in range(len(w.res)):
        if len(w.res[cid]) != 1:
            return False
    for n in ("A", "B"):
        p = w.peers[n]
        if p._outstandingRequests is not None or p._failAllReason is None:
            return False
    # a call made now fails at once with the loss reason
    w.call("A", NOW)
    w.call("B", LATER)
    return w.agree() and w.res[-1] == [("lost",)] and w.res[-2] == [("lost",)]


def schedule(ops: List[int]) -> bool:
    """
    pre: len(ops) == B['len'] and all(0 <= o <= 25 for o in ops)
    post: _
    """
    ok, w = _run(ops)
    if not ok:
        return False
    cover()
    with _untraced():
        return _final(w)


MID_ALLOW = (A_CALL + NOW, A_CALL + LATER, B_CALL + NOW, D_AB, D_BA)


def midbox(pre: List[int], ab: bool, cut: int, done: bool) -> bool:
    """
    pre: len(pre) <= B['mid'] and all(0 <= o <= 9 for o in pre)
    pre: 0 <= cut
    post: _
    """
    # connection lost at byte offset `cut` of the incoming stream, i.e. possibly INSIDE a box (after its
    # first complete key, inside a value, inside the terminator ...): after a short history (steps from
    # MID_ALLOW), the first `cut` bytes of the next box travelling A->B (or B->A) arrive, then both
    # sides get connectionLost(reason), reason = ConnectionDone or ConnectionLost.  Every pending call,
    # and every call made afterwards, must fail exactly once WITH THAT REASON (same exception object).
    ok, w = _run(pre, allow=MID_ALLOW)
    if not ok:
        return False
    frm, to = ("A", "B") if ab else ("B", "A")
    n = 0
    with _untraced():
        if w.tr[frm].queue:
            n = len(w.tr[frm].queue[0]) - 1          # proper prefixes only: the box never completes
    k = 0
    for i in range(n + 1):                           # one path per byte offset, picked by the solver
        if cut == i:
            k = i
            break
    else:
        k = n
    cover()
    with _untraced():
        if k > 0:
            w.peers[to].dataReceived(w.tr[frm].queue[0][:k])
            if not w.agree():                        # a partial box delivers nothing
                return False
        return _final(w, ConnectionDone if done else ConnectionLost)


class _Abs:
    """abstract copy of the reference model (no AMP objects): only used to count schedules per prefix so
    that the case split below is balanced; it has no influence on what is checked"""

    def __init__(self, src=None):
        if src is None:
            self.mq = {"A": [], "B": []}
            self.mpend = []
            self.lost = False
            self.n = 0
            self.nchain = 0
        else:
            self.mq = {"A": list(src.mq["A"]), "B": list(src.mq["B"])}
            self.mpend = list(src.mpend)
            self.lost = src.lost
            self.n = src.n
            self.nchain = src.nchain

    def step(self, sel):
        w = _Abs(self)
        c = _decode_call(sel)
        if c is not None:
            side, kind, ch = c
            if not w.lost:
                w.mq[side].append(("req", kind, ch))
            w.n += 2 if ch else 1
            if ch:
                w.nchain += 1
        elif sel in (D_AB, D_BA):
            frm, to = ("A", "B") if sel == D_AB else ("B", "A")
            e = w.mq[frm].pop(0)
            if e[0] == "req":
                if e[1] == LATER:
                    w.mpend.append((to, e[2]))
                else:
                    w.mq[to].append(("x", e[2]))
            elif e[1]:
                w.mq[to].append(("req", NOW, False))    # the chained call's one further call
        elif sel in (F_OLD_OK, F_OLD_ERR, F_NEW_OK, F_OLD_SUBERR):
            side, ch = w.mpend.pop(-1 if sel == F_NEW_OK else 0)
            if not w.lost:
                w.mq[side].append(("x", ch))
        else:
            w.lost = True
            w.mq = {"A": [], "B": []}
        return w


def _prefix_counts(tier):
    old = dict(B)
    B.clear()
    B.update(BOUNDS[tier])
    cnt = {}

    def rec(w, depth, prefix):
        if len(prefix) >= 3:
            key = prefix[0] * NCODES * NCODES + prefix[1] * NCODES + prefix[2]
            cnt[key] = cnt.get(key, 0) + 1
        if depth == B['len']:
            return
        for sel in _enabled(w, w.n):
            rec(w.step(sel), depth + 1, prefix + [sel])
    rec(_Abs(), 0, [])
    B.clear()
    B.update(old)
    return cnt


def _shards(tier):
    # complete partition of the inputs: contiguous ranges of the first three steps read as a base-23
    # number, cut so that each range holds about the same number of schedules
    cnt = _prefix_counts(tier)
    target = 450 if tier == "quick" else 6000
    sh = []
    lo = 0
    acc = 0
    for key in range(NCODES ** 3):
        acc += cnt.get(key, 0)
        if acc >= target or key == NCODES ** 3 - 1:
            sh.append(("%d <= ops[0] * %d + ops[1] * %d + ops[2] <= %d" % (lo, NCODES * NCODES, NCODES, key),))
            lo = key + 1
            acc = 0
    return sh


HARNESSES = [H(schedule, shards=_shards, timeout={"quick": 100, "thorough": 1500}),
             H(midbox, shards=[("ab == True", "done == True"), ("ab == True", "done == False"),
                               ("ab == False", "done == True"), ("ab == False", "done == False")],
               timeout={"quick": 100, "thorough": 900})]

VECTORS = {"schedule": [([14],), ([0, 8, 9, 14],), ([1, 0, 8, 8, 9, 10, 9],), ([2, 8, 9, 14],), ([3, 8, 9, 14],),
                        ([1, 8, 13, 10, 14],), ([0, 4, 8, 9, 9, 8],), ([1, 1, 8, 8, 12, 9],), ([0, 13, 0, 14],),
                        ([1, 5, 9, 8, 11, 10],), ([15, 13, 14],), ([15, 8, 9, 8, 9, 14],), ([17, 8, 9, 8, 13, 14],),
                        ([16, 0, 8, 8, 13, 10],), ([18, 8, 9, 4, 9, 13],), ([0, 15, 13, 14],), ([13, 15, 14],),
                        ([23, 8, 9, 14],), ([23, 0, 8, 8, 9, 9],), ([1, 8, 25, 9, 14],), ([1, 0, 8, 8, 25, 9, 9],),
                        ([23, 1, 8, 8, 9, 10, 9],)],
           "midbox": [([], True, 0, True), ([0], True, 0, True), ([0], True, 9, False), ([0], True, 40, True),
                      ([0, 4], True, 12, False), ([0, 4], False, 20, True), ([0, 8], False, 11, True),
                      ([1, 8], False, 3, False), ([1, 0], True, 25, True), ([0, 8, 9, 0], True, 30, False)]}
