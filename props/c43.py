"""C43 IRC: msg()/notice() split within the octet limit without losing content; quoting round trips.

Engine E1 (native str; CrossHair's symbolic str, regex and utf-8 codec).  The real IRCClient.msg /
notice / _sendMessage / _splitEncoded / split / _safeMaximumLineLength run on a symbolic message
with sendLine replaced by a recorder; ctcpQuote/ctcpDequote and lowQuote/lowDequote run on symbolic
text directly (str.replace + re.sub with a callback).

textwrap.wrap (called by irc.split) drives its chunking with a large verbose regex with
look-behinds plus str.expandtabs/str.translate: symbolic text is realised there (measured: one
path per concrete string).  For the symbolic run `irc.textwrap` is therefore rebound to a
TextWrapper subclass in which ONLY those two steps (_munge_whitespace, _split) are pure-Python
ports; the wrapping algorithm itself (_wrap_chunks, _handle_long_word) stays the stdlib code.  The
ports are compared with textwrap.wrap in selftest() on every run (all strings of <= 5 characters
over a 9 letter alphabet x widths 1..6, plus samples).  In replay the real textwrap runs.
"""
import textwrap as _textwrap

from twisted.words.protocols import irc

from vlib import api, lbytes
from vlib.api import H, cover

PROPERTY = "C43"
LEVEL = "model_checking"
ENCODED = ["twisted.words.protocols.irc:IRCClient._sendMessage", "twisted.words.protocols.irc:IRCClient.msg",
           "twisted.words.protocols.irc:IRCClient.notice", "twisted.words.protocols.irc:_splitEncoded",
           "twisted.words.protocols.irc:split", "twisted.words.protocols.irc:IRCClient._safeMaximumLineLength",
           "twisted.words.protocols.irc:lowQuote", "twisted.words.protocols.irc:lowDequote",
           "twisted.words.protocols.irc:ctcpQuote", "twisted.words.protocols.irc:ctcpDequote",
           "twisted.words.protocols.irc:ctcpStringify", "twisted.words.protocols.irc:ctcpExtract"]
BOUNDS = {"quick": {"m": 3, "mr": 3, "mw": 2, "q": 4, "w": 3, "cn": 2, "ct": 2, "cth": 1, "cd2": 1, "cd3": 1},
          "thorough": {"m": 4, "mr": 5, "mw": 4, "q": 5, "w": 5, "cn": 3, "ct": 2, "cth": 1, "cd2": 2, "cd3": 1}}
B = {}
BOUNDS_TEXT = ("character classes: TAB | LF | CR | SP,VT,FF | printable ASCII except '-' | any 2-octet character "
               "U+00A1..U+07FF | any 3-octet character U+4E00..U+9FFF | any 4-octet character U+1F300..U+1FAFF.  "
               "send: msg() with every message of <= m characters (3 quick, 4 thorough) over the first six classes "
               "(thorough also 5 characters over SP/VT/FF, ASCII, 2-octet); every octet budget (limit - framing) "
               "from the widest character of the message up to w (3 quick, 5 thorough).  send_wide: msg() with <= mw "
               "characters (2 quick, 4 thorough) over SP/VT/FF and the 1..4-octet classes, budgets 4..w+2.  "
               "send_notice / send_default: notice() and msg(length=None) with <= 2 characters over all classes.  "
               "Quoting: every string of <= q characters (4 quick, 5 thorough) over all of Unicode.  ctcp_msgs: "
               "ctcpStringify -> ctcpExtract of 2 (thorough: 2..3) extended messages; a message without data has a "
               "tag of 1..2 characters, one with data a tag of 1 character (any but SP) and data of 1 character of "
               "any kind (thorough: 1..2 for two messages)")
OUTSIDE = ["'-' in the message (textwrap's hyphen/em-dash break rules are not ported, so they are not explored)",
           "non-ASCII Unicode whitespace (U+0085, U+00A0, U+1680, U+2000.., U+3000, U+001C..U+001F): textwrap "
           "splits on ASCII whitespace only but strips with str.strip(); such characters can be dropped by "
           "textwrap itself",
           "a budget smaller than the widest character of the message (no implementation can satisfy it; the "
           "code keeps the character whole)",
           "longer messages / larger budgets; lineRate queueing; the lowQuote expansion applied below sendLine",
           "user/channel names other than 'u' (they only contribute their length to the framing)"]
ASSUMPTIONS = ["the ports of TextWrapper._munge_whitespace and TextWrapper._split used in the symbolic run agree "
               "with the stdlib for texts without '-' (differential selftest on every run, count in the evidence)",
               "IRCClient.sendLine is replaced by a recorder (lines are observed before lowQuote / utf-8 encoding "
               "/ CRLF framing, whose sizes the oracle adds itself)"]
EXPLANATION = ("real msg/notice/_sendMessage/_splitEncoded on a symbolic message and budget; real quote/dequote "
               "pairs on symbolic text; textwrap's regex tokenizer replaced by a validated port")

_ASCII_WS = " \t\n\x0b\x0c\r"


# ---- textwrap with a regex-free tokenizer ------------------------------------------------------

class _PortedWrapper(_textwrap.TextWrapper):
    def _munge_whitespace(self, text):
        # expand_tabs (tabsize 8, column reset by CR/LF as str.expandtabs does) + replace_whitespace
        out = []
        col = 0
        for ch in text:
            if ch == "\t":
                n = 8 - col % 8
                out.append(" " * n)
                col += n
            elif ch == "\n" or ch == "\r":
                out.append(" ")
                col = 0
            elif ch == " " or ch == "\x0b" or ch == "\x0c":
                out.append(" ")
                col += 1
            else:
                out.append(ch)
                col += 1
        return "".join(out)

    def _split(self, text):
        # wordsep_re without its hyphen alternatives: maximal runs of whitespace / of non-whitespace
        # (after _munge_whitespace the only whitespace character left is the space)
        chunks = []
        cur = []
        cur_ws = False
        for ch in text:
            ws = ch == " "
            if cur and ws != cur_ws:
                chunks.append("".join(cur))
                cur = []
            cur.append(ch)
            cur_ws = ws
        if cur:
            chunks.append("".join(cur))
        return chunks


class _TextwrapShim:
    """stands for the module `textwrap` inside irc.py during the symbolic run"""
    @staticmethod
    def wrap(text, width=70, **kwargs):
        return _PortedWrapper(width=width, **kwargs).wrap(text)


if api.MODE == "sym":
    irc.textwrap = _TextwrapShim


# ---- msg / notice ------------------------------------------------------------------------------

_U8 = [(0, 0x7F, 0, 1), (0x80, 0x7FF, 0, 2), (0x800, 0xFFFF, 0, 3)]
_WSR = [(0x09, 0x0D, 0, 1), (0x20, 0x20, 0, 1)]
# character classes of the message alphabet (value = class number; 0 = not in the alphabet)
_CLS = [(0x09, 0x09, 0, 1),                                   # 1 TAB
        (0x0A, 0x0A, 0, 2),                                   # 2 LF
        (0x0D, 0x0D, 0, 3),                                   # 3 CR
        (0x0B, 0x0C, 0, 4), (0x20, 0x20, 0, 4),               # 4 VT FF SP
        (0x21, 0x2C, 0, 5), (0x2E, 0x7E, 0, 5),               # 5 printable ASCII except '-'
        (0xA1, 0x7FF, 0, 6),                                  # 6 two octets
        (0x4E00, 0x9FFF, 0, 7),                               # 7 three octets
        (0x1F300, 0x1FAFF, 0, 8)]                             # 8 four octets


def _u8(c):
    """octets of one character in UTF-8 (one if-then-else term for a symbolic character: no fork)"""
    return lbytes.pw_map(ord(c), _U8, (0, 4))


def _cls(c):
    return lbytes.pw_map(ord(c), _CLS, (0, 0))


def _is_ws(c):
    return lbytes.pw_map(ord(c), _WSR, (0, 0)) == 1


def _fixlen(text, maxlen):
    """same text with a plain-int length (len() of a symbolic str is a symbolic int even when a shard
    pins it; every slice taken by textwrap would then have symbolic bounds)"""
    for n in range(maxlen + 1):
        if len(text) == n:
            return "".join([text[k] for k in range(n)])
    return text


def _menu(lo, hi, v):
    """symbolic int in lo..hi -> one path per value"""
    for k in range(lo, hi + 1):
        if v == k:
            return k
    return hi


def _client(rec, features=False):
    c = irc.IRCClient()
    c.nickname = "nick"
    c.username = "user"
    c.hostname = "irc.example.org"
    c.realname = "Real Name"
    if features:
        c.supported = irc.ServerSupportedFeatures()     # only _safeMaximumLineLength reads it
    c.sendLine = rec.append
    return c


def _check_lines(rec, fmt, message, limit):
    """the oracle, over the lines given to sendLine"""
    kept = []
    for line in rec:
        if not line.startswith(fmt):
            return False
        piece = line[len(fmt):]
        if len(piece) == 0:
            return False                      # an empty PRIVMSG/NOTICE would be refused by the server
        octets = len(fmt) + 2                 # fmt is ASCII; + CRLF
        for ch in piece:
            if ch == "\r" or ch == "\n":
                return False
            octets += _u8(ch)
            if not _is_ws(ch):
                kept.append(ch)
        if limit is not None and octets > limit:
            return False
    want = [ch for ch in message if not _is_ws(ch)]
    return kept == want


def _send(message, budget, notice, maxlen):
    rec = []
    c = _client(rec)
    message = _fixlen(message, maxlen)
    budget = _menu(1, B['w'] + 2, budget)
    fmt = ("NOTICE" if notice else "PRIVMSG") + " u :"
    limit = len(fmt) + 2 + budget
    if notice:
        c.notice("u", message, limit)
    else:
        c.msg("u", message, limit)
    api.obs(list(rec))
    cover()
    return _check_lines(rec, fmt, message, limit)


def send(message: str, budget: int) -> bool:
    """
    pre: len(message) <= max(B['m'], B['mr']) and all(1 <= _cls(c) <= 6 for c in message)
    pre: len(message) <= B['m'] or all(_cls(c) >= 4 for c in message)
    pre: 1 <= budget <= B['w'] and all(_u8(c) <= budget for c in message)
    post: _
    """
    # msg(): whitespace of every kind, ASCII and two-octet characters up to m characters (up to mr
    # characters over SP/VT/FF, ASCII and two-octet characters only); every budget from the widest
    # character up to w
    return _send(message, budget, False, max(B['m'], B['mr']))


def send_wide(message: str, budget: int) -> bool:
    """
    pre: len(message) <= B['mw'] and all(4 <= _cls(c) <= 8 for c in message)
    pre: 4 <= budget <= B['w'] + 2
    post: _
    """
    # msg(): characters of 1..4 octets and spaces, budgets that split between and inside words
    return _send(message, budget, False, B['mw'])


def send_notice(message: str, budget: int) -> bool:
    """
    pre: len(message) <= 2 and all(1 <= _cls(c) <= 8 for c in message)
    pre: 1 <= budget <= B['w'] and all(_u8(c) <= budget for c in message)
    post: _
    """
    return _send(message, budget, True, 2)


def send_default(message: str) -> bool:
    """
    pre: len(message) <= 2 and all(1 <= _cls(c) <= 8 for c in message)
    post: _
    """
    # length=None: _safeMaximumLineLength; the whole line incl. the ":nick!user@host " prefix a server
    # prepends must stay within 512 octets, and short messages are only split at LF
    rec = []
    c = _client(rec, features=True)
    message = _fixlen(message, 2)
    fmt = "PRIVMSG u :"
    c.msg("u", message)
    safe = c._safeMaximumLineLength(fmt)
    api.obs((list(rec), safe))
    cover()
    if not (len(fmt) + 2 < safe <= 512 - len(":%s!%s@%s " % ("n" * 9, "u" * 10, "h" * 63)) - 0):
        return False
    nseg = 0
    seg_has = False
    for ch in message:
        if ch == "\n":
            nseg += 1 if seg_has else 0
            seg_has = False
        elif not _is_ws(ch):
            seg_has = True
    nseg += 1 if seg_has else 0
    return len(rec) == nseg and _check_lines(rec, fmt, message, safe)


def too_small(message: str, limit: int) -> bool:
    """
    pre: len(message) <= 2 and all(1 <= _cls(c) <= 8 for c in message)
    pre: 0 <= limit <= 13
    post: _
    """
    # a limit that leaves no room for any text is refused, nothing is sent
    rec = []
    c = _client(rec)
    message = _fixlen(message, 2)
    limit = _menu(0, 13, limit)
    try:
        c.msg("u", message, limit)
    except ValueError:
        cover()
        return rec == []
    return False


# ---- quoting -------------------------------------------------------------------------------------

def low(s: str) -> bool:
    """
    pre: len(s) <= B['q']
    post: _
    """
    q = irc.lowQuote(s)
    cover()
    # the quoted form carries no NUL, CR or LF (that is its purpose) ...
    for ch in q:
        if ch == "\x00" or ch == "\r" or ch == "\n":
            return False
    # ... and dequoting restores the text
    return irc.lowDequote(q) == s


def ctcp(s: str) -> bool:
    """
    pre: len(s) <= B['q']
    post: _
    """
    q = irc.ctcpQuote(s)
    cover()
    for ch in q:
        if ch == irc.X_DELIM:
            return False
    return irc.ctcpDequote(q) == s


def _nospace(x):
    for ch in x:
        if ch == " ":
            return False
    return True


def _cd(n):
    return B['cd2'] if n == 2 else B['cd3']


def _ctcp_pair(tag, data, has, lt, ld):
    """(message handed to ctcpStringify, message expected back from ctcpExtract)"""
    tag = _fixlen(tag, lt)
    if has:
        data = _fixlen(data, ld)
        return (tag, data), (tag, data)
    return (tag, None), (tag, None)


def ctcp_msgs(t1: str, d1: str, h1: bool, t2: str, d2: str, h2: bool, t3: str, d3: str, h3: bool, n: int) -> bool:
    """
    pre: 2 <= n <= B['cn']
    pre: 1 <= len(t1) <= B['ct'] and 1 <= len(t2) <= B['ct'] and 1 <= len(t3) <= B['ct']
    pre: _nospace(t1) and _nospace(t2) and _nospace(t3)
    pre: 1 <= len(d1) <= _cd(n) and 1 <= len(d2) <= _cd(n) and 1 <= len(d3) <= _cd(n)
    pre: (not h1 or len(t1) <= B['cth']) and (not h2 or len(t2) <= B['cth']) and (not h3 or len(t3) <= B['cth'])
    pre: (h1 or len(d1) == 1) and (h2 or len(d2) == 1) and (h3 or len(d3) == 1)
    pre: n == 3 or (len(t3) == 1 and len(d3) == 1 and not h3)
    post: _
    """
    # framing of SEVERAL extended messages in one line: ctcpExtract(ctcpStringify(msgs)) gives every
    # (tag, data) back as an extended message, in order, and nothing as normal text.  Tags: any
    # characters but the space that separates tag and data (X_DELIM and the quote character included);
    # data: None or any non-empty text (empty data is documented to come back as None).
    msgs = []
    want = []
    items = [(t1, d1, h1), (t2, d2, h2)] + ([(t3, d3, h3)] if n == 3 else [])
    for tg, dt, hs in items:
        m, w = _ctcp_pair(tg, dt, hs, B['ct'], 2)
        msgs.append(m)
        want.append(w)
    line = irc.ctcpStringify(msgs)
    got = irc.ctcpExtract(line)
    api.obs((line, got))
    cover()
    return got["extended"] == want and got["normal"] == []


def _first_classes(var, specials):
    out = [("ord(%s[0]) == %d" % (var, ord(ch)),) for ch in specials]
    out.append((" and ".join("ord(%s[0]) != %d" % (var, ord(ch)) for ch in specials),))
    return out


def _len_shards(var, n, specials):
    """lengths 0..n-1 in one shard, length n split by the class of the first character"""
    return [("len(%s) < %d" % (var, n),)] + [("len(%s) == %d" % (var, n),) + c for c in _first_classes(var, specials)]


def _send_shards(tier):
    m, mr, w = BOUNDS[tier]["m"], BOUNDS[tier]["mr"], BOUNDS[tier]["w"]
    out = [("len(message) <= %d" % (m - 1),)]
    for k in range(1, w + 1):
        if tier == "quick":
            out.append(("len(message) == %d" % m, "budget == %d" % k))
        else:
            for c in range(1, 7):
                if c == 6 and k < 2:
                    continue  # a 2-octet first character cannot fit a 1-octet budget: the shard would be vacuous
                out.append(("len(message) == %d" % m, "budget == %d" % k, "_cls(message[0]) == %d" % c))
    for n in range(m + 1, mr + 1):
        for k in range(1, w + 1):
            out.append(("len(message) == %d" % n, "budget == %d" % k))
    return out


def _wide_shards(tier):
    m, w = BOUNDS[tier]["mw"], BOUNDS[tier]["w"]
    if tier == "quick":
        return [()]
    return [("len(message) < %d" % m,)] + [("len(message) == %d" % m, "budget == %d" % k, "_cls(message[0]) == %d" % c)
                                            for k in range(4, w + 3) for c in range(4, 9)]


HARNESSES = [
    H(send, shards=_send_shards, timeout={"quick": 90, "thorough": 1500}),
    H(send_wide, shards=_wide_shards, timeout={"quick": 90, "thorough": 1500}),
    H(send_notice, timeout={"quick": 90, "thorough": 600}),
    H(send_default, timeout={"quick": 90, "thorough": 900}),
    H(too_small, timeout={"quick": 60, "thorough": 300}),
    H(low, shards=lambda tier: _len_shards("s", BOUNDS[tier]["q"], ["\x10", "\x00", "\n", "\r"]),
      timeout={"quick": 90, "thorough": 1500}),
    H(ctcp, shards=lambda tier: _len_shards("s", BOUNDS[tier]["q"], ["\\", "\x01"]),
      timeout={"quick": 90, "thorough": 1500}),
    H(ctcp_msgs, shards=lambda tier: [("n == %d" % k, "h1 == %s" % a, "h2 == %s" % c) + (() if k == 2 else ("h3 == %s" % e,))
                                      for k in range(2, BOUNDS[tier]["cn"] + 1) for a in (True, False) for c in (True, False)
                                      for e in ((True, False) if k == 3 else (False,))],
      timeout={"quick": 90, "thorough": 1500}),
]

VECTORS = {
    "send": [("ééé", 3), ("a c", 3), ("a\rb", 3), ("a\tb", 3), ("abc", 2), ("\n\na", 3), ("a b", 2), ("é a", 2),
             ("", 3), (" ", 1), ("a\nb", 1), ("  a", 3), ("x\x0by", 2)],
    "send_wide": [("\U0001f600a", 4), ("中中", 5), ("é\U0001f600", 5), ("a ", 4)],
    "send_notice": [("a\r", 3), ("\n\n", 3), ("é\U0001f600", 4), (" ", 1)],
    "send_default": [("hi",), ("a\n",), ("\n",), ("é\n",), ("",), ("\na",)],
    "too_small": [("a", 13), ("", 0), ("ab", 5)],
    "low": [("",), ("\x10",), ("\x100",), ("a\r\n\x00",), ("\x10\x10n",), ("é\x10r",)],
    "ctcp_msgs": [("VERSION", "x", False, "PING", "12 34", True, "a", "b", False, 2),
                  ("A", " b", True, "\x01", "\\", True, "C", "d\x01", True, 3),
                  ("\\a", "x", False, "\\", "\x01 ", True, "Z", "z", False, 3),
                  ("ACTION", "waves hello", True, "CLIENTINFO", "x", False, "a", "b", False, 2)],
    "ctcp": [("",), ("\\",), ("\x01",), ("\\a",), ("a\\\\\x01",), ("\\\x01a",)],
}


def selftest():
    """ported tokenizer vs. the stdlib textwrap"""
    import itertools
    n = 0
    alpha = ["a", "B", " ", "\t", "\r", "\x0b", "\xe9", ".", "中"]
    for k in range(0, 6):
        for tup in itertools.product(alpha, repeat=k):
            text = "".join(tup)
            for width in range(1, 7):
                want = _textwrap.wrap(text, width)
                got = _TextwrapShim.wrap(text, width)
                assert want == got, (text, width, want, got)
                n += 1
    for text in ["hello world, this is a longer sentence.", "\x0c\x0cab\tcd\t\te", "a" * 30, " " * 9 + "x", "\U0001f600 \U0001f600",
                 "tab\tat col 3", "x\ry\tz", "\t", "\t\t", "ab\t", "12345678\t9", "1234567\t9", "!\"#$%&'()*+,./:;<=>?@[]^_`{|}~"]:
        for width in (1, 2, 3, 5, 8, 9, 16, 80):
            assert _textwrap.wrap(text, width) == _TextwrapShim.wrap(text, width), (text, width)
            n += 1
    for o in list(range(0x800)) + list(range(0x4E00, 0xA000)) + list(range(0x1F300, 0x1FB00)) + \
            [0x800, 0xFFFF, 0x10000, 0x10FFFF]:
        assert _u8(chr(o)) == len(chr(o).encode("utf-8")), o
        if _cls(chr(o)) != 0:
            assert chr(o) != "-" and (chr(o).isspace() == (chr(o) in _ASCII_WS)), o
        assert _is_ws(chr(o)) == (chr(o) in _ASCII_WS), o
        n += 1
    return n
