"""C37 SSH wire primitives: NS/getNS and MP/getMP round trip, MP minimal positive two's complement.

Engine E2: `NS`, `getNS`, `MP`, `getMP` are recompiled from /repo's source onto LBytes.  `struct` is
the arithmetic shim of vlib.lbytes; `cryptography.utils.int_to_bytes` (C: int.to_bytes/bit_length)
and `int.from_bytes` are rebound to pure-Python big-endian byte loops (validated against the C
versions in selftest()); `ord` is rebound so that ord(<1-byte LBytes>) works and `x & 128` is
computed arithmetically (lift bitops=True; CrossHair would realise x).  The keys half of the
property (Key.toString/fromString: cryptography/OpenSSL) is NOT claimed.
"""
from vlib import api, lbytes, lift
from vlib.api import H, cover
from vlib.lift import b, t

PROPERTY = "C37"
LEVEL = "model_checking"
ENCODED = ["twisted.conch.ssh.common:NS", "twisted.conch.ssh.common:getNS",
           "twisted.conch.ssh.common:MP", "twisted.conch.ssh.common:getMP"]
BOUNDS = {"quick": {"s": 4, "r": 2, "bits": 64, "s2": 2, "txt": 2}, "thorough": {"s": 8, "r": 3, "bits": 512, "s2": 4, "txt": 3}}
B = {}
BOUNDS_TEXT = ("text arguments to NS of <= txt symbolic characters over all of Unicode (ASCII, 2-, 3-, 4-octet "
               "classes and surrogates, one path family per class) followed by <= 1 rest byte; net strings of <= s symbolic bytes (all 256 values) followed by <= r symbolic rest bytes; "
               "two consecutive net strings of <= s2 bytes each with count=2; multiple precision integers "
               "0 <= n < 2**bits (one path family per byte length, all values inside symbolic) followed by "
               "<= r rest bytes; two consecutive integers < 2**16 with count=2 and <= 1 rest byte")
OUTSIDE = ["the keys half of the property (Key.toString/fromString for RSA/DSA/ECDSA/Ed25519, passphrases, "
           "fingerprints): it runs inside cryptography/OpenSSL, opaque to the solver - NOT claimed",
           "strings longer than s bytes and integers >= 2**bits (the code is uniform in the length: one "
           "struct length field, one slice)",
           "negative integers (MP asserts number > 0); text arguments to NS longer than txt characters",
           "truncated or malformed input to getNS/getMP (only well-formed encodings + arbitrary rest)"]
ASSUMPTIONS = ["str.encode('utf-8') (C codec) is replaced in the lifted NS by a pure-Python encoder registered in "
               "lbytes.CODECS; it and the harness's independent reference encoder are compared with the C codec on "
               "every run (selftest: class boundaries, surrogates, a stride over all planes); replay uses the C codec",
               "cryptography.utils.int_to_bytes and int.from_bytes(.., 'big') are replaced in the lifted "
               "namespace by pure-Python byte loops; both are compared with the C versions on a corpus on "
               "every run (selftest)",
               "LBytes / struct shim reproduce bytes / struct semantics (vlib.lbytes.selftest, every run) and "
               "the lifted functions agree with the real ones on the concrete vectors"]
EXPLANATION = ("lifted NS/getNS/MP/getMP on symbolic byte strings and symbolic integers; round trip with "
               "arbitrary trailing bytes, exact MP encoding compared with an independent minimal "
               "two's-complement rule")


def _int_to_bytes(integer, length=None):
    """pure-Python cryptography.utils.int_to_bytes: big-endian, minimal length (1 for zero)"""
    if length == 0:
        raise ValueError("length argument can't be 0")
    digits = []
    n = integer
    while True:
        digits.append(n % 256)
        n = n // 256
        if n == 0:
            break
    if length is not None:
        if len(digits) > length:
            raise OverflowError("int too big to convert")
        digits.extend([0] * (length - len(digits)))
    digits.reverse()
    return lbytes.LBytes("".join([chr(d) for d in digits]))


class _IntNS:
    """the name `int` in lifted common.py: only int.from_bytes(data, 'big') is used"""

    @staticmethod
    def from_bytes(data, byteorder="big", signed=False):
        assert byteorder == "big" and not signed
        v = 0
        for o in data:
            v = v * 256 + o
        return v

    def __new__(cls, *a):
        return int(*a)


def _ord(x):
    if isinstance(x, lbytes._LBase):
        if len(x.s) != 1:
            raise TypeError("ord() expected a character, but string of length %d found" % len(x.s))
        return ord(x.s)
    return ord(x)


def _utf8_encode(text, errors="strict"):
    """pure-Python str.encode('utf-8') for the lifted NS (the C codec would realise symbolic text):
    returns the latin-1 text of the bytes; one path per character class, arithmetic inside"""
    out = []
    for c in text:
        o = ord(c)
        if o < 0x80:
            out.append(c)
        elif o < 0x800:
            out.append(chr(0xC0 + o // 64))
            out.append(chr(0x80 + o % 64))
        elif o < 0x10000:
            if 0xD800 <= o <= 0xDFFF:
                raise UnicodeEncodeError("utf-8", "?", 0, 1, "surrogates not allowed")
            out.append(chr(0xE0 + o // 4096))
            out.append(chr(0x80 + (o // 64) % 64))
            out.append(chr(0x80 + o % 64))
        else:
            out.append(chr(0xF0 + o // 262144))
            out.append(chr(0x80 + (o // 4096) % 64))
            out.append(chr(0x80 + (o // 64) % 64))
            out.append(chr(0x80 + o % 64))
    return "".join(out)


lbytes.CODECS["utf-8"] = lbytes.CODECS["utf8"] = (_utf8_encode, None)

L = lift.lift("twisted.conch.ssh.common", names=["NS", "getNS", "MP", "getMP"],
              overrides={"int_to_bytes": _int_to_bytes},
              extra_shims={"int": _IntNS, "ord": _ord}, bitops=True, encode_calls=True)


def _val(body):
    v = 0
    for ch in body:
        v = v * 256 + ord(ch)
    return v


def ns_roundtrip(s: str, r: str) -> bool:
    """
    pre: len(s) <= B['s'] and len(r) <= B['r']
    pre: all(ord(c) < 256 for c in s + r)
    post: _
    """
    enc = L.NS(b(s))
    e = t(enc)
    api.obs(e)
    out = L.getNS(enc + b(r))
    api.obs(lift.tl(out))
    cover()
    # exact encoding: 4-byte big-endian length, then the bytes
    if e != "\0\0\0" + chr(len(s)) + s:
        return False
    if not (isinstance(out, tuple) and len(out) == 2):
        return False
    return t(out[0]) == s and t(out[1]) == r


def ns_two(s1: str, s2: str, r: str) -> bool:
    """
    pre: len(s1) <= B['s2'] and len(s2) <= B['s2'] and len(r) <= 1
    pre: all(ord(c) < 256 for c in s1 + s2 + r)
    post: _
    """
    stream = L.NS(b(s1)) + L.NS(b(s2)) + b(r)
    out = L.getNS(stream, 2)
    api.obs(lift.tl(out))
    cover()
    if not (isinstance(out, tuple) and len(out) == 3):
        return False
    if not (t(out[0]) == s1 and t(out[1]) == s2 and t(out[2]) == r):
        return False
    # count=1 on the same stream leaves the second string untouched in the rest
    one = L.getNS(stream)
    return len(one) == 2 and t(one[0]) == s1 and t(one[1]) == t(L.NS(b(s2))) + r


def _ref_utf8(s):
    """harness-side reference encoding (written independently of the shim: RFC 3629 table, value
    rebuilt from the continuation payloads); returns None when s contains a surrogate"""
    out = ""
    for c in s:
        o = ord(c)
        if o <= 0x7F:
            out = out + c
            continue
        if 0xD800 <= o <= 0xDFFF:
            return None
        if o <= 0x7FF:
            n, lead = 1, 0xC0
        elif o <= 0xFFFF:
            n, lead = 2, 0xE0
        else:
            n, lead = 3, 0xF0
        tail = ""
        v = o
        for _ in range(n):
            q = v // 64
            tail = chr(0x80 + (v - 64 * q)) + tail
            v = q
        out = out + chr(lead + v) + tail
    return out


def ns_text(s: str, r: str) -> bool:
    """
    pre: len(s) <= B['txt'] and len(r) <= 1 and all(ord(c) < 256 for c in r)
    post: _
    """
    # NS also accepts text: it is sent as its UTF-8 encoding, and the length prefix counts BYTES
    want = _ref_utf8(s)
    try:
        enc = L.NS(s)
    except UnicodeEncodeError:
        cover("surrogate")
        return want is None
    if want is None:
        return False
    e = t(enc)
    api.obs(e)
    out = L.getNS(enc + b(r))
    cover()
    if e != "\0\0\0" + chr(len(want)) + want:
        return False
    if not (isinstance(out, tuple) and len(out) == 2):
        return False
    return t(out[0]) == want and t(out[1]) == r


def mp_roundtrip(n: int, r: str) -> bool:
    """
    pre: 0 <= n < 2 ** B['bits'] and len(r) <= B['r']
    pre: all(ord(c) < 256 for c in r)
    post: _
    """
    enc = L.MP(n)
    e = t(enc)
    api.obs(e)
    out = L.getMP(enc + b(r))
    api.obs((out[0], t(out[-1])))
    cover()
    # --- encoding is the minimal positive two's complement, 4-byte big-endian length in front
    if len(e) < 4 or e[:3] != "\0\0\0" or ord(e[3]) != len(e) - 4:
        return False
    body = e[4:]
    if n == 0:
        if body != "":
            return False
    else:
        if len(body) == 0:
            return False
        if ord(body[0]) >= 128:          # would read as negative
            return False
        if ord(body[0]) == 0:            # a leading zero only where needed as sign byte
            if len(body) < 2 or ord(body[1]) < 128:
                return False
        if _val(body) != n:
            return False
    # --- decoding
    if not (isinstance(out, tuple) and len(out) == 2):
        return False
    return out[0] == n and t(out[1]) == r


def mp_two(n1: int, n2: int, r: str) -> bool:
    """
    pre: 0 <= n1 < 65536 and 0 <= n2 < 65536 and len(r) <= 1
    pre: all(ord(c) < 256 for c in r)
    post: _
    """
    stream = L.MP(n1) + L.MP(n2) + b(r)
    out = L.getMP(stream, 2)
    api.obs((out[0], out[1], t(out[-1])))
    cover()
    if not (isinstance(out, tuple) and len(out) == 3):
        return False
    return out[0] == n1 and out[1] == n2 and t(out[2]) == r


def _nbytes_shards(tier):
    # one shard per byte length of n: [256**(k-1), 256**k)
    k = BOUNDS[tier]["bits"] // 8
    sh = [("n < 256",)]
    for i in range(1, k):
        sh.append(("%d <= n < %d" % (256 ** i, 256 ** (i + 1)),))
    return sh


HARNESSES = [
    H(ns_roundtrip, shards=lambda tier: [("len(s) == %d" % a,) for a in range(BOUNDS[tier]["s"] + 1)],
      timeout={"quick": 60, "thorough": 600}),
    H(ns_text, shards=lambda tier: [("len(s) == %d" % a,) for a in range(BOUNDS[tier]["txt"] + 1)],
      labels=("end", "surrogate"), timeout={"quick": 60, "thorough": 600}),
    H(ns_two,
      timeout={"quick": 60, "thorough": 600}),
    H(mp_roundtrip, shards=lambda tier: [("n < 2 ** 32",), ("n >= 2 ** 32",)],
      timeout={"quick": 60, "thorough": 900}),
    H(mp_two, timeout={"quick": 60, "thorough": 600}),
]

# vectors: twisted.conch.test.test_ssh / RFC 4251 section 5 examples
VECTORS = {
    "ns_roundtrip": [("", ""), ("abc", "xy"), ("\x00\xff\x80", "\x00"), ("testing", "")],
    "ns_text": [("", ""), ("ab", "x"), ("caf\xe9", ""), ("\xe9", "\xff"), ("\u20ac\x7f", ""), ("\U0001f600a", "z"),
                ("\x80\u07ff", ""), ("\u0800\uffff", "\x00"), ("\U00010000\U0010ffff", ""), ("\ud800", ""), ("a\udfff", "q")],
    "ns_two": [("a", "bc", "z"), ("", "", ""), ("\xff", "", "\x00")],
    "mp_roundtrip": [(0, ""), (1, "x"), (127, ""), (128, "ab"), (255, ""), (256, ""), (0x80, ""),
                     (0x9a378f9b2e332a7, ""), (32768, "\xff"), (8388608, ""), (16777215, "q")],
    "mp_two": [(0, 0, "\x00"), (128, 65535, "r"), (1, 32768, "\xff")],
}


def selftest():
    from cryptography.utils import int_to_bytes as real_itb
    n = lbytes.selftest()
    corpus = [0, 1, 2, 127, 128, 129, 255, 256, 257, 32767, 32768, 65535, 65536, 2 ** 23, 2 ** 24 - 1, 2 ** 24,
              2 ** 31, 2 ** 32 - 1, 2 ** 32, 2 ** 40 - 1, 2 ** 63, 2 ** 64, 0x9a378f9b2e332a7, 2 ** 127 + 12345]
    corpus += [3 ** k for k in range(1, 60)]
    for v in corpus:
        want = real_itb(v)
        got = _int_to_bytes(v)
        assert bytes(got) == want, (v, want, got)
        assert _IntNS.from_bytes(lbytes.LBytes(want), "big") == int.from_bytes(want, "big") == v
        assert _IntNS.from_bytes(lbytes.LBytes(b"\0" + want), "big") == v
        n += 3
    assert bytes(_int_to_bytes(5, 4)) == real_itb(5, 4)
    assert _IntNS.from_bytes(lbytes.LBytes(""), "big") == int.from_bytes(b"", "big") == 0
    cps = [0, 1, 0x7F, 0x80, 0x7FF, 0x800, 0xD7FF, 0xE000, 0xFFFF, 0x10000, 0x10FFFF] + list(range(0, 0x110000, 257))
    for cp in cps:
        if 0xD800 <= cp <= 0xDFFF:
            continue
        ch = chr(cp)
        for txt in (ch, "a" + ch, ch + "\xe9"):
            want = txt.encode("utf-8").decode("latin-1")
            assert _utf8_encode(txt) == want and _ref_utf8(txt) == want, (cp, txt)
            n += 2
    for cp in (0xD800, 0xDBFF, 0xDC00, 0xDFFF):
        assert _ref_utf8(chr(cp)) is None
        for f in (_utf8_encode, lambda x: x.encode("utf-8")):
            try:
                f(chr(cp))
                raise AssertionError("surrogate accepted")
            except UnicodeEncodeError:
                pass
        n += 3
    for c in (b"a", b"\x00", b"\xff"):
        assert _ord(lbytes.LBytes(c)) == ord(c)
    n += 5
    return n
