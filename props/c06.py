"""C06 DeferredLock / DeferredSemaphore: safe, FIFO-fair, no capacity lost; run() releases exactly once."""
import sys
from typing import List

from twisted.internet.defer import CancelledError, Deferred, DeferredLock, DeferredSemaphore

from vlib.api import H, cover

PROPERTY = "C06"
LEVEL = "model_checking"
ENCODED = ["twisted.internet.defer:DeferredSemaphore.acquire", "twisted.internet.defer:DeferredSemaphore.release",
           "twisted.internet.defer:DeferredSemaphore._cancelAcquire",
           "twisted.internet.defer:DeferredLock.acquire", "twisted.internet.defer:DeferredLock.release",
           "twisted.internet.defer:DeferredLock._cancelAcquire",
           "twisted.internet.defer:_ConcurrencyPrimitive.run",
           "twisted.internet.defer:_ConcurrencyPrimitive._releaseAndReturn",
           "twisted.internet.defer:maybeDeferred",
           "twisted.internet.defer:Deferred.cancel", "twisted.internet.defer:Deferred.callback"]
BOUNDS = {"quick": {"k": 3, "hist": 5, "maxlim": 2}, "thorough": {"k": 4, "hist": 7, "maxlim": 3}}
B = {}
BOUNDS_TEXT = ("inductive steps: semaphore limit any integer >= 1, tokens any integer allowed by the invariant, "
               "<= k waiting acquisitions (lock: locked flag + <= k waiters), one operation out of acquire / "
               "release by a holder / cancel waiter i / cancel an already granted acquisition, followed by a "
               "drain of the waiting list; run() histories from the fresh primitive of length <= hist over "
               "{run value, run raise, run unfired-Deferred, fire D_j ok, fire D_0 fail, cancel holder j, cancel "
               "waiter 0/1} (a history stops at the first operation that does not apply to the current state) for DeferredSemaphore(1..maxlim) and DeferredLock")
OUTSIDE = ["more than k waiting acquisitions in the inductive pre-state (list code is length-uniform; the invariant "
           "is shown inductive)",
           "release() by a non-holder (tokens == limit / unlocked lock): the code asserts",
           "run() with coroutine functions; re-entrant acquire/release from inside callbacks other than run()'s own",
           "run() histories longer than hist or limits above maxlim (covered only via the single-step harnesses)"]
ASSUMPTIONS = ["representation invariant assumed for the inductive steps: 0 <= tokens <= limit and (waiting != [] "
               "=> tokens == 0) (lock: waiting != [] => locked); every step re-establishes it; reachability from "
               "the fresh object is shown by the run() histories which compare tokens/locked/len(waiting) with a "
               "reference model after every operation",
               "holders is the ghost quantity limit - tokens (semaphore) / locked (lock) in the inductive steps; "
               "in the histories it is counted independently by the reference model",
               "waiting Deferreds of the pre-state are produced by the real acquire() on an exhausted primitive",
               "histories observe release() through an instance-level wrapper that logs and then calls the real "
               "method"]
EXPLANATION = ("one symbolic acquire/release/cancel from an arbitrary invariant-satisfying semaphore/lock state "
               "(any limit) plus a drain checking FIFO grants, and symbolic run()/fire/cancel histories compared "
               "event by event with a reference model")


def _fail(msg):
    # plain False under the solver (post: _ needs a falsy value), a diagnostic tuple in replay / vector validation
    return False if "crosshair" in sys.modules else (False, msg)


# ---------------------------------------------------------------- semaphore, inductive steps

def _mk_sem(limit, tokens, nwait, granted=False):
    s = DeferredSemaphore(limit)
    got = []
    g = None
    if granted:
        s.tokens = 1
        g = s.acquire()
        g.addCallback(lambda v: got.append(("g", v is s)))
        g.addErrback(lambda f: got.append(("g", "cancelled")) and None)
        del got[:]
    s.tokens = 0
    ws = []
    for i in range(nwait):
        d = s.acquire()
        d.addCallback(lambda v, i=i: got.append((i, v is s)))
        d.addErrback(lambda f, i=i: got.append((i, f.check(CancelledError) is not None and "cancelled")) and None)
        ws.append(d)
    s.tokens = tokens
    return s, ws, got, g


def _sem_inv(s):
    if not (0 <= s.tokens <= s.limit):
        return False
    if s.waiting and s.tokens != 0:
        return False
    return True


def _sem_drain(s, ws, got, order):
    """release once per remaining waiter: grants must follow `order` exactly, one per release, tokens stay 0;
    one more release then returns the token."""
    for n, i in enumerate(order):
        before = len(got)
        s.release()
        if got[before:] != [(i, True)]:
            return False
        if s.tokens != 0 or s.waiting != [ws[j] for j in order[n + 1:]]:
            return False
    before = len(got)
    s.release()
    return got[before:] == [] and s.tokens == 1 and s.waiting == []


def sem_acquire(limit: int, tokens: int, nwait: int) -> bool:
    """
    pre: limit >= 1 and 0 <= tokens <= limit
    pre: 0 <= nwait <= B['k'] and (nwait == 0 or tokens == 0)
    post: _
    """
    s, ws, got, _ = _mk_sem(limit, tokens, nwait)
    if s.waiting != ws or got != []:
        return _fail("pre-state")
    res = []
    d = s.acquire()
    d.addCallback(lambda v: res.append(v is s))
    d.addErrback(lambda f: res.append("failed") and None)
    cover()
    if not _sem_inv(s) or s.limit != limit or got != []:
        return _fail("invariant")
    if tokens > 0:
        # capacity free: granted at once, one token taken
        if not (res == [True] and s.tokens == tokens - 1 and s.waiting == []):
            return _fail("immediate grant")
        # cancelling the already granted acquisition changes nothing
        d.cancel()
        return res == [True] and s.tokens == tokens - 1 and s.waiting == []
    # no capacity: queued at the back, granted after all older waiters
    if not (res == [] and s.tokens == 0 and s.waiting[:-1] == ws and len(s.waiting) == nwait + 1
            and s.waiting[-1] is d):
        return _fail("queued")
    d.addCallback(lambda v: got.append((nwait, True)))
    ws.append(d)
    return _sem_drain(s, ws, got, list(range(nwait + 1)))


def sem_release(limit: int, tokens: int, nwait: int) -> bool:
    """
    pre: limit >= 1 and 0 <= tokens < limit
    pre: 0 <= nwait <= B['k'] and (nwait == 0 or tokens == 0)
    post: _
    """
    s, ws, got, _ = _mk_sem(limit, tokens, nwait)
    if s.waiting != ws or got != []:
        return _fail("pre-state")
    s.release()
    cover()
    if not _sem_inv(s) or s.limit != limit:
        return _fail("invariant")
    if nwait == 0:
        return got == [] and s.tokens == tokens + 1 and s.waiting == []
    # the oldest waiter is granted synchronously, capacity handed over (holders stay == limit)
    if not (got == [(0, True)] and s.tokens == 0 and s.waiting == ws[1:]):
        return _fail("handover")
    return _sem_drain(s, ws, got, list(range(1, nwait)))


def sem_cancel_waiter(limit: int, nwait: int, which: int) -> bool:
    """
    pre: limit >= 1
    pre: 1 <= nwait <= B['k'] and 0 <= which < nwait
    post: _
    """
    s, ws, got, _ = _mk_sem(limit, 0, nwait)
    if s.waiting != ws or got != []:
        return _fail("pre-state")
    ws[which].cancel()
    cover()
    if not _sem_inv(s) or s.limit != limit:
        return _fail("invariant")
    if got != [(which, "cancelled")] or s.tokens != 0:
        return _fail("cancel outcome")
    if s.waiting != ws[:which] + ws[which + 1:]:
        return _fail("not removed")
    # the cancelled waiter is never granted and takes no token: every later release goes to the others in order
    order = [i for i in range(nwait) if i != which]
    if not _sem_drain(s, ws, got, order):
        return _fail("drain")
    return got == [(which, "cancelled")] + [(i, True) for i in order]


def sem_cancel_granted(limit: int, tokens: int, nwait: int) -> bool:
    """
    pre: limit >= 1 and 0 <= tokens < limit
    pre: 0 <= nwait <= B['k'] and (nwait == 0 or tokens == 0)
    post: _
    """
    s, ws, got, g = _mk_sem(limit, tokens, nwait, granted=True)
    if s.waiting != ws or got != []:
        return _fail("pre-state")
    g.cancel()
    cover()
    # no effect at all: the holder keeps its token, nobody is granted or dropped
    if not (got == [] and s.tokens == tokens and s.waiting == ws and s.limit == limit):
        return _fail("cancel of granted acquisition had an effect")
    # ... and the holder can still release normally
    s.release()
    if nwait == 0:
        return got == [] and s.tokens == tokens + 1
    return got == [(0, True)] and s.tokens == 0 and s.waiting == ws[1:]


# ---------------------------------------------------------------- lock, inductive steps

def _mk_lock(locked, nwait, granted=False):
    l = DeferredLock()
    got = []
    g = None
    if granted:
        g = l.acquire()
        g.addCallback(lambda v: got.append(("g", v is l)))
        g.addErrback(lambda f: got.append(("g", "cancelled")) and None)
        del got[:]
    l.locked = True
    ws = []
    for i in range(nwait):
        d = l.acquire()
        d.addCallback(lambda v, i=i: got.append((i, v is l)))
        d.addErrback(lambda f, i=i: got.append((i, f.check(CancelledError) is not None and "cancelled")) and None)
        ws.append(d)
    l.locked = locked
    return l, ws, got, g


def _lock_drain(l, ws, got, order):
    for n, i in enumerate(order):
        before = len(got)
        l.release()
        if got[before:] != [(i, True)]:
            return False
        if l.locked is not True or l.waiting != [ws[j] for j in order[n + 1:]]:
            return False
    before = len(got)
    l.release()
    return got[before:] == [] and l.locked is False and l.waiting == []


def lock_acquire(locked: bool, nwait: int) -> bool:
    """
    pre: 0 <= nwait <= B['k'] and (nwait == 0 or locked)
    post: _
    """
    l, ws, got, _ = _mk_lock(locked, nwait)
    if l.waiting != ws or got != []:
        return _fail("pre-state")
    res = []
    d = l.acquire()
    d.addCallback(lambda v: res.append(v is l))
    d.addErrback(lambda f: res.append("failed") and None)
    cover()
    if got != [] or (l.waiting and not l.locked):
        return _fail("invariant")
    if not locked:
        if not (res == [True] and l.locked is True and l.waiting == []):
            return _fail("immediate grant")
        d.cancel()
        return res == [True] and l.locked is True and l.waiting == []
    if not (res == [] and l.locked is True and l.waiting[:-1] == ws and len(l.waiting) == nwait + 1
            and l.waiting[-1] is d):
        return _fail("queued")
    d.addCallback(lambda v: got.append((nwait, True)))
    ws.append(d)
    return _lock_drain(l, ws, got, list(range(nwait + 1)))


def lock_release(nwait: int) -> bool:
    """
    pre: 0 <= nwait <= B['k']
    post: _
    """
    l, ws, got, _ = _mk_lock(True, nwait)
    if l.waiting != ws or got != []:
        return _fail("pre-state")
    l.release()
    cover()
    if l.waiting and not l.locked:
        return _fail("invariant")
    if nwait == 0:
        return got == [] and l.locked is False and l.waiting == []
    if not (got == [(0, True)] and l.locked is True and l.waiting == ws[1:]):
        return _fail("handover")
    return _lock_drain(l, ws, got, list(range(1, nwait)))


def lock_cancel_waiter(nwait: int, which: int) -> bool:
    """
    pre: 1 <= nwait <= B['k'] and 0 <= which < nwait
    post: _
    """
    l, ws, got, _ = _mk_lock(True, nwait)
    if l.waiting != ws or got != []:
        return _fail("pre-state")
    ws[which].cancel()
    cover()
    if got != [(which, "cancelled")] or l.locked is not True:
        return _fail("cancel outcome")
    if l.waiting != ws[:which] + ws[which + 1:]:
        return _fail("not removed")
    order = [i for i in range(nwait) if i != which]
    if not _lock_drain(l, ws, got, order):
        return _fail("drain")
    return got == [(which, "cancelled")] + [(i, True) for i in order]


def lock_cancel_granted(nwait: int) -> bool:
    """
    pre: 0 <= nwait <= B['k']
    post: _
    """
    l, ws, got, g = _mk_lock(True, nwait, granted=True)
    if l.waiting != ws or got != []:
        return _fail("pre-state")
    g.cancel()
    cover()
    if not (got == [] and l.locked is True and l.waiting == ws):
        return _fail("cancel of granted acquisition had an effect")
    l.release()
    if nwait == 0:
        return got == [] and l.locked is False
    return got == [(0, True)] and l.locked is True and l.waiting == ws[1:]


# ---------------------------------------------------------------- run() histories

# op codes (m = maxlim):  0 run(f -> value)   1 run(f raises)   2 run(f -> unfired Deferred)
#   3+j      (j < m)  fire the Deferred of the j-th oldest holder with a value
#   3+m               fire the Deferred of the oldest holder with a failure
#   4+m+j    (j < m)  cancel the run() Deferred of the j-th oldest holder
#   4+2m+w   (w < 2)  cancel the run() Deferred of the w-th oldest waiter
class _Boom(Exception):
    pass


def _nops():
    return 6 + 2 * B['maxlim']


def run_history(lim: int, ops: List[int]) -> bool:
    """
    pre: 0 <= lim <= B['maxlim']
    pre: len(ops) <= B['hist'] and all(0 <= o < _nops() for o in ops)
    post: _
    """
    # lim == 0 stands for DeferredLock (capacity 1)
    if lim == 0:
        prim = DeferredLock()
        cap = 1
    else:
        prim = DeferredSemaphore(lim)
        cap = lim
    log = []
    real_release = prim.release

    def logged_release():
        log.append("rel")
        return real_release()
    prim.release = logged_release

    inner = {}       # run id -> Deferred returned by f
    outer = {}       # run id -> Deferred returned by run()
    zombies = []     # inner Deferreds whose run was cancelled while holding

    def mkf(r, kind):
        def f():
            log.append(("call", r))
            if kind == 0:
                return ("v", r)
            if kind == 1:
                raise _Boom()
            inner[r] = Deferred()
            return inner[r]
        return f

    def outcome_ok(v, r):
        log.append(("res", r, "ok", v))

    def outcome_err(f, r):
        log.append(("res", r, "cancelled" if f.check(CancelledError) else
                    "boom" if f.check(_Boom) else "other"))

    # reference model
    m_log = []
    m_holders = []   # run ids holding capacity while their Deferred is unfired, oldest first
    m_waiting = []   # (run id, kind) FIFO

    def m_start(r, kind):
        m_log.append(("call", r))
        if kind == 2:
            m_holders.append(r)
        else:
            m_finish(r, ("res", r, "ok", ("v", r)) if kind == 0 else ("res", r, "boom"))

    def m_finish(r, res):
        # release exactly once, after the result is known; the oldest waiter is started inside release()
        m_log.append("rel")
        if m_waiting:
            r2, k2 = m_waiting.pop(0)
            m_start(r2, k2)
        m_log.append(res)

    nruns = 0
    mm = B['maxlim']
    for o in ops:
        if o <= 2:
            r = nruns
            nruns += 1
            if len(m_holders) < cap:
                m_start(r, o)
            else:
                m_waiting.append((r, o))
            d = prim.run(mkf(r, o))
            d.addCallbacks(outcome_ok, outcome_err, callbackArgs=(r,), errbackArgs=(r,))
            outer[r] = d
        elif o <= 3 + mm:
            fail = (o == 3 + mm)
            j = 0 if fail else o - 3
            if j >= len(m_holders):
                return True          # not applicable in this state: history pruned
            r = m_holders.pop(j)
            if fail:
                m_finish(r, ("res", r, "boom"))
                inner[r].errback(_Boom())
            else:
                m_finish(r, ("res", r, "ok", ("d", r)))
                inner[r].callback(("d", r))
        elif o < 4 + 2 * mm:
            j = o - (4 + mm)
            if j >= len(m_holders):
                return True
            r = m_holders.pop(j)
            m_finish(r, ("res", r, "cancelled"))
            zombies.append(inner[r])
            outer[r].cancel()
        else:
            w = o - (4 + 2 * mm)
            if w >= len(m_waiting):
                return True
            r, _k = m_waiting.pop(w)
            m_log.append(("res", r, "cancelled"))
            outer[r].cancel()
        # event-by-event agreement: f called only when capacity was acquired, in FIFO order; exactly one
        # release per run and only after f's result (value, exception, or the firing/cancelling of its
        # Deferred); cancelled waiters never call f and never release
        if log != m_log:
            return _fail("events %r, expected %r" % (log, m_log))
        if len(prim.waiting) != len(m_waiting):
            return _fail("waiting length")
        if lim == 0:
            if prim.locked != (len(m_holders) > 0):
                return _fail("locked flag")
        elif prim.tokens != cap - len(m_holders):
            return _fail("tokens %r with %d holders" % (prim.tokens, len(m_holders)))
        if len(m_holders) > cap:
            return _fail("model")
    cover()
    # an application firing the Deferred of a run that was cancelled while holding must not release again
    for z in zombies:
        z.callback(None)
    if log != m_log:
        return _fail("late fire of a cancelled run's Deferred had an effect")
    for d in inner.values():
        d.addErrback(lambda f: None)
    return True


def _hist_shards(tier):
    m = BOUNDS[tier]["maxlim"]

    def classes(k):
        return ["len(ops) <= %d or ops[%d] <= 1" % (k, k), "len(ops) > %d and ops[%d] == 2" % (k, k),
                "len(ops) > %d and ops[%d] >= 3" % (k, k)]
    out = []
    for lim in range(0, m + 1):
        if tier == "quick":
            out.append(("lim == %d" % lim, "len(ops) == 0 or ops[0] != 2"))
            # first op run(f -> Deferred): split again on the second op
            out.append(("lim == %d" % lim, "len(ops) >= 1 and ops[0] == 2", "len(ops) < 2 or ops[1] <= 2"))
            out.append(("lim == %d" % lim, "len(ops) >= 2 and ops[0] == 2", "3 <= ops[1]"))
        else:
            for first in ("len(ops) == 0 or ops[0] != 2", "len(ops) >= 1 and ops[0] == 2"):
                for c1 in classes(1):
                    for c2 in classes(2):
                        out.append(("lim == %d" % lim, first, c1, c2))
    return out


HARNESSES = [
    H(sem_acquire, timeout={"quick": 40, "thorough": 300}),
    H(sem_release, timeout={"quick": 40, "thorough": 300}),
    H(sem_cancel_waiter, timeout={"quick": 40, "thorough": 300}),
    H(sem_cancel_granted, timeout={"quick": 40, "thorough": 300}),
    H(lock_acquire, timeout={"quick": 40, "thorough": 300}),
    H(lock_release, timeout={"quick": 40, "thorough": 300}),
    H(lock_cancel_waiter, timeout={"quick": 40, "thorough": 300}),
    H(lock_cancel_granted, timeout={"quick": 40, "thorough": 300}),
    H(run_history, shards=_hist_shards, timeout={"quick": 120, "thorough": 1500}),
]

VECTORS = {
    "sem_acquire": [(1, 1, 0), (3, 0, 2)],
    "sem_release": [(2, 0, 3), (2, 1, 0)],
    "sem_cancel_waiter": [(1, 3, 1)],
    "sem_cancel_granted": [(2, 0, 2)],
    "lock_acquire": [(False, 0), (True, 2)],
    "lock_release": [(0,), (3,)],
    "lock_cancel_waiter": [(3, 0)],
    "lock_cancel_granted": [(1,)],
    "run_history": [(1, [2, 0, 1, 3]), (0, [2, 2, 0, 8, 6]), (2, [2, 2, 1, 5, 4]), (2, [2, 2, 2, 2, 9])],
}
