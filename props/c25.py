"""C25 static.File range requests: exactly the requested bytes, 206 / 416 / 200, never an internal error.

Four layers, all on the real code of /repo:
 * `r2os`      E1: the real `File._rangeToOffsetAndSize` on unbounded symbolic ints vs the RFC 9110
               14.1.2 byte-range definition (a proof over all sizes inside CrossHair's int model).
 * `smt_r2os`  E6: the same obligations; the function's AST is translated at run time into z3 Int
               terms (path enumeration of the straight-line if/elif code), negated, and must be unsat
               for z3 AND cvc5.
 * `parse`     E2: lifted `File._parseRangeHeader` on header text from the grammar with symbolic digits
               and one fully symbolic junk byte at every position, against a reference tokenizer.
 * `single` / `multi` / `multi_buf`  E1: `makeProducer` + the three producers end to end with a fake
               request and an in-memory file; response code, Content-Range, Content-Length and the body
               bytes are compared with the RFC byte ranges (multipart body rebuilt independently).
"""
import ast
import inspect
import io
import textwrap
import time as _time
from typing import List, Optional

from twisted.web import http as _http
from twisted.web import static as _static

from vlib import api, lbytes, lift
from vlib.api import H, cover
from vlib.lift import b, t

PROPERTY = "C25"
LEVEL = "model_checking"
ENCODED = ["twisted.web.static:File._rangeToOffsetAndSize", "twisted.web.static:File._parseRangeHeader",
           "twisted.web.static:File._contentRange", "twisted.web.static:File._doSingleRangeRequest",
           "twisted.web.static:File._doMultipleRangeRequest", "twisted.web.static:File.makeProducer",
           "twisted.web.static:File._setContentHeaders",
           "twisted.web.static:NoRangeStaticProducer", "twisted.web.static:SingleRangeStaticProducer",
           "twisted.web.static:MultipleRangeStaticProducer", "twisted.web.static:File.render_GET",
           "twisted.python.filepath:FilePath.restat", "twisted.python.filepath:FilePath.getsize"]
BOUNDS = {"quick": {"nd": 2, "nd2": 1, "vals": 0, "n1": 100}, "thorough": {"nd": 3, "nd2": 2, "vals": 1, "n1": 100}}
B = {}
BOUNDS_TEXT = ("r2os/smt_r2os: file size, first-pos, last-pos / suffix-length any integers (unbounded); "
               "parse: 'bytes=' + 1-2 range-specs, every number 1..nd symbolic digits (with two specs: first number 1..2, the others 1..nd2 digits), one "
               "symbolic junk byte (all 256 values) inserted at every position; single/multi: file sizes and "
               "positions from small menus (0..12, 99..101), producers' bufferSize scaled to 4 (single) and "
               "256 (multipart, separators are ~75 bytes)")
OUTSIDE = ["a suffix range on a zero-length file: RFC 9110 calls it satisfiable but no well-formed "
           "Content-Range exists for it; 416 (what twisted answers) is taken as correct",
           "Range values outside the generated grammar (three or more range-specs, more than one junk byte, "
           "other range units); 'bytes=' with no range-spec at all (see report: returns [] -> 416)",
           "the real bufferSize 65536: the producers run with a scaled-down bufferSize so that both sides of "
           "every buffer boundary are inside the bound",
           "the real filesystem (os.stat and open() are fakes in `restat`), If-Range / conditional requests, "
           "HEAD (no producer is made), directories / missing files"]
ASSUMPTIONS = ["the file does not change DURING one request (between two requests it may: harness `restat`)",
               "time.time / os.getpid (multipart boundary) are stubbed inside twisted.web.static for determinism",
               "LBytes reproduces bytes semantics for split/strip/int (differential selftest on every run; int() "
               "uses a local shim that also implements CPython's digit-group underscores)"]
EXPLANATION = ("real range arithmetic on unbounded symbolic ints (CrossHair) and as SMT obligations (z3+cvc5); "
               "lifted Range parser on symbolic header bytes; producers end to end on solver-driven menus")


# ---- RFC 9110 14.1.2 reference -------------------------------------------------------------------

def _rfc(size, start, end):
    """(first, last) inclusive byte positions selected, or None when unsatisfiable"""
    if start is None:
        n = end                      # suffix-length
        if n <= 0 or size <= 0:
            return None
        if n >= size:
            return (0, size - 1)     # "the entire representation is used"
        return (size - n, size - 1)
    if start >= size:
        return None
    if end is None or end >= size:
        return (start, size - 1)
    return (start, end)


class _SizedFile(_static.File):
    type = "text/plain"
    encoding = None

    def __init__(self, size):
        self._vsize = size

    def getFileSize(self):
        return self._vsize


# ---- (1) E1 on the real arithmetic ----------------------------------------------------------------

def r2os(size: int, start: Optional[int], end: Optional[int]) -> bool:
    """
    pre: size >= 0
    pre: start is None or start >= 0
    pre: end is None or end >= 0 or start is None
    pre: not (start is None and end is None)
    pre: start is None or end is None or start <= end
    post: _
    """
    # the domain is exactly what _parseRangeHeader can return: (None, negative) comes from 'bytes=--5'
    f = _SizedFile(size)
    off, n = f._rangeToOffsetAndSize(start, end)
    cover()
    exp = _rfc(size, start, end)
    if exp is None:
        return off == 0 and n == 0
    first, last = exp
    if not (0 <= off and n >= 1 and off + n <= size):
        return False
    return off == first and n == last - first + 1


# ---- (2) E6: AST -> SMT ---------------------------------------------------------------------------

class Untranslatable(Exception):
    pass


class _Tr:
    """path-enumerating symbolic execution of straight-line if/elif integer Python into z3 terms;
    a value is (is_none: Bool, val: Int)"""

    def __init__(self, z, size):
        self.z = z
        self.size = size
        self.returns = []    # (pc, [values])
        self.hazards = []    # pc under which an int operation meets None (TypeError in Python)

    def run(self, fdef, env):
        z = self.z
        left = self.block(fdef.body, [(z.BoolVal(True), env)])
        for pc, _ in left:
            self.hazards.append(pc)   # falling off the end returns None: not a pair

    def block(self, stmts, states):
        for st in stmts:
            new = []
            for pc, env in states:
                new.extend(self.stmt(st, pc, env))
            states = new
        return states

    def stmt(self, st, pc, env):
        z = self.z
        if isinstance(st, ast.Expr) and isinstance(st.value, ast.Constant):
            return [(pc, env)]
        if isinstance(st, ast.Pass):
            return [(pc, env)]
        if isinstance(st, ast.Assign):
            env2 = dict(env)
            if isinstance(st.value, ast.Tuple):
                vals = [self.expr(e, env, pc) for e in st.value.elts]
                for tg in st.targets:
                    if not (isinstance(tg, ast.Tuple) and len(tg.elts) == len(vals)):
                        raise Untranslatable(ast.dump(st))
                    for e, v in zip(tg.elts, vals):
                        if not isinstance(e, ast.Name):
                            raise Untranslatable(ast.dump(st))
                        env2[e.id] = v
                return [(pc, env2)]
            v = self.expr(st.value, env, pc)
            for tg in st.targets:
                if not isinstance(tg, ast.Name):
                    raise Untranslatable(ast.dump(st))
                env2[tg.id] = v
            return [(pc, env2)]
        if isinstance(st, ast.AugAssign) and isinstance(st.target, ast.Name):
            env2 = dict(env)
            cur = ast.Name(st.target.id, ast.Load())
            env2[st.target.id] = self.expr(ast.BinOp(cur, st.op, st.value), env, pc)
            return [(pc, env2)]
        if isinstance(st, ast.If):
            c = self.cond(st.test, env, pc)
            a = self.block(st.body, [(z.And(pc, c), dict(env))])
            o = self.block(st.orelse, [(z.And(pc, z.Not(c)), dict(env))])
            return a + o
        if isinstance(st, ast.Return):
            if isinstance(st.value, ast.Tuple):
                vals = [self.expr(e, env, pc) for e in st.value.elts]
            elif st.value is None:
                raise Untranslatable("bare return")
            else:
                raise Untranslatable("non-tuple return")
            self.returns.append((pc, vals))
            return []
        raise Untranslatable(ast.dump(st)[:200])

    def _int(self, v, pc):
        none, val = v
        self.hazards.append(self.z.And(pc, none))
        return val

    def expr(self, e, env, pc):
        z = self.z
        if isinstance(e, ast.Name):
            if e.id not in env:
                raise Untranslatable("name " + e.id)
            return env[e.id]
        if isinstance(e, ast.Constant):
            if e.value is None:
                return (z.BoolVal(True), z.IntVal(0))
            if isinstance(e.value, int) and not isinstance(e.value, bool):
                return (z.BoolVal(False), z.IntVal(e.value))
            raise Untranslatable("constant %r" % (e.value,))
        if isinstance(e, ast.BinOp):
            a = self._int(self.expr(e.left, env, pc), pc)
            c = self._int(self.expr(e.right, env, pc), pc)
            if isinstance(e.op, ast.Add):
                return (z.BoolVal(False), a + c)
            if isinstance(e.op, ast.Sub):
                return (z.BoolVal(False), a - c)
            if isinstance(e.op, ast.Mult):
                return (z.BoolVal(False), a * c)
            raise Untranslatable(ast.dump(e.op))
        if isinstance(e, ast.UnaryOp) and isinstance(e.op, ast.USub):
            return (z.BoolVal(False), -self._int(self.expr(e.operand, env, pc), pc))
        if isinstance(e, ast.IfExp):
            c = self.cond(e.test, env, pc)
            a = self.expr(e.body, env, z.And(pc, c))
            o = self.expr(e.orelse, env, z.And(pc, z.Not(c)))
            return (z.If(c, a[0], o[0]), z.If(c, a[1], o[1]))
        if isinstance(e, ast.Call):
            if (isinstance(e.func, ast.Attribute) and e.func.attr == "getFileSize" and not e.args
                    and isinstance(e.func.value, ast.Name) and e.func.value.id == "self"):
                return (z.BoolVal(False), self.size)
            if isinstance(e.func, ast.Name) and e.func.id in ("max", "min") and len(e.args) == 2 and not e.keywords:
                a = self._int(self.expr(e.args[0], env, pc), pc)
                c = self._int(self.expr(e.args[1], env, pc), pc)
                if e.func.id == "max":
                    return (z.BoolVal(False), z.If(c > a, c, a))
                return (z.BoolVal(False), z.If(c < a, c, a))
            raise Untranslatable("call " + ast.dump(e.func)[:80])
        raise Untranslatable(ast.dump(e)[:200])

    def cond(self, e, env, pc):
        z = self.z
        if isinstance(e, ast.BoolOp):
            parts = []
            cur = pc
            for v in e.values:   # short-circuit: later operands are evaluated under the earlier ones
                c = self.cond(v, env, cur)
                parts.append(c)
                cur = z.And(cur, c) if isinstance(e.op, ast.And) else z.And(cur, z.Not(c))
            return z.And(*parts) if isinstance(e.op, ast.And) else z.Or(*parts)
        if isinstance(e, ast.UnaryOp) and isinstance(e.op, ast.Not):
            return z.Not(self.cond(e.operand, env, pc))
        if isinstance(e, ast.Compare):
            out = []
            left = e.left
            for op, right in zip(e.ops, e.comparators):
                lv = self.expr(left, env, pc)
                rv = self.expr(right, env, pc)
                if isinstance(op, (ast.Is, ast.IsNot)):
                    if not (isinstance(right, ast.Constant) and right.value is None):
                        raise Untranslatable("is <non-None>")
                    out.append(lv[0] if isinstance(op, ast.Is) else z.Not(lv[0]))
                elif isinstance(op, (ast.Eq, ast.NotEq)):
                    eq = z.And(lv[0] == rv[0], z.Or(lv[0], lv[1] == rv[1]))
                    out.append(eq if isinstance(op, ast.Eq) else z.Not(eq))
                else:
                    a = self._int(lv, pc)
                    c = self._int(rv, pc)
                    if isinstance(op, ast.Lt):
                        out.append(a < c)
                    elif isinstance(op, ast.LtE):
                        out.append(a <= c)
                    elif isinstance(op, ast.Gt):
                        out.append(a > c)
                    elif isinstance(op, ast.GtE):
                        out.append(a >= c)
                    else:
                        raise Untranslatable(ast.dump(op))
                left = right
            return z.And(*out) if len(out) > 1 else out[0]
        raise Untranslatable("condition " + ast.dump(e)[:200])


def _encode(z):
    """z3 terms for the real function: returns dict with inputs, outputs, hazard, paths"""
    fn = _static.File._rangeToOffsetAndSize
    tree = ast.parse(textwrap.dedent(inspect.getsource(fn)))
    fdef = tree.body[0]
    params = [a.arg for a in fdef.args.args]
    if len(params) != 3:
        raise Untranslatable("signature %r" % (params,))
    size = z.Int("filesize")
    s_none, s_val = z.Bool("start_none"), z.Int("start")
    e_none, e_val = z.Bool("end_none"), z.Int("end")
    tr = _Tr(z, size)
    tr.run(fdef, {params[1]: (s_none, s_val), params[2]: (e_none, e_val)})
    if not tr.returns or any(len(v) != 2 for _, v in tr.returns):
        raise Untranslatable("returns")
    off = z.IntVal(-999999)
    n = z.IntVal(-999999)
    hazard = list(tr.hazards)
    for pc, (o, m) in reversed(tr.returns):
        hazard.append(z.And(pc, z.Or(o[0], m[0])))
        off = z.If(pc, o[1], off)
        n = z.If(pc, m[1], n)
    return {"size": size, "s_none": s_none, "s": s_val, "e_none": e_none, "e": e_val, "off": off, "n": n,
            "hazard": z.Or(*hazard) if hazard else z.BoolVal(False), "paths": len(tr.returns)}


def _cvc5_status(smt2):
    import cvc5
    slv = cvc5.Solver()
    parser = cvc5.InputParser(slv)
    parser.setStringInput(cvc5.InputLanguage.SMT_LIB_2_6, "(set-logic ALL)\n" + smt2, "c25")
    sm = parser.getSymbolManager()
    out = []
    while True:
        cmd = parser.nextCommand()
        if cmd.isNull():
            break
        r = cmd.invoke(slv, sm)
        if r:
            out.append(str(r).strip())
    for ln in out:
        if ln in ("sat", "unsat", "unknown"):
            return ln
    return "error: " + " | ".join(out)[:200]


def smt_r2os(tier):
    import z3 as z
    t0 = _time.time()
    res = {"status": "unknown", "obligations": 0, "discharged": 0, "queries": 0, "samples": [],
           "replay_harness": "r2os"}
    try:
        enc = _encode(z)
    except Untranslatable as e:
        res["error"] = "cannot translate File._rangeToOffsetAndSize: %s" % (e,)
        res["solver_time_s"] = 0
        return res
    size, sn, s, en, e, off, n = (enc[k] for k in ("size", "s_none", "s", "e_none", "e", "off", "n"))
    # translator validation: generated terms vs the real function on a grid
    grid = 0
    for gs in range(0, 7):
        for st in [None] + list(range(0, 8)):
            for ed in [None] + list(range(-2 if st is None else 0, 8)):
                if st is None and ed is None:
                    continue
                if st is not None and ed is not None and st > ed:
                    continue
                want = _SizedFile(gs)._rangeToOffsetAndSize(st, ed)
                sub = [(size, z.IntVal(gs)), (sn, z.BoolVal(st is None)), (s, z.IntVal(st or 0)),
                       (en, z.BoolVal(ed is None)), (e, z.IntVal(ed or 0))]
                got = (z.simplify(z.substitute(off, *sub)).as_long(), z.simplify(z.substitute(n, *sub)).as_long())
                if tuple(want) != got:
                    res["status"] = "error"
                    res["error"] = "translator validation: f(%r,%r,%r) real %r smt %r" % (gs, st, ed, want, got)
                    return res
                grid += 1
    pre = z.And(size >= 0, z.Or(sn, s >= 0), z.Or(en, e >= 0, sn), z.Not(z.And(sn, en)),
                z.Or(sn, en, s <= e))
    # RFC 9110 14.1.2 reference, written directly as terms (independent of the code)
    sat = z.If(sn, z.And(e >= 1, size >= 1), s < size)
    first = z.If(sn, z.If(e >= size, 0, size - e), s)
    last = z.If(sn, size - 1, z.If(z.Or(en, e >= size), size - 1, e))
    obligations = [
        ("no None arithmetic / missing return", z.Not(enc["hazard"])),
        ("satisfiable => 0 <= offset, size >= 1, offset + size <= filesize",
         z.Implies(sat, z.And(off >= 0, n >= 1, off + n <= size))),
        ("satisfiable => (offset, size) is the RFC byte range",
         z.Implies(sat, z.And(off == first, n == last - first + 1))),
        ("unsatisfiable => (0, 0)", z.Implies(z.Not(sat), z.And(off == 0, n == 0))),
    ]
    res["obligations"] = len(obligations)
    ok = True
    for name, goal in obligations:
        sv = z.Solver()
        sv.add(pre, z.Not(goal))
        r3 = str(sv.check())
        res["queries"] += 1
        try:
            r5 = _cvc5_status(sv.to_smt2())
        except Exception as ex:  # noqa
            r5 = "error: %s" % (ex,)
        res["queries"] += 1
        res["samples"].append({"obligation": name, "z3": r3, "cvc5": r5})
        if r3 == "unsat" and r5 == "unsat":
            res["discharged"] += 1
            continue
        ok = False
        if r3 == "sat":
            m = sv.model()

            def val(x):
                return m.eval(x, model_completion=True)
            cex = {"size": val(size).as_long(),
                   "start": None if z.is_true(val(sn)) else val(s).as_long(),
                   "end": None if z.is_true(val(en)) else val(e).as_long()}
            res["status"] = "refuted"
            res["cex"] = {k: api.enc(v) for k, v in cex.items()}
            res["failed"] = name
            break
        res["status"] = "unknown"
        res["error"] = "%s: z3=%s cvc5=%s" % (name, r3, r5)
    if ok:
        res["status"] = "confirmed"
    res["paths_translated"] = enc["paths"]
    res["grid_points"] = grid
    res["solver_time_s"] = round(_time.time() - t0, 2)
    return res


CUSTOM = [smt_r2os]


# ---- (3) E2: the Range header parser ----------------------------------------------------------------

_PYWS = " \t\n\r\x0b\x0c"


def _py_int(x=0, base=None):
    """int(<bytes>) for the lifted parser, base 10: ASCII whitespace around, one sign, digits with
    CPython's single underscores between digits.  Unlike lbytes.l_int the error message does not
    format the (symbolic) argument, which would realise it (one path per value)."""
    if not (isinstance(x, lbytes._LBase) and base is None):
        return lbytes.l_int(x, base)
    cs, _lead, _trail = _strip(list(x.s))
    neg = False
    if len(cs) > 0 and (cs[0] == "+" or cs[0] == "-"):
        neg = cs[0] == "-"
        cs = cs[1:]
    if len(cs) == 0:
        raise ValueError("invalid literal for int() with base 10")
    v = 0
    prev_digit = False
    for i, ch in enumerate(cs):
        o = ord(ch)
        if 48 <= o <= 57:
            v = v * 10 + (o - 48)
            prev_digit = True
        elif ch == "_" and prev_digit and i + 1 < len(cs) and 48 <= ord(cs[i + 1]) <= 57:
            prev_digit = False
        else:
            raise ValueError("invalid literal for int() with base 10")
    return -v if neg else v


L = lift.lift("twisted.web.static", names=["File"],
              call_shims={"int": "_c25_int", "bytes": "_vl_bytes", "memoryview": "_vl_memoryview"},
              extra_shims={"_c25_int": _py_int})

# shapes of the generated header; A B C D are the digit strings
_SHAPES = ["bytes=A-B", "bytes=A-", "bytes=-B", "bytes=A-B,C-D", "bytes=A-,-D", "bytes=-B,C-", "bytes="]


def _is_ws(ch):
    return lbytes._char_in(ch, _PYWS)


def _strip(cs):
    i = 0
    j = len(cs)
    while i < j and _is_ws(cs[i]):
        i += 1
    while j > i and _is_ws(cs[j - 1]):
        j -= 1
    return cs[i:j], i, len(cs) - j


def _isdig(ch):
    return 48 <= ord(ch) <= 57


def _ref_num(cs):
    """number token: returns (kind, value); kind 'none' (empty), 'strict' (1*DIGIT), 'lenient' (what
    Python's int() additionally accepts: surrounding ASCII whitespace, one sign, single underscores
    between digits), or 'bad'"""
    if len(cs) == 0:
        return "none", None
    body, lead, trail = _strip(cs)
    lenient = lead > 0 or trail > 0
    neg = False
    if len(body) > 0 and (body[0] == "+" or body[0] == "-"):
        neg = body[0] == "-"
        body = body[1:]
        lenient = True
    if len(body) == 0:
        return "bad", None
    v = 0
    prev_digit = False
    for i, ch in enumerate(body):
        if _isdig(ch):
            v = v * 10 + (ord(ch) - 48)
            prev_digit = True
        elif ch == "_" and prev_digit and i + 1 < len(body) and _isdig(body[i + 1]):
            prev_digit = False
            lenient = True
        else:
            return "bad", None
    return ("lenient" if lenient else "strict"), (-v if neg else v)


def _ref_parse(cs):
    """reference reading of a Range field value given as a list of characters.
    -> ('strict', ranges)  valid per RFC 9110 14.1.1/14.2 + 5.6.1 list rules: must be accepted
       ('lenient', ranges) not valid, but unambiguous under int()-style number leniency: either
                           rejected or accepted with exactly these ranges
       ('bad', None)       must be rejected (ValueError -> the caller serves 200 and the whole file)"""
    eq = -1
    for i, ch in enumerate(cs):
        if ch == "=":
            eq = i
            break
    if eq < 0:
        return "bad", None
    unit, lead, trail = _strip(cs[:eq])
    lenient = lead > 0 or trail > 0
    if len(unit) != 5:
        return "bad", None
    for i in range(5):
        if unit[i] != "bytes"[i]:
            return "bad", None
    elements = [[]]
    for ch in cs[eq + 1:]:
        if ch == ",":
            elements.append([])
        else:
            elements[-1].append(ch)
    ranges = []
    for k, el in enumerate(elements):
        body, lead, trail = _strip(el)
        if lead > 0 and (k == 0 or not all(c == " " or c == "\t" for c in el[:lead])):
            lenient = True
        if trail > 0 and len(body) > 0 and (k == len(elements) - 1
                                            or not all(c == " " or c == "\t" for c in el[len(el) - trail:])):
            lenient = True
        if len(body) == 0:
            if lead > 0 and (k == 0 or k == len(elements) - 1):
                lenient = True
            continue          # empty list elements are ignored (RFC 9110 5.6.1.2)
        dash = -1
        for i, ch in enumerate(body):
            if ch == "-":
                dash = i
                break
        if dash < 0:
            return "bad", None
        k1, v1 = _ref_num(body[:dash])
        k2, v2 = _ref_num(body[dash + 1:])
        if k1 == "bad" or k2 == "bad":
            return "bad", None
        if k1 == "none" and k2 == "none":
            return "bad", None
        if k1 == "lenient" or k2 == "lenient":
            lenient = True
        if v1 is not None and v2 is not None and v1 > v2:
            return "bad", None
        ranges.append((v1, v2))
    if len(ranges) == 0:
        return "bad", None
    return ("lenient" if lenient else "strict"), ranges


def _split_cases(n, split):
    for k in range(n + 1):
        if split == k:
            return k
    return n


def parse(shape: int, a: str, bb: str, c: str, d: str, junk: str, pos: int) -> bool:
    """
    pre: 0 <= shape < 7 and 0 <= pos
    pre: len(a) <= 3 and len(bb) <= 3 and len(c) <= 3 and len(d) <= 3 and len(junk) <= 1
    post: _
    """
    # every shard adds (after fixing the lengths, which keeps the precondition itself cheap):
    #   all(48 <= ord(ch) <= 57 for ch in a + bb + c + d)  and  all(ord(ch) < 256 for ch in junk)
    sh = _SHAPES[_split_cases(len(_SHAPES) - 1, shape)]
    cs = []
    for ch in sh:
        if ch == "A":
            cs.extend(list(a))
        elif ch == "B":
            cs.extend(list(bb))
        elif ch == "C":
            cs.extend(list(c))
        elif ch == "D":
            cs.extend(list(d))
        else:
            cs.append(ch)
    if len(junk) == 1:
        k = _split_cases(len(cs), pos)
        cs = cs[:k] + [junk] + cs[k:]
    hdr = "".join(cs)
    f = L.File.__new__(L.File)
    try:
        got = f._parseRangeHeader(b(hdr))
        err = False
    except ValueError:
        got = None
        err = True
    kind, ref = _ref_parse(cs)
    api.obs((err, got))
    cover()
    if kind == "bad":
        return err
    if kind == "strict":
        return (not err) and got == ref
    return err or got == ref


def _parse_shards(tier):
    nd, nd2 = BOUNDS[tier]["nd"], BOUNDS[tier]["nd2"]
    out = []
    for si, sh in enumerate(_SHAPES):
        two = "," in sh
        use = [ch in sh for ch in "ABCD"]
        lens = [[]]
        for idx, u in enumerate(use):
            if not u:
                opts = [0]
            elif two and idx >= 1:
                opts = list(range(1, nd2 + 1))
            elif two:
                opts = list(range(1, min(nd, 2) + 1))
            else:
                opts = list(range(1, nd + 1))
            lens = [x + [o] for x in lens for o in opts]
        for ln in lens:
            for j in (0, 1):
                out.append(("shape == %d" % si, "len(a) == %d" % ln[0], "len(bb) == %d" % ln[1],
                            "len(c) == %d" % ln[2], "len(d) == %d" % ln[3], "len(junk) == %d" % j,
                            "all(48 <= ord(ch) <= 57 for ch in a + bb + c + d)",
                            "all(ord(ch) < 256 for ch in junk)"))
    return out


# ---- (4) end to end: makeProducer + producers -------------------------------------------------------

class _Req:
    method = b"GET"

    def __init__(self, rng):
        self.rng = rng
        self.codes = []
        self.hdrs = {}
        self.dups = 0
        self.written = []
        self.finished = 0
        self.producer = None

    def getHeader(self, k):
        return self.rng if k.lower() == b"range" else None

    def setResponseCode(self, c):
        self.codes.append(c)

    def setHeader(self, k, v):
        self.hdrs[k.lower()] = v

    def registerProducer(self, p, streaming):
        self.producer = p

    def unregisterProducer(self):
        self.producer = None

    def write(self, d):
        if not isinstance(d, bytes):
            raise TypeError("write() needs bytes")
        self.written.append(d)

    def finish(self):
        self.finished += 1


class _FakeTime:
    @staticmethod
    def time():
        return 1.0


class _FakeOS:
    def __getattr__(self, k):
        import os
        return getattr(os, k)

    @staticmethod
    def getpid():
        return 4242


class _MemFile(io.BytesIO):
    """in-memory file; a producer that keeps reading without making progress is stopped"""
    reads = 0

    def read(self, n=-1):
        self.reads += 1
        if self.reads > 3000:
            raise AssertionError("producer does not terminate (more than 3000 reads)")
        return io.BytesIO.read(self, n)


def _serve(size, rng, bufsize):
    """run the real makeProducer + producer against an in-memory file; returns the fake request"""
    content = bytes((i * 7 + 1) % 251 for i in range(size))
    f = _SizedFile(size)
    req = _Req(rng)
    saved = (_static.time, _static.os, _static.log.msg)
    _static.time, _static.os = _FakeTime, _FakeOS()
    _static.log.msg = lambda *a, **k: None
    try:
        p = f.makeProducer(req, _MemFile(content))
        p.bufferSize = bufsize
        p.start()
        n = 0
        while req.producer is not None and n < 400:
            p.resumeProducing()
            n += 1
    finally:
        _static.time, _static.os, _static.log.msg = saved
    return req, content


_VALS = [[None, 0, 1, 2, 4, 5, 9, 10, 11, 12], [None, 0, 1, 5, 9, 10, 98, 99, 100, 101, 102]]
_SIZES = [[0, 1, 2, 5, 10, 11], [0, 1, 9, 10, 99, 100, 101]]


def _pick(i, menu):
    for k in range(len(menu)):
        if i == k:
            return menu[k]
    return menu[-1]


def _spec(start, end):
    return (b"" if start is None else b"%d" % start) + b"-" + (b"" if end is None else b"%d" % end)


def single(vi: int, sizei: int, si: int, ei: int) -> bool:
    """
    pre: 0 <= vi <= B['vals']
    pre: 0 <= sizei < len(_SIZES[vi]) and 0 <= si < len(_VALS[vi]) and 0 <= ei < len(_VALS[vi])
    pre: not (si == 0 and ei == 0)
    post: _
    """
    v = _pick(vi, [0, 1])
    size = _pick(sizei, _SIZES[v])
    start = _pick(si, _VALS[v])
    end = _pick(ei, _VALS[v])
    req, content = _serve(size, b"bytes=" + _spec(start, end), 4)
    body = b"".join(req.written)
    cover()
    if req.finished != 1 or req.producer is not None or len(req.codes) != 1:
        return False
    h = req.hdrs
    if start is not None and end is not None and start > end:
        # syntactically invalid (RFC 9110 14.1.1: last-pos < first-pos): ignored, whole file
        return (req.codes == [_http.OK] and body == content and h.get(b"content-length") == b"%d" % size
                and b"content-range" not in h)
    exp = _rfc(size, start, end)
    if exp is None:
        return (req.codes == [_http.REQUESTED_RANGE_NOT_SATISFIABLE] and body == b""
                and h.get(b"content-range") == b"bytes */%d" % size and h.get(b"content-length") == b"0")
    first, last = exp
    return (req.codes == [_http.PARTIAL_CONTENT] and body == content[first:last + 1]
            and h.get(b"content-range") == b"bytes %d-%d/%d" % (first, last, size)
            and h.get(b"content-length") == b"%d" % (last - first + 1))


_MSPECS = [(None, 1), (None, 0), (None, 20), (0, None), (2, None), (0, 0), (1, 5), (11, 12), (9, 9), (30, None)]
_MSIZES = [0, 1, 3, 10, 12]


def _multi_expect(req, content, size, specs):
    """independent reconstruction of the multipart/byteranges response (RFC 9110 14.6)"""
    body = b"".join(req.written)
    h = req.hdrs
    sat = [r for r in (_rfc(size, s, e) for s, e in specs) if r is not None]
    if req.finished != 1 or req.producer is not None or len(req.codes) != 1:
        return False
    if not sat:
        return (req.codes == [_http.REQUESTED_RANGE_NOT_SATISFIABLE] and body == b""
                and h.get(b"content-range") == b"bytes */%d" % size and h.get(b"content-length") == b"0")
    ct = h.get(b"content-type", b"")
    pre = b'multipart/byteranges; boundary="'
    if not (ct.startswith(pre) and ct.endswith(b'"')):
        return False
    bnd = ct[len(pre):-1]
    if len(bnd) < 1 or bnd in content:
        return False
    exp = b""
    for first, last in sat:
        exp += (b"\r\n--" + bnd + b"\r\nContent-type: text/plain\r\nContent-range: bytes %d-%d/%d\r\n\r\n"
                % (first, last, size)) + content[first:last + 1]
    exp += b"\r\n--" + bnd + b"--\r\n"
    return (req.codes == [_http.PARTIAL_CONTENT] and body == exp
            and h.get(b"content-length") == b"%d" % len(body) and b"content-range" not in h)


def multi(sizei: int, i1: int, i2: int, bufi: int) -> bool:
    """
    pre: 0 <= sizei < len(_MSIZES) and 0 <= i1 < len(_MSPECS) and 0 <= i2 < len(_MSPECS)
    pre: 0 <= bufi <= 1
    post: _
    """
    size = _pick(sizei, _MSIZES)
    s1 = _pick(i1, _MSPECS)
    s2 = _pick(i2, _MSPECS)
    buf = _pick(bufi, [256, 65536])
    req, content = _serve(size, b"bytes=" + _spec(*s1) + b"," + _spec(*s2), buf)
    cover()
    return _multi_expect(req, content, size, [s1, s2])


def multi_buf(n1: int, n2: int, n3: int) -> bool:
    """
    pre: 0 <= n1 <= B['n1'] and 1 <= n2 <= 3 and 0 <= n3 <= 1
    post: _
    """
    # the multipart producer's buffer accounting: first part sizes 95..95+n1 around the (scaled)
    # bufferSize of 256; a part separator is ~75 bytes, so every relative position of part end /
    # next separator / buffer end occurs for some n1
    size = 400
    a = 95 + _pick(n1, list(range(0, B['n1'] + 1)))
    c = _pick(n2 - 1, [1, 2, 3])
    third = _pick(n3, [0, 1])
    specs = [(0, a - 1), (300, 300 + c - 1)]
    rng = b"bytes=" + _spec(*specs[0]) + b"," + _spec(*specs[1])
    if third:
        specs.append((None, 2))
        rng += b",-2"
    req, content = _serve(size, rng, 256)
    cover()
    return _multi_expect(req, content, size, specs)


# ---- (5) the file changes on disk between two requests on the same File object ---------------------------

class _Stat:
    """what os.stat() says about the fake file right now"""
    st_mode = 0o100644

    def __init__(self, size):
        self.st_size = size
        self.st_mtime = 1000.0 + size


class _DiskFile(_static.File):
    """static.File on a fake disk: stat() (rebound inside twisted.python.filepath for the duration of the
    harness) and openForReading() see the CURRENT content"""
    disk = None

    def openForReading(self):
        return _MemFile(self.disk["content"])


class _Req2(_Req):
    def setLastModified(self, when):
        return None


def _content(size, salt):
    return bytes((i * 7 + salt) % 251 for i in range(size))


def _render(f, rng):
    req = _Req2(rng)
    r = f.render_GET(req)
    n = 0
    p = req.producer
    while req.producer is not None and n < 400:
        p.resumeProducing()
        n += 1
    return req, r


_RSIZES = [0, 1, 5, 10, 11]
_RSPECS = [None, (0, None), (None, 3), (2, 4), (5, None), (10, 10), (None, 0), (7, 20)]


def restat(s1: int, s2: int, ri: int) -> bool:
    """
    pre: 0 <= s1 < len(_RSIZES) and 0 <= s2 < len(_RSIZES) and 0 <= ri < len(_RSPECS)
    post: _
    """
    # request 1 (no Range) while the file has size1; the file is replaced (size2, other content); request 2
    # on the SAME File object must be answered from the current file
    from twisted.python import filepath as _fp
    size1 = _pick(s1, _RSIZES)
    size2 = _pick(s2, _RSIZES)
    spec = _pick(ri, _RSPECS)
    disk = {"content": _content(size1, 1)}
    saved = (_fp.stat, _static.time, _static.os, _static.log.msg)
    _fp.stat = lambda path: _Stat(len(disk["content"]))
    _static.time, _static.os = _FakeTime, _FakeOS()
    _static.log.msg = lambda *a, **k: None
    try:
        f = _DiskFile("/verif-no-such-dir/f.txt")
        f.disk = disk
        req1, r1 = _render(f, None)
        disk["content"] = _content(size2, 3)
        req2, r2 = _render(f, None if spec is None else b"bytes=" + _spec(*spec))
    finally:
        _fp.stat, _static.time, _static.os, _static.log.msg = saved
    cover()
    c1, c2 = _content(size1, 1), _content(size2, 3)
    if not (req1.finished == 1 and req1.codes == [_http.OK] and b"".join(req1.written) == c1
            and req1.hdrs.get(b"content-length") == b"%d" % size1):
        return False
    body = b"".join(req2.written)
    h = req2.hdrs
    if req2.finished != 1 or req2.producer is not None or len(req2.codes) != 1:
        return False
    if spec is None:
        return req2.codes == [_http.OK] and body == c2 and h.get(b"content-length") == b"%d" % size2
    exp = _rfc(size2, *spec)
    if exp is None:
        return (req2.codes == [_http.REQUESTED_RANGE_NOT_SATISFIABLE] and body == b""
                and h.get(b"content-range") == b"bytes */%d" % size2 and h.get(b"content-length") == b"0")
    first, last = exp
    return (req2.codes == [_http.PARTIAL_CONTENT] and body == c2[first:last + 1]
            and h.get(b"content-range") == b"bytes %d-%d/%d" % (first, last, size2)
            and h.get(b"content-length") == b"%d" % (last - first + 1))


HARNESSES = [
    H(r2os, shards=[("start is None",), ("start is not None", "end is None"),
                    ("start is not None", "end is not None")], timeout={"quick": 60, "thorough": 300}),
    H(parse, shards=_parse_shards, timeout={"quick": 200, "thorough": 900},
      note="a, bb, c, d are ASCII digit strings and junk is one latin-1 character (constraints added per shard)"),
    H(single, shards=lambda tier: [("vi == %d" % v, "sizei == %d" % s) for v in range(BOUNDS[tier]["vals"] + 1)
                                   for s in range(len(_SIZES[v]))], timeout={"quick": 60, "thorough": 300}),
    H(multi, shards=[("sizei == %d" % s, "bufi == %d" % k) for s in range(len(_MSIZES)) for k in (0, 1)],
      timeout={"quick": 60, "thorough": 300}),
    H(multi_buf, shards=[("n3 == 0",), ("n3 == 1",)], timeout={"quick": 60, "thorough": 300}),
    H(restat, timeout={"quick": 120, "thorough": 300}),
]

VECTORS = {
    "parse": [(0, "5", "12", "", "", "", 0), (0, "12", "5", "", "", "", 0), (1, "7", "", "", "", " ", 6),
              (2, "", "3", "", "", "-", 6), (3, "1", "2", "3", "4", ",", 9), (3, "1", "2", "3", "4", " ", 10),
              (4, "23", "", "", "7", "x", 2), (5, "", "9", "4", "", "=", 3), (0, "1", "22", "", "", "_", 9),
              (0, "1", "22", "", "", "+", 8), (0, "1", "2", "", "", "\t", 0), (0, "1", "2", "", "", "\xa0", 7),
              (3, "0", "0", "5", "6", "\n", 10), (1, "10", "", "", "", ",", 6), (0, "3", "4", "", "", "-", 8)],
    "r2os": [(10, None, 100), (10, None, 0), (10, 3, None), (10, 3, 9), (10, 3, 10), (10, 10, 12), (0, None, 3),
             (0, 0, None), (7, None, -2)],
    "single": [(0, 4, 0, 3), (0, 4, 3, 2), (0, 0, 0, 1), (0, 5, 7, 0)],
    "multi": [(3, 0, 6, 0), (0, 0, 3, 1), (4, 7, 9, 0), (2, 2, 5, 1)],
    "multi_buf": [(0, 1, 0), (20, 2, 1), (100, 3, 0)],
    "restat": [(3, 2, 0), (2, 3, 1), (3, 1, 3), (1, 4, 5), (4, 0, 2), (0, 3, 7)],
}


def selftest():
    n = lbytes.selftest()
    al = [b"0", b"9", b"_", b"+", b"-", b" ", b"\t", b"\x0b", b"a", b"\xa0", b"\x1c", b""]
    for raw in [x + y + z + w for x in al for y in al for z in al for w in (b"", b"5")] + [b"1", b" 12 ", b"+5", b"-5", b"1_0", b"_1", b"1_", b"1__0", b"+_1", b"1_0_2", b"", b"+", b"\t7\x0b",
                b"0x1", b"1 2", b"\xa05", b"12a", b"-_3", b"9_9\n", b"--1", b"0_0"]:
        try:
            want = int(raw)
        except ValueError:
            want = "ValueError"
        try:
            got = _py_int(lbytes.LBytes(raw))
        except ValueError:
            got = "ValueError"
        assert want == got, (raw, want, got)
        n += 1
    return n
