"""C40 SMTP body transparency: client dot-stuffing / chunking  ->  wire  ->  server DATA mode.

Engine E2.  SMTPClient (smtpState_data, transformChunk, finishedFileTransfer, sendLine), the SMTP
server class (dataLineReceived / state_DATA, lineReceived, _messageHandled, sendCode) from smtp.py
and FileSender, LineReceiver, LineOnlyReceiver from basic.py are recompiled from /repo's source
onto LBytes.  The client side is driven through the real smtpState_data(): FileSender reads the body
(an LBytesIO) in chunks of CHUNK_SIZE = 1..3 bytes (scaled down from 16384 on the FileSender
instance), passes them through transformChunk to the transport, and the Deferred fires
finishedFileTransfer.  Everything the client wrote is the wire text; it is delivered to a server
object put into DATA mode (one recording IMessage) in two pieces, at every split position.
Body lines are symbolic bytes (no CR, no LF inside a line); the number of lines and their lengths
are case split.
"""
from twisted.internet import defer

from vlib import api, lbytes, lift
from vlib.api import H, cover
from vlib.lift import b, t

PROPERTY = "C40"
LEVEL = "model_checking"
ENCODED = ["twisted.mail.smtp:SMTPClient.smtpState_data", "twisted.mail.smtp:SMTPClient.transformChunk",
           "twisted.mail.smtp:SMTPClient.finishedFileTransfer", "twisted.mail.smtp:SMTPClient.sendLine",
           "twisted.mail.smtp:SMTP.dataLineReceived", "twisted.mail.smtp:SMTP.lineReceived",
           "twisted.mail.smtp:SMTP._messageHandled", "twisted.mail.smtp:SMTP.sendCode",
           "twisted.protocols.basic:FileSender.beginFileTransfer", "twisted.protocols.basic:FileSender.resumeProducing",
           "twisted.protocols.basic:LineOnlyReceiver.dataReceived", "twisted.protocols.basic:LineReceiver.sendLine"]
BOUNDS = {"quick": {"ll": 2, "l3": 1, "cs": 3}, "thorough": {"ll": 2, "l3": 2, "cs": 4}}
B = {}
BOUNDS_TEXT = ("body of 1 or 2 lines of 0..2 bytes each (last line LF-terminated or not) and of 3 LF-terminated lines "
               "of 0..l3 bytes each (1 quick, 2 thorough), every byte any value except CR and LF; client read-chunk "
               "size 1..cs (3 quick, 4 thorough); the wire text delivered to the server in two pieces at every "
               "split position")
OUTSIDE = ["more / longer lines, body lines containing CR (the property is about LF-terminated lines without CR)",
           "the empty body (the client then sends an empty line before the terminator; noted, not counted)",
           "three or more network deliveries (LineOnlyReceiver keeps one buffer; two deliveries at every position "
           "are explored)",
           "CHUNK_SIZE = 16384 itself: the chunk loop only uses it as the argument of file.read(); 1..cs puts "
           "chunk boundaries at every position of the body",
           "the Received: header line a delivery object may add in do_DATA (the server is put into DATA mode "
           "directly), several recipients, message objects that raise SMTPServerError",
           "lines longer than the real MAX_LENGTH of 16384 are represented by the scaled variant long_scaled "
           "(MAX_LENGTH = 4 on the server instance); long_default uses the class default with lines of 997..2000 bytes"]
ASSUMPTIONS = ["LBytes/LBytesIO reproduce bytes/BytesIO (lbytes.selftest on every run); lifted and real classes "
               "agree on the concrete vectors below",
               "server state for DATA mode is set as do_DATA sets it (mode, datafailed, one message, header flags)",
               "documented server behaviour accounted for exactly: a blank line is inserted before the first line "
               "when that line is non-empty and contains no ':' (dataLineReceived)"]
EXPLANATION = ("lifted real SMTPClient + FileSender -> wire -> lifted real SMTP server in DATA mode; body bytes "
               "symbolic, line structure / chunk size / split index case split")

lbytes.FAST_SCAN = True

LB = lift.lift("twisted.protocols.basic", names=["LineOnlyReceiver", "_PauseableMixin", "LineReceiver", "FileSender"])
L = lift.lift("twisted.mail.smtp", names=["SMTP", "SMTPClient"], overrides={"basic": LB}, encode_calls=True,
              use_re=True)
from twisted.mail import smtp as _real_smtp  # noqa: E402
DATA, COMMAND = _real_smtp.DATA, _real_smtp.COMMAND


class _Transport:
    """client transport: also the consumer FileSender writes to"""
    disconnecting = False

    def __init__(self):
        self.out = []
        self.producer = None
        self.lost = False

    def registerProducer(self, producer, streaming):
        self.producer = producer

    def unregisterProducer(self):
        self.producer = None

    def write(self, data):
        self.out.append(t(data))

    def writeSequence(self, seq):
        for x in seq:
            self.out.append(t(x))

    def loseConnection(self):
        self.lost = True
        self.disconnecting = True


class _Message:
    """recording IMessage"""

    def __init__(self, ev):
        self.ev = ev

    def lineReceived(self, line):
        self.ev.append(("line", t(line)))

    def eomReceived(self):
        self.ev.append(("eom",))
        return defer.succeed(None)

    def connectionLost(self):
        self.ev.append(("lost",))


def _menu(lo, hi, v):
    for k in range(lo, hi + 1):
        if v == k:
            return k
    return hi


def _fixlen(text, maxlen):
    """same text with a plain-int length (see props/c42.py)"""
    if lbytes._is_conc(text):
        return text
    for n in range(maxlen + 1):
        if len(text) == n:
            return "".join([text[k] for k in range(n)])
    return text


def _client_wire(body, cs):
    """what the real client puts on the wire for this body (after the server's 354)"""
    class Client(L.SMTPClient):
        def getMailData(self):
            return lift_io(body)
    tr = _Transport()
    cl = Client(b("client.example"))
    cl.transport = tr
    cl.smtpState_data(354, b("go ahead"))
    prod = tr.producer
    if prod is None:
        return None
    prod.CHUNK_SIZE = cs
    steps = 0
    while tr.producer is not None:
        prod.resumeProducing()
        steps += 1
        if steps > 40:
            return None
    return "".join(tr.out)


def lift_io(text):
    if L.__real__:
        import io
        return io.BytesIO(text.encode("latin-1"))
    return lbytes.LBytesIO(lbytes.LBytes(text))


def _server_run(wire, k, maxlen=None):
    """deliver wire[:k], wire[k:] to a server in DATA mode; returns (message events, commands, mode, replies)"""
    ev = []
    cmds = []
    sv = L.SMTP()
    sv.noisy = False
    if maxlen is not None:
        sv.MAX_LENGTH = maxlen
    tr = _Transport()
    sv.transport = tr
    sv.mode = DATA
    sv.datafailed = None
    sv._SMTP__messages = [_Message(ev)]
    sv._SMTP__inheader = sv._SMTP__inbody = 0
    sv.state_COMMAND = lambda line: cmds.append(t(line))
    if k > 0:
        sv.dataReceived(b(wire[:k]))
    if k < len(wire) and not tr.lost:
        # (a transport that was told to close delivers nothing more)
        sv.dataReceived(b(wire[k:]))
    return ev, cmds, sv.mode, "".join(tr.out), ("closed" if tr.lost else t(sv._buffer))


def _expected(lines):
    exp = []
    if len(lines[0]) > 0 and ":" not in lines[0]:
        exp.append(("line", ""))          # documented blank line before a body that starts without a header
    for ln in lines:
        exp.append(("line", ln))
    exp.append(("eom",))
    return exp


def _transfer(lines, term, cs, split):
    body = "\n".join(lines) + ("\n" if term else "")
    wire = _client_wire(body, cs)
    if wire is None:
        return False
    wire = _fixlen(wire, 64)
    api.obs(wire)
    k = _menu(0, len(wire), split)
    ev, cmds, mode, replies, rest = _server_run(wire, k)
    api.obs((ev, cmds, mode, replies, rest))
    cover()
    # exactly the body lines, then end of message, exactly once and only at the client's final '.'
    if ev != _expected(lines):
        return False
    # nothing of the body or of the terminator reached the command interpreter; nothing is left over
    if cmds != [] or rest != "":
        return False
    return mode == COMMAND and replies == "250 Delivery in progress\r\n"


def _outcome(lines, ev, cmds, mode, replies, rest, may_refuse):
    """transferred exactly - or, when allowed, refused cleanly: the message object is told the
    transfer failed (no end of message), the client gets exactly one 5xx reply, NOTHING of the body or
    the terminator was given to the command interpreter, and the server either closed the connection
    or is back in command mode with nothing left over"""
    if cmds != []:
        return False
    if ev == _expected(lines):
        return rest == "" and mode == COMMAND and replies == "250 Delivery in progress\r\n"
    if not may_refuse:
        return False
    if len(ev) == 0 or ev[-1] != ("lost",) or ("eom",) in ev:
        return False
    if ev[:-1] != _expected(lines)[:len(ev) - 1]:
        return False
    if not (rest == "closed" or (rest == "" and mode == COMMAND)):
        return False
    return len(replies) >= 6 and replies[0] == "5" and replies.count("\r\n") == 1 and replies.endswith("\r\n")


SCALED_MAX = 4


def long_scaled(l1: str, cs: int, split: int) -> bool:
    """
    pre: SCALED_MAX - 1 <= len(l1) <= SCALED_MAX + 2 and _ok(l1)
    pre: 1 <= cs <= 2 and 0 <= split
    post: _
    """
    # one body line around the server's line-length limit (MAX_LENGTH scaled from 16384 to 4 on the
    # server instance), followed by a line that is also an SMTP command
    l1 = _fixlen(l1, SCALED_MAX + 2)
    lines = [l1, "RSET"]
    wire = _client_wire("\n".join(lines) + "\n", 2 if _menu(1, 2, cs) == 1 else 16)
    if wire is None:
        return False
    wire = _fixlen(wire, 64)
    api.obs(wire)
    k = _menu(0, len(wire), split)
    ev, cmds, mode, replies, rest = _server_run(wire, k, SCALED_MAX)
    api.obs((ev, cmds, mode, replies, rest))
    cover()
    # the limit applies to the line as received (a leading '.' is doubled on the wire)
    wlen = len(l1) + (1 if l1[0] == "." else 0)
    return _outcome(lines, ev, cmds, mode, replies, rest, wlen > SCALED_MAX)


_LONG = [997, 998, 999, 1000, 1001, 2000]


def long_default(fill: str, lsel: int, split: int) -> bool:
    """
    pre: len(fill) == 1 and _ok(fill)
    pre: 0 <= lsel < len(_LONG) and 0 <= split <= 2
    post: _
    """
    # class-default MAX_LENGTH and CHUNK_SIZE: one line of L copies of a symbolic byte (L around the
    # RFC 5321 text-line limit), then a line 'RSET'; every such line is far below the server's own
    # limit of 16384, so it must be transferred
    n = _LONG[_menu(0, len(_LONG) - 1, lsel)]
    fill = _fixlen(fill, 1)
    lines = [fill * n, "RSET"]
    wire = _client_wire("\n".join(lines) + "\n", 16384)
    if wire is None:
        return False
    w = len(wire)
    api.obs((w, wire[:3], wire[-12:]))
    k = [n + 1, n + 2, w][_menu(0, 2, split)]
    ev, cmds, mode, replies, rest = _server_run(wire, k)
    api.obs(([(e[0], len(e[1]) if len(e) > 1 else 0) for e in ev], cmds, mode, replies, rest))
    cover()
    return _outcome(lines, ev, cmds, mode, replies, rest, False)


def _ok(ln):
    for c in ln:
        if c == "\r" or c == "\n" or ord(c) > 255:
            return False
    return True


def one_line(l1: str, term: bool, cs: int, split: int) -> bool:
    """
    pre: len(l1) <= B['ll'] and _ok(l1) and (term or len(l1) > 0)
    pre: 1 <= cs <= B['cs'] and 0 <= split
    post: _
    """
    l1 = _fixlen(l1, B['ll'])
    return _transfer([l1], term, _menu(1, B['cs'], cs), split)


def two_lines(l1: str, l2: str, term: bool, cs: int, split: int) -> bool:
    """
    pre: len(l1) <= B['ll'] and len(l2) <= B['ll'] and _ok(l1) and _ok(l2) and (term or len(l2) > 0)
    pre: 1 <= cs <= B['cs'] and 0 <= split
    post: _
    """
    l1, l2 = _fixlen(l1, B['ll']), _fixlen(l2, B['ll'])
    return _transfer([l1, l2], term, _menu(1, B['cs'], cs), split)


def three_lines(l1: str, l2: str, l3: str, cs: int, split: int) -> bool:
    """
    pre: len(l1) <= B['l3'] and len(l2) <= B['l3'] and len(l3) <= B['l3'] and _ok(l1) and _ok(l2) and _ok(l3)
    pre: 1 <= cs <= B['cs'] and 0 <= split
    post: _
    """
    l1, l2, l3 = _fixlen(l1, B['l3']), _fixlen(l2, B['l3']), _fixlen(l3, B['l3'])
    return _transfer([l1, l2, l3], True, _menu(1, B['cs'], cs), split)


def _shards2(tier):
    ll = BOUNDS[tier]["ll"]
    return [("len(l1) == %d" % a, "len(l2) == %d" % c) for a in range(ll + 1) for c in range(ll + 1)]


def _shards3(tier):
    ll, cs = BOUNDS[tier]["l3"], BOUNDS[tier]["cs"]
    if tier == "quick":
        return [("len(l1) == %d" % a, "len(l2) == %d" % c, "len(l3) == %d" % e)
                for a in range(ll + 1) for c in range(ll + 1) for e in range(ll + 1)]
    return [("len(l1) == %d" % a, "len(l2) == %d" % c, "len(l3) == %d" % e, "cs == %d" % k)
            for a in range(ll + 1) for c in range(ll + 1) for e in range(ll + 1) for k in range(1, cs + 1)]


HARNESSES = [
    H(long_scaled, shards=[("len(l1) == %d" % n,) for n in range(SCALED_MAX - 1, SCALED_MAX + 3)],
      timeout={"quick": 90, "thorough": 600}),
    H(long_default, shards=[("lsel == %d" % i,) for i in range(len(_LONG))], timeout={"quick": 200, "thorough": 600}),
    H(one_line, timeout={"quick": 90, "thorough": 900}),
    H(two_lines, shards=_shards2, timeout={"quick": 200, "thorough": 900}),
    H(three_lines, shards=_shards3, timeout={"quick": 200, "thorough": 900}),
]

VECTORS = {
    "long_scaled": [("abc", 1, 3), ("abcd", 2, 7), (".bc", 1, 0), ("a:c", 2, 9), ("abcde", 1, 9), ("abcde", 2, 3),
                    ("....", 2, 5), ("abcdef", 1, 8), (".bcd", 2, 12)],
    "long_default": [("a", 0, 0), (".", 1, 1), (":", 2, 0), ("\xff", 5, 2), ("a", 3, 1), ("a", 4, 2)],
    "one_line": [(".", True, 3, 1), (".a", True, 1, 0), ("a", False, 2, 3), ("", True, 1, 2), (":", True, 2, 4),
                 ("..", True, 1, 5), ("..", False, 2, 6), ("\xff\x00", True, 3, 3)],
    "two_lines": [("a", ".", True, 2, 1), ("a", ".b", True, 2, 5), ("a", ".b", True, 3, 2), (".", ".", True, 1, 4),
                  ("", ".", False, 2, 3), ("a:", "", True, 3, 0), ("x", "..", True, 2, 9), ("", "", True, 1, 1),
                  (".", "a.", False, 3, 7), (" .", ". ", True, 2, 6)],
    "three_lines": [("a", ".", "b", 2, 3), (".", ".", ".", 1, 5), ("", "", ".", 3, 2), (":", "", ".", 2, 8)],
}


def selftest():
    return lbytes.selftest()
