"""C36 SSH channel flow control: window / packet limits, per-stream completeness, close after drain,
receiver window replenishment.

Engine E3 (ropes): the REAL, unlifted `SSHChannel.write/writeExtended/addWindowBytes/loseConnection`
run on opaque byte strings whose only observable is (start, end) spans of a master stream with
symbolic endpoints.  Level 1 = channel against a recording connection; level 2 = the real
`SSHConnection.ssh_CHANNEL_DATA/ssh_CHANNEL_EXTENDED_DATA/adjustWindow/sendClose` with a recording
transport, concrete small payloads and symbolic window numbers.
"""
import struct as _struct
from typing import List

from twisted.conch.ssh import channel as _chmod
from twisted.conch.ssh import common as _common
from twisted.conch.ssh import connection as _cnmod

from vlib import api, rope
from vlib.api import H, cover

PROPERTY = "C36"
LEVEL = "model_checking"
ENCODED = ["twisted.conch.ssh.channel:SSHChannel.write", "twisted.conch.ssh.channel:SSHChannel.writeExtended",
           "twisted.conch.ssh.channel:SSHChannel.addWindowBytes", "twisted.conch.ssh.channel:SSHChannel.loseConnection",
           "twisted.conch.ssh.connection:SSHConnection.ssh_CHANNEL_DATA",
           "twisted.conch.ssh.connection:SSHConnection.ssh_CHANNEL_EXTENDED_DATA",
           "twisted.conch.ssh.connection:SSHConnection.adjustWindow",
           "twisted.conch.ssh.connection:SSHConnection.sendClose"]
BOUNDS = {"quick": {"pk": 2, "hpk": 1, "hs": 1, "hist": 3, "d": 3, "cap": 1 << 20},
          "thorough": {"pk": 3, "hpk": 1, "hs": 2, "hist": 4, "d": 4, "cap": 1 << 20}}
B = {}
BOUNDS_TEXT = ("sender, inductive steps: remote window any int >= 0, max packet any int >= 1, buffered normal data "
               "and <= 2 buffered extended entries of any length <= pk*maxpacket (<= cap = 1 MiB), one operation "
               "(write / writeExtended of any length <= pk*maxpacket, addWindowBytes of any increment <= cap, "
               "loseConnection); sender histories of <= hist operations from a fresh channel followed by a final "
               "window grant; receiver: window size/left, max packet any ints, two incoming packets of 0..d bytes, "
               "re-entrancy: addWindowBytes on an arbitrary buffered state / after two writes with a startWriting() "
               "hook that writes nothing / normal / extended (type 1 or 2) data of any length <= hpk*maxpacket "
               "(buffered items <= hpk*maxpacket there; the two initial writes to streams 0..hs); "
               "channel open or closing (loseConnection requested with outgoing data still buffered)")
OUTSIDE = ["SSH packet encoding of outgoing data (struct.pack / NS): SSHConnection.sendData/sendExtendedData are "
           "replaced by a recording connection on the sender side",
           "more than pk packets per buffered item / write in one operation (lengths are otherwise unbounded "
           "symbolic integers up to 1 MiB)",
           "more than two buffered extended-data entries in the inductive pre-state",
           "writes issued by the application after loseConnection()",
           "re-entrant application hooks other than one write()/writeExtended() of <= pk packets from startWriting()",
           "receiver with localWindowSize == 1: the window is then never replenished (0 < 1 // 2 is false); "
           "progress of the peer is only checked for localWindowSize >= 2",
           "channel open/close handshake, requests, EOF, the SSH transport"]
ASSUMPTIONS = ["ropes: data content is never inspected by the code under test (any content access raises "
               "RopeContentAccess and is reported); every master-stream byte is treated as distinct",
               "representation invariant assumed for the sender inductive steps and checked to be re-established: "
               "data is buffered only while remoteWindowLeft == 0; the first buffered extended entry is "
               "non-empty; adjacent extended entries have different types; closing and not yet closed implies "
               "something is buffered; unless closing, areWriting is off exactly while something is buffered",
               "level 1: the recording connection drops data after close and ignores a second close exactly "
               "like SSHConnection.sendData/sendClose (localClosed flag)",
               "level 2: the name `struct` in twisted.conch.ssh.connection is rebound for the duration of the "
               "harness to a shim whose pack() keeps the (range-checked) integers instead of realising them; the "
               "_log attributes of the connection and channel instances are no-op loggers",
               "a peer learns every WINDOW_ADJUST before it sends its next packet"]
EXPLANATION = ("real SSHChannel methods on ropes with symbolic window/packet/length integers against a reference "
               "flow-control model (inductive step + histories); real SSHConnection receive path with symbolic "
               "window numbers")


# ---- level 1: recording connection -----------------------------------------------------------------

class _Conn:
    def __init__(self):
        self.log = []       # (kind, type, data): kind 0 normal, 1 extended, 2 close, 3 data after close

    def sendData(self, ch, data):
        if ch.localClosed:
            self.log.append((3, 0, data))
            return
        self.log.append((0, 0, data))

    def sendExtendedData(self, ch, t, data):
        if ch.localClosed:
            self.log.append((3, t, data))
            return
        self.log.append((1, t, data))

    def sendClose(self, ch):
        if ch.localClosed:
            return
        ch.localClosed = True
        self.log.append((2, 0, None))


def _mk(w, m, buf, ext, closing, cls=None):
    conn = _Conn()
    ch = (cls or _chmod.SSHChannel)(remoteWindow=w, remoteMaxPacket=m, conn=conn)
    if len(buf) > 0:
        ch.buf = buf
    ch.extBuf = [[t, d] for (t, d) in ext]
    if closing:
        ch.closing = 1
    if len(buf) > 0 or ext:
        ch.areWriting = 0
    return ch, conn


class _Model:
    """reference flow control: what must be sent, per operation, as (kind, type, bytes) stream chunks"""

    def __init__(self, w, buf, ext, closing):
        self.w = w
        self.buf = buf
        self.ext = [[t, d] for (t, d) in ext]
        self.closing = closing
        self.closed = False
        self.out = []

    def _emit(self, kind, t, data):
        if len(data) > 0:
            if self.out and self.out[-1][0] == kind and self.out[-1][1] == t:
                self.out[-1] = (kind, t, rope.concat([self.out[-1][2], data]))
            else:
                self.out.append((kind, t, data))

    def _maybe_close(self):
        if self.closing and not self.closed and len(self.buf) == 0 and not self.ext:
            self.out.append((2, 0, None))
            self.closed = True

    def write(self, data):
        if len(self.buf) > 0:
            self.buf = rope.concat([self.buf, data])
        else:
            k = len(data) if len(data) <= self.w else self.w
            self._emit(0, 0, data[:k])
            self.buf = data[k:]
            self.w = self.w - k
        self._maybe_close()

    def _ext(self, t, data):
        if self.ext:
            if self.ext[-1][0] == t:
                self.ext[-1][1] = rope.concat([self.ext[-1][1], data])
            else:
                self.ext.append([t, data])
            return
        k = len(data) if len(data) <= self.w else self.w
        self._emit(1, t, data[:k])
        if k < len(data):
            self.ext = [[t, data[k:]]]
        self.w = self.w - k

    def write_ext(self, t, data):
        self._ext(t, data)
        self._maybe_close()

    def add_window(self, n):
        self.w = self.w + n
        if len(self.buf) > 0:
            k = len(self.buf) if len(self.buf) <= self.w else self.w
            self._emit(0, 0, self.buf[:k])
            self.buf = self.buf[k:]
            self.w = self.w - k
        old = self.ext
        self.ext = []
        for (t, d) in old:
            self._ext(t, d)
        self._maybe_close()

    def lose(self):
        self.closing = True
        self._maybe_close()


def _packets_ok(log, w, m):
    """every data message <= max packet and <= the window remaining at that moment; returns the
    remaining window, or None"""
    for (kind, t, data) in log:
        if kind == 3:
            return None         # data handed to the connection after close was sent
        if kind == 2:
            continue
        n = len(data)
        if n > m or n > w:
            return None
        w = w - n
    return w


def _coalesce(log):
    out = []
    for (kind, t, data) in log:
        if kind == 2:
            out.append((2, 0, None))
        elif len(data) > 0:
            if out and out[-1][0] == kind and out[-1][1] == t:
                out[-1] = (kind, t, rope.concat([out[-1][2], data]))
            else:
                out.append((kind, t, data))
    return out


def _same_out(got, want):
    if len(got) != len(want):
        return False
    for g, x in zip(got, want):
        if g[0] != x[0]:
            return False
        if g[0] == 2:
            continue
        if g[1] != x[1] or not rope.same(g[2], x[2]):
            return False
    return True


def _same_state(ch, mo):
    if ch.remoteWindowLeft != mo.w:
        return False
    if not rope.same(ch.buf, mo.buf):
        return False
    if len(ch.extBuf) != len(mo.ext):
        return False
    for e, x in zip(ch.extBuf, mo.ext):
        if e[0] != x[0] or not rope.same(e[1], x[1]):
            return False
    if bool(ch.closing) != bool(mo.closing):
        return False
    if bool(ch.localClosed) != bool(mo.closed):
        return False
    return True


def _inv(ch):
    """the representation invariant assumed by the inductive steps"""
    if ch.remoteWindowLeft < 0:
        return False
    if len(ch.buf) > 0 or ch.extBuf:
        if ch.remoteWindowLeft != 0:
            return False
    if ch.extBuf:
        if len(ch.extBuf[0][1]) == 0:
            return False
        for i in range(len(ch.extBuf) - 1):
            if ch.extBuf[i][0] == ch.extBuf[i + 1][0]:
                return False
    if ch.closing and not ch.localClosed:
        if not (len(ch.buf) > 0 or ch.extBuf):
            return False
    if ch.localClosed and (len(ch.buf) > 0 or ch.extBuf):
        return False            # close is sent only with empty buffers
    if not ch.closing:
        # stopWriting()/startWriting() hints: writing is off exactly while something is buffered
        if bool(ch.areWriting) != (not (len(ch.buf) > 0 or ch.extBuf)):
            return False
    return True


def _pre_state(p0, bl, ne, t1, p1, l1, t2, p2, l2):
    rope.reset()
    buf = rope.span(p0, p0 + bl)
    ext = []
    if ne >= 1:
        ext.append((t1, rope.span(p1, p1 + l1)))
    if ne >= 2:
        ext.append((t2, rope.span(p2, p2 + l2)))
    return buf, ext


def _finish(ch, conn, mo, w_for_packets, m):
    left = _packets_ok(conn.log, w_for_packets, m)
    if left is None or left != ch.remoteWindowLeft:
        return False
    if not _same_out(_coalesce(conn.log), mo.out):
        return False
    if not _same_state(ch, mo):
        return False
    return _inv(ch)


def step_write(w: int, m: int, p0: int, bl: int, ne: int, t1: int, p1: int, l1: int, t2: int, p2: int,
               l2: int, closing: bool, q: int, n: int) -> bool:
    """
    pre: m >= 1 and w >= 0 and 0 <= bl <= B['pk'] * m and bl <= B['cap']
    pre: 0 <= ne <= 2 and 1 <= l1 <= B['pk'] * m and 0 <= l2 <= B['pk'] * m and l1 <= B['cap'] and l2 <= B['cap']
    pre: 0 <= p0 <= B['cap'] and 0 <= p1 <= B['cap'] and 0 <= p2 <= B['cap'] and w <= B['cap'] and m <= B['cap']
    pre: w == 0 or (bl == 0 and ne == 0)
    pre: ne < 2 or t1 != t2
    pre: (not closing) or bl > 0 or ne > 0
    pre: 0 <= q <= B['cap'] and 0 <= n <= B['pk'] * m and n <= B['cap']
    post: _
    """
    buf, ext = _pre_state(p0, bl, ne, t1, p1, l1, t2, p2, l2)
    ch, conn = _mk(w, m, buf, ext, closing)
    mo = _Model(w, buf, ext, closing)
    data = rope.span(q, q + n)
    ch.write(data)
    mo.write(data)
    cover()
    return _finish(ch, conn, mo, w, m)


def step_writeext(w: int, m: int, p0: int, bl: int, ne: int, t1: int, p1: int, l1: int, t2: int, p2: int,
                  l2: int, closing: bool, t: int, q: int, n: int) -> bool:
    """
    pre: m >= 1 and w >= 0 and 0 <= bl <= B['pk'] * m and bl <= B['cap']
    pre: 0 <= ne <= 2 and 1 <= l1 <= B['pk'] * m and 0 <= l2 <= B['pk'] * m and l1 <= B['cap'] and l2 <= B['cap']
    pre: 0 <= p0 <= B['cap'] and 0 <= p1 <= B['cap'] and 0 <= p2 <= B['cap'] and w <= B['cap'] and m <= B['cap']
    pre: w == 0 or (bl == 0 and ne == 0)
    pre: ne < 2 or t1 != t2
    pre: (not closing) or bl > 0 or ne > 0
    pre: 0 <= q <= B['cap'] and 0 <= n <= B['pk'] * m and n <= B['cap']
    post: _
    """
    buf, ext = _pre_state(p0, bl, ne, t1, p1, l1, t2, p2, l2)
    ch, conn = _mk(w, m, buf, ext, closing)
    mo = _Model(w, buf, ext, closing)
    data = rope.span(q, q + n)
    ch.writeExtended(t, data)
    mo.write_ext(t, data)
    cover()
    return _finish(ch, conn, mo, w, m)


def step_addwindow(w: int, m: int, p0: int, bl: int, ne: int, t1: int, p1: int, l1: int, t2: int, p2: int,
                   l2: int, closing: bool, inc: int) -> bool:
    """
    pre: m >= 1 and w >= 0 and 0 <= bl <= B['pk'] * m and bl <= B['cap']
    pre: 0 <= ne <= 2 and 1 <= l1 <= B['pk'] * m and 0 <= l2 <= B['pk'] * m and l1 <= B['cap'] and l2 <= B['cap']
    pre: 0 <= p0 <= B['cap'] and 0 <= p1 <= B['cap'] and 0 <= p2 <= B['cap'] and w <= B['cap'] and m <= B['cap']
    pre: w == 0 or (bl == 0 and ne == 0)
    pre: ne < 2 or t1 != t2
    pre: (not closing) or bl > 0 or ne > 0
    pre: 0 <= inc <= 4 * B['cap']
    post: _
    """
    buf, ext = _pre_state(p0, bl, ne, t1, p1, l1, t2, p2, l2)
    ch, conn = _mk(w, m, buf, ext, closing)
    mo = _Model(w, buf, ext, closing)
    ch.addWindowBytes(inc)
    mo.add_window(inc)
    cover()
    if not _finish(ch, conn, mo, w + inc, m):
        return False
    # complete once enough window is granted
    total = bl + (l1 if ne >= 1 else 0) + (l2 if ne >= 2 else 0)
    if w + inc >= total:
        if len(ch.buf) != 0 or ch.extBuf or ch.remoteWindowLeft != w + inc - total:
            return False
        if closing and not ch.localClosed:
            return False
    return True


def step_lose(w: int, m: int, p0: int, bl: int, ne: int, t1: int, p1: int, l1: int, t2: int, p2: int,
              l2: int, closing: bool) -> bool:
    """
    pre: m >= 1 and w >= 0 and 0 <= bl <= B['pk'] * m and bl <= B['cap']
    pre: 0 <= ne <= 2 and 1 <= l1 <= B['pk'] * m and 0 <= l2 <= B['pk'] * m and l1 <= B['cap'] and l2 <= B['cap']
    pre: 0 <= p0 <= B['cap'] and 0 <= p1 <= B['cap'] and 0 <= p2 <= B['cap'] and w <= B['cap'] and m <= B['cap']
    pre: w == 0 or (bl == 0 and ne == 0)
    pre: ne < 2 or t1 != t2
    pre: (not closing) or bl > 0 or ne > 0
    post: _
    """
    buf, ext = _pre_state(p0, bl, ne, t1, p1, l1, t2, p2, l2)
    ch, conn = _mk(w, m, buf, ext, closing)
    mo = _Model(w, buf, ext, closing)
    ch.loseConnection()
    mo.lose()
    cover()
    if not _finish(ch, conn, mo, w, m):
        return False
    # close goes out now iff nothing is buffered; otherwise only the flag is set
    return bool(ch.localClosed) == (bl == 0 and ne == 0) and bool(ch.closing)


def _concrete(d, top):
    for k in range(top + 1):
        if d == k:
            return k
    return top


_BASE = (0, 4 << 20, 8 << 20)      # master-stream region of each stream: normal, extended 1, extended 2


def _account(ch, conn, wp, m, sent, written, lost):
    """direct (model-free) oracle for one history step: packet bounds, exact window accounting,
    every message is exactly the next unsent span of its stream, close only after everything written
    was handed over and nothing after it, conservation of buffered data"""
    left = _packets_ok(conn.log, wp, m)
    if left is None or left != ch.remoteWindowLeft:
        return False
    closed = False
    for (kind, t, d) in conn.log:
        if closed:
            return False
        if kind == 2:
            if not lost:
                return False
            for s in range(3):
                if sent[s] != written[s]:
                    return False
            closed = True
            continue
        s = 0 if kind == 0 else t
        if not rope.is_span(d, _BASE[s] + sent[s], _BASE[s] + sent[s] + len(d)):
            return False
        sent[s] = sent[s] + len(d)
    if not rope.is_span(ch.buf, _BASE[0] + sent[0], _BASE[0] + written[0]):
        return False
    pend = [0, 0, 0]
    for e in ch.extBuf:
        pend[e[0]] = pend[e[0]] + len(e[1])
    if pend[1] != written[1] - sent[1] or pend[2] != written[2] - sent[2]:
        return False
    return _inv(ch)


def history(w0: int, m: int, o0: int, n0: int, o1: int, n1: int, o2: int, n2: int, o3: int, n3: int) -> bool:
    """
    pre: m >= 1 and 0 <= w0 <= B['cap'] and m <= B['cap']
    pre: 0 <= o0 <= 4 and 0 <= o1 <= 4 and 0 <= o2 <= 4 and 0 <= o3 <= 5
    pre: o3 == 5 or B['hist'] >= 4
    pre: 0 <= n0 <= B['hpk'] * m and 0 <= n1 <= B['hpk'] * m and 0 <= n2 <= B['hpk'] * m and 0 <= n3 <= B['hpk'] * m
    pre: n0 <= B['cap'] and n1 <= B['cap'] and n2 <= B['cap'] and n3 <= B['cap']
    post: _
    """
    ops = [o0, o1, o2, o3]
    ns = [n0, n1, n2, n3]
    rope.reset()
    ch, conn = _mk(w0, m, rope.empty(), [], False)
    written = [0, 0, 0]
    sent = [0, 0, 0]
    lost = False
    for i in range(len(ops)):
        o = _concrete(ops[i], 5)    # one path family per operation kind
        n = ns[i]
        if o == 5:
            continue            # unused slot
        del conn.log[:]
        wp = ch.remoteWindowLeft
        if o <= 2:
            if lost:
                continue        # writes after loseConnection are outside the property
            data = rope.span(_BASE[o] + written[o], _BASE[o] + written[o] + n)
            written[o] = written[o] + n
            if o == 0:
                ch.write(data)
            else:
                ch.writeExtended(o, data)
        elif o == 3:
            ch.addWindowBytes(n)
            wp = wp + n
        else:
            ch.loseConnection()
            lost = True
        if not _account(ch, conn, wp, m, sent, written, lost):
            return False
    # final grant of exactly what is still buffered: everything written arrives, in order, then close
    need = len(ch.buf)
    for e in ch.extBuf:
        need = need + len(e[1])
    del conn.log[:]
    wp = ch.remoteWindowLeft + need
    ch.addWindowBytes(need)
    cover()
    if not _account(ch, conn, wp, m, sent, written, lost):
        return False
    if len(ch.buf) != 0 or ch.extBuf:
        return False
    for s in range(3):
        if sent[s] != written[s]:
            return False
    return bool(ch.localClosed) == lost


# ---- re-entrant application: startWriting() hook that writes synchronously -----------------------------

class _HookChannel(_chmod.SSHChannel):
    """an application whose startWriting() override carries on immediately: it writes a fresh span of
    stream hook-1 (0 normal data, 1 / 2 extended data of that type) from inside addWindowBytes()"""
    hook = 0
    hook_n = 0
    acct = None         # the harness's per-stream count of bytes written so far

    def startWriting(self):
        h = self.hook
        if h == 0:
            return
        cover("hooked")
        s = h - 1
        n = self.hook_n
        data = rope.span(_BASE[s] + self.acct[s], _BASE[s] + self.acct[s] + n)
        self.acct[s] = self.acct[s] + n
        if s == 0:
            self.write(data)
        else:
            self.writeExtended(s, data)


def step_addwindow_hook(m: int, s0: int, bl: int, ne: int, t1: int, s1: int, l1: int, s2: int, l2: int,
                        hm: int, hn: int, inc: int) -> bool:
    """
    pre: m >= 1 and m <= B['cap'] and 0 <= bl <= B['hpk'] * m and bl <= B['cap']
    pre: 0 <= ne <= 2 and 1 <= t1 <= 2 and 1 <= l1 <= B['hpk'] * m and 0 <= l2 <= B['hpk'] * m and l1 <= B['cap'] and l2 <= B['cap']
    pre: 0 <= s0 <= B['cap'] and 0 <= s1 <= B['cap'] and 0 <= s2 <= B['cap']
    pre: bl > 0 or ne > 0
    pre: 0 <= hm <= 3 and 0 <= hn <= B['hpk'] * m and hn <= B['cap']
    pre: 0 <= inc <= 4 * B['cap']
    post: _
    """
    # arbitrary buffered (not closing) channel state, numbered per stream: s_k bytes of stream k were sent
    # before; addWindowBytes(inc) calls the startWriting() hook, which re-enters write()/writeExtended()
    rope.reset()
    hm = _concrete(hm, 3)
    sent = [s0, 0, 0]
    written = [s0 + bl, 0, 0]
    ext = []
    if ne >= 1:
        sent[t1] = s1
        written[t1] = s1 + l1
        ext.append((t1, rope.span(_BASE[t1] + s1, _BASE[t1] + s1 + l1)))
    if ne >= 2:
        t2 = 3 - t1
        sent[t2] = s2
        written[t2] = s2 + l2
        ext.append((t2, rope.span(_BASE[t2] + s2, _BASE[t2] + s2 + l2)))
    buf = rope.span(_BASE[0] + s0, _BASE[0] + s0 + bl)
    ch, conn = _mk(0, m, buf, ext, False, _HookChannel)
    ch.hook = hm
    ch.hook_n = hn
    ch.acct = written
    before = list(written)
    if not _inv(ch):
        return False
    ch.addWindowBytes(inc)
    cover()
    # the hook ran exactly once (writing was off, the channel is not closing)
    if hm != 0 and written[hm - 1] != before[hm - 1] + hn:
        return False
    return _account(ch, conn, inc, m, sent, written, False)


def history_hook(w0: int, m: int, o0: int, n0: int, o1: int, n1: int, hm: int, hn: int, inc: int, lose: bool) -> bool:
    """
    pre: m >= 1 and 0 <= w0 <= B['cap'] and m <= B['cap']
    pre: 0 <= o0 <= B['hs'] and 0 <= o1 <= B['hs'] and 0 <= hm <= 3
    pre: 0 <= n0 <= B['hpk'] * m and 0 <= n1 <= B['hpk'] * m and 0 <= hn <= B['hpk'] * m
    pre: n0 <= B['cap'] and n1 <= B['cap'] and hn <= B['cap'] and 0 <= inc <= 4 * B['cap']
    pre: B['hist'] >= 4 or not lose
    post: _
    """
    # fresh channel: two writes, addWindowBytes(inc) with the re-entrant startWriting() hook, optionally
    # loseConnection, then (hook off) a grant of everything still buffered
    rope.reset()
    ch, conn = _mk(w0, m, rope.empty(), [], False, _HookChannel)
    written = [0, 0, 0]
    sent = [0, 0, 0]
    ch.acct = written
    for (o, n) in ((o0, n0), (o1, n1)):
        o = _concrete(o, 2)
        del conn.log[:]
        wp = ch.remoteWindowLeft
        data = rope.span(_BASE[o] + written[o], _BASE[o] + written[o] + n)
        written[o] = written[o] + n
        if o == 0:
            ch.write(data)
        else:
            ch.writeExtended(o, data)
        if not _account(ch, conn, wp, m, sent, written, False):
            return False
    ch.hook = _concrete(hm, 3)
    ch.hook_n = hn
    del conn.log[:]
    wp = ch.remoteWindowLeft + inc
    ch.addWindowBytes(inc)
    if not _account(ch, conn, wp, m, sent, written, False):
        return False
    ch.hook = 0
    lost = False
    if lose:
        del conn.log[:]
        wp = ch.remoteWindowLeft
        ch.loseConnection()
        lost = True
        if not _account(ch, conn, wp, m, sent, written, lost):
            return False
    need = len(ch.buf)
    for e in ch.extBuf:
        need = need + len(e[1])
    del conn.log[:]
    wp = ch.remoteWindowLeft + need
    ch.addWindowBytes(need)
    cover()
    if not _account(ch, conn, wp, m, sent, written, lost):
        return False
    if len(ch.buf) != 0 or ch.extBuf:
        return False
    for s in range(3):
        if sent[s] != written[s]:
            return False
    return bool(ch.localClosed) == lost


# ---- level 2: the real SSHConnection receive path ----------------------------------------------------

class _Packed:
    """result of the struct shim's pack(): the integers themselves"""

    def __init__(self, vals):
        self.vals = list(vals)


class _StructShim:
    error = _struct.error

    @staticmethod
    def pack(fmt, *vals):
        if fmt not in (">L", ">2L", ">3L"):
            raise AssertionError("struct shim: unexpected format")
        for v in vals:
            if v < 0 or v > 0xFFFFFFFF:
                raise _struct.error("argument out of range")
        return _Packed(vals)

    unpack = staticmethod(_struct.unpack)
    calcsize = staticmethod(_struct.calcsize)


class _NoLog:
    def _nop(self, *a, **k):
        return None
    debug = info = warn = error = critical = failure = emit = _nop


class _Transport:
    def __init__(self):
        self.packets = []

    def sendPacket(self, mtype, payload):
        if isinstance(payload, _Packed):
            vals = list(payload.vals)
        else:
            vals = list(_struct.unpack(">%dL" % (len(payload) // 4), payload))
        self.packets.append((mtype, vals))


class _RecvChannel(_chmod.SSHChannel):
    def dataReceived(self, data):
        self.got.append((0, data))

    def extReceived(self, t, data):
        self.got.append((t, data))


_PAYLOAD = b"abcdefgh"


def recv(ws: int, wl: int, mp: int, d1: int, e1: bool, d2: int, e2: bool, closing: bool) -> bool:
    """
    pre: 1 <= ws <= 0xFFFFFFFF and 0 <= wl <= ws and 1 <= mp <= 0xFFFFFFFF
    pre: 0 <= d1 <= B['d'] and 0 <= d2 <= B['d']
    post: _
    """
    with rope.rebound(_cnmod, struct=_StructShim):
        conn = _cnmod.SSHConnection()
        conn._log = _NoLog()
        tr = _Transport()
        conn.transport = tr
        ch = _RecvChannel(localWindow=ws, localMaxPacket=mp, remoteWindow=0, remoteMaxPacket=1, conn=conn)
        ch._log = _NoLog()
        ch.got = []
        ch.id = 0
        ch.localWindowLeft = wl
        conn.channels[0] = ch
        conn.localToRemoteChannel[0] = 7
        conn.channelsToRemoteChannel[ch] = 7
        if closing:
            # loseConnection() requested while outgoing data is still buffered (remote window 0): the
            # channel is closing but not closed, and must keep receiving and replenishing its window
            ch.write(b"zz")
            ch.loseConnection()
            if not (ch.closing and not ch.localClosed and len(ch.buf) == 2 and tr.packets == []):
                return False
        peer = wl                   # the window the peer believes it has
        for (d, e) in ((d1, e1), (d2, e2)):
            k = _concrete(d, B['d'])
            data = _PAYLOAD[:k]
            del tr.packets[:]
            del ch.got[:]
            before = ch.localWindowLeft
            if e:
                conn.ssh_CHANNEL_EXTENDED_DATA(_struct.pack(">2L", 0, 1) + _common.NS(data))
            else:
                conn.ssh_CHANNEL_DATA(_struct.pack(">L", 0) + _common.NS(data))
            respects = k <= peer and k <= mp
            if not respects:
                # a peer that overruns the window / packet size is cut off and nothing is delivered
                cover("refused")
                return (ch.got == [] and tr.packets == [(_cnmod.MSG_CHANNEL_CLOSE, [7])]
                        and bool(ch.localClosed) and ch.localWindowLeft == before)
            # never refused
            if ch.got != [((1 if e else 0), data)] or ch.localClosed:
                return False
            peer = peer - k
            left = before - k
            if left < ws // 2:
                # replenished to the full window with exactly one WINDOW_ADJUST
                if tr.packets != [(_cnmod.MSG_CHANNEL_WINDOW_ADJUST, [7, ws - left])]:
                    return False
                peer = peer + (ws - left)
                left = ws
            elif tr.packets != []:
                return False
            if ch.localWindowLeft != left or peer != left:
                return False
            if left > ws or left < ws // 2:
                return False
            if ws >= 2 and left < 1:
                return False
        cover()
        return True


_ST = lambda tier: [("ne == %d" % a, "closing == %s" % c) for a in range(3) for c in (False, True)
                    if not (a == 0 and c)]

HARNESSES = [
    H(step_write, shards=_ST, timeout={"quick": 60, "thorough": 600}),
    H(step_writeext, shards=_ST, timeout={"quick": 60, "thorough": 600}),
    H(step_addwindow, shards=_ST, timeout={"quick": 60, "thorough": 900}),
    H(step_lose, shards=[("ne == 0",), ("ne == 1",), ("ne == 2",)], timeout={"quick": 60, "thorough": 300}),
    H(history, shards=lambda tier: [("o0 == %d" % a, "o1 == %d" % b2) + (("o3 == 5", "n3 == 0") if BOUNDS[tier]["hist"] < 4 else ())
                                    for a in range(5) for b2 in range(5)],
      timeout={"quick": 60, "thorough": 900}),
    H(step_addwindow_hook, shards=[("ne == %d" % a, "hm == %d" % h) for a in range(3) for h in range(4)],
      timeout={"quick": 60, "thorough": 600}),
    H(history_hook, shards=lambda tier: [("o0 == %d" % a, "o1 == %d" % c) for a in range(BOUNDS[tier]["hs"] + 1)
                                         for c in range(BOUNDS[tier]["hs"] + 1)],
      labels=("end", "hooked"), timeout={"quick": 60, "thorough": 600}),
    H(recv, shards=[("e1 == %s" % a, "closing == %s" % c) for a in (False, True) for c in (False, True)],
      labels=("end", "refused"),
      timeout={"quick": 60, "thorough": 300}),
]

VECTORS = {
    "step_write": [(5, 2, 0, 0, 0, 1, 0, 1, 2, 0, 0, False, 10, 4), (0, 3, 0, 2, 0, 1, 0, 1, 2, 0, 0, True, 2, 3)],
    "step_writeext": [(3, 2, 0, 0, 0, 1, 0, 1, 2, 0, 0, False, 1, 20, 4),
                      (0, 2, 0, 0, 1, 1, 30, 2, 2, 0, 0, True, 2, 40, 1)],
    "step_addwindow": [(0, 2, 0, 3, 1, 1, 10, 2, 2, 20, 0, True, 9), (0, 2, 0, 3, 1, 1, 10, 2, 2, 20, 0, False, 4)],
    "step_lose": [(4, 2, 0, 0, 0, 1, 0, 1, 2, 0, 0, False), (0, 2, 0, 2, 0, 1, 0, 1, 2, 0, 0, False)],
    "history": [(3, 2, 0, 2, 1, 2, 4, 0, 5, 0), (0, 1, 2, 1, 3, 1, 0, 1, 5, 0), (1, 3, 1, 3, 2, 2, 4, 0, 5, 0)],
    "step_addwindow_hook": [(2, 3, 4, 0, 1, 0, 1, 0, 0, 1, 3, 5), (2, 0, 0, 2, 2, 1, 2, 5, 1, 2, 2, 9),
                            (1, 0, 2, 1, 1, 0, 1, 0, 0, 3, 1, 1), (3, 7, 3, 0, 1, 0, 1, 0, 0, 0, 0, 2)],
    "history_hook": [(4, 4, 0, 4, 0, 4, 1, 4, 4, False), (0, 2, 1, 2, 0, 2, 2, 2, 9, False),
                     (1, 1, 1, 1, 1, 1, 3, 1, 0, False), (3, 2, 0, 2, 1, 2, 0, 0, 1, False)],
    "recv": [(10, 10, 4, 3, False, 3, True, False), (10, 2, 4, 3, False, 0, False, False),
             (1, 1, 1, 1, False, 0, False, False), (10, 6, 4, 3, False, 3, True, True), (4, 1, 4, 3, True, 0, False, True)],
}


def selftest():
    return rope.selftest()
